#!/usr/bin/env bash
# Build the framework from files on disk only (offline) and warm the dependency check cache.
set -e
cd "$(dirname "$0")"
export CARGO_NET_OFFLINE=true
(cd driver && cargo +nightly build --offline -q)
python3 -m rules.extract >/dev/null
echo "setup ok"
