//! E5 — compile-fail witnesses (thorough tier).
//!
//! Each witness shows that a *consumer* crate cannot construct a value that would
//! violate a property: the who-constructs censuses of the MIR rules are closed for the
//! dropshot crate itself, and these doctests close them for the outside world.  Every
//! `compile_fail,E0xxx` witness has a compiling twin that differs only in the offending
//! expression, so a witness cannot pass merely because its paths are wrong.
//! Run with `cargo +nightly test --doc --offline` (error codes are honoured on nightly).

/// W1 (C13.R1): the tuple constructor of `ErrorStatusCode` is private — no status outside
/// 400..=599 can be wrapped directly.
/// ```compile_fail,E0423
/// let _bad = dropshot::ErrorStatusCode(http::StatusCode::OK);
/// ```
/// Twin: the checked constructor is the only way in, and it refuses 200.
/// ```
/// assert!(dropshot::ErrorStatusCode::from_status(http::StatusCode::OK).is_err());
/// assert!(dropshot::ErrorStatusCode::from_status(http::StatusCode::NOT_FOUND).is_ok());
/// ```
pub struct W1;

/// W1b (C13.R1): same for `ClientErrorStatusCode`.
/// ```compile_fail,E0423
/// let _bad = dropshot::ClientErrorStatusCode(http::StatusCode::INTERNAL_SERVER_ERROR);
/// ```
/// ```
/// assert!(dropshot::ClientErrorStatusCode::from_status(http::StatusCode::INTERNAL_SERVER_ERROR).is_err());
/// assert!(dropshot::ClientErrorStatusCode::from_status(http::StatusCode::BAD_REQUEST).is_ok());
/// ```
pub struct W1b;

/// W2 (C10.R3 / C13): `for_client_error` takes a `ClientErrorStatusCode`; a 5xx status does
/// not type-check there.
/// ```compile_fail,E0308
/// let _e = dropshot::HttpError::for_client_error(None, dropshot::ErrorStatusCode::INTERNAL_SERVER_ERROR, String::from("x"));
/// ```
/// ```
/// let _e = dropshot::HttpError::for_client_error(None, dropshot::ClientErrorStatusCode::BAD_REQUEST, String::from("x"));
/// ```
pub struct W2;

/// W3 (C13.R1): the public `status_code` field of `HttpError` has the refined type; a raw
/// `http::StatusCode` cannot be stored in it.
/// ```compile_fail,E0308
/// let e = dropshot::HttpError::for_bad_request(None, String::from("x"));
/// let _e2 = dropshot::HttpError { status_code: http::StatusCode::OK, ..e };
/// ```
/// ```
/// let e = dropshot::HttpError::for_bad_request(None, String::from("x"));
/// let _e2 = dropshot::HttpError { status_code: dropshot::ErrorStatusCode::NOT_FOUND, ..e };
/// ```
pub struct W3;

/// W4 (C14.R5): the raw client limit of `PaginationParams` is not readable by consumers;
/// the clamped `RequestContext::page_limit` is the only way to a page size.
/// ```compile_fail,E0616
/// fn f<S: serde::de::DeserializeOwned + Send + Sync + 'static, P: serde::de::DeserializeOwned + serde::Serialize + Send + Sync + 'static>(p: &dropshot::PaginationParams<S, P>) {
///     let _raw = p.limit;
/// }
/// ```
/// ```
/// fn f<C: dropshot::ServerContext, S: serde::de::DeserializeOwned + Send + Sync + 'static, P: serde::de::DeserializeOwned + serde::Serialize + Send + Sync + 'static>(
///     rqctx: &dropshot::RequestContext<C>, p: &dropshot::PaginationParams<S, P>) {
///     let _clamped = rqctx.page_limit(p);
/// }
/// ```
pub struct W4;

/// W5 (C11.R3): a `StreamingBody` with an arbitrary cap cannot be built by a consumer —
/// fields are private and `new` is crate-private.
/// ```compile_fail,E0451
/// fn f(b: dropshot::Body) { let _s = dropshot::StreamingBody { body: b, cap: usize::MAX }; }
/// ```
/// ```compile_fail,E0624
/// fn f(b: dropshot::Body) { let _s = dropshot::StreamingBody::new(b, usize::MAX); }
/// ```
/// Twin: the type itself is nameable and usable as an extractor argument.
/// ```
/// fn f(s: dropshot::StreamingBody) -> impl Sized { s.into_stream() }
/// ```
pub struct W5;

/// W6 (C05.E3): an unordered from-until range is not constructible: the pair type is not
/// exported, `from_until` is the only constructor and it validates.
/// ```compile_fail,E0422
/// let a = semver::Version::new(2, 0, 0);
/// let b = semver::Version::new(1, 0, 0);
/// let _r = dropshot::ApiEndpointVersions::FromUntil(dropshot::OrderedVersionPair { earliest: a, until: b });
/// ```
/// ```compile_fail,E0603
/// let a = semver::Version::new(2, 0, 0);
/// let b = semver::Version::new(1, 0, 0);
/// let _r = dropshot::ApiEndpointVersions::FromUntil(dropshot::api_description::OrderedVersionPair { earliest: a, until: b });
/// ```
/// ```
/// let a = semver::Version::new(2, 0, 0);
/// let b = semver::Version::new(1, 0, 0);
/// assert!(dropshot::ApiEndpointVersions::from_until(a.clone(), b.clone()).is_err());
/// assert!(dropshot::ApiEndpointVersions::from_until(b, a).is_ok());
/// ```
pub struct W6;

/// W7 (C20.R4): a `WebsocketUpgrade` exists only as the result of `from_request`'s
/// handshake checks: its field is private.
/// ```compile_fail,E0423
/// let _u = dropshot::WebsocketUpgrade(None);
/// ```
/// ```
/// fn f(u: dropshot::WebsocketUpgrade) -> impl Sized { u }
/// ```
pub struct W7;
