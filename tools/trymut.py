#!/usr/bin/env python3
"""Run checks against a scratch copy of /repo with one edit applied.
usage: trymut.py [--patch f.diff | --revert <commit> | --subst <file> <old> <new>]... -- C03 C04 ...
Scratch copy lives under /tmp and is removed afterwards."""
import os, shutil, subprocess, sys, tempfile

def make_copy(repo="/repo"):
    d = tempfile.mkdtemp(prefix="vmut-")
    for top in ("dropshot", "dropshot_endpoint"):
        shutil.copytree(os.path.join(repo, top), os.path.join(d, top), ignore=shutil.ignore_patterns("target"))
    for fn in ("Cargo.toml", "Cargo.lock", "rust-toolchain.toml", "rustfmt.toml"):
        if os.path.exists(os.path.join(repo, fn)):
            shutil.copy(os.path.join(repo, fn), d)
    return d

def main():
    args = sys.argv[1:]
    edits, props, dumps = [], [], []
    i = 0
    while i < len(args):
        if args[i] == "--patch":
            edits.append(("patch", args[i+1])); i += 2
        elif args[i] == "--revert":
            edits.append(("revert", args[i+1])); i += 2
        elif args[i] == "--subst":
            edits.append(("subst", args[i+1], args[i+2], args[i+3])); i += 4
        elif args[i] == "--dump":
            dumps.append(args[i+1]); i += 2
        elif args[i] == "--":
            props = args[i+1:]; break
        else:
            props.append(args[i]); i += 1
    d = make_copy()
    rc = 0
    try:
        for e in edits:
            if e[0] == "patch":
                r = subprocess.run(["patch", "-p1", "-s", "-i", os.path.abspath(e[1])], cwd=d)
                if r.returncode: print("PATCH FAILED"); return 2
            elif e[0] == "revert":
                diff = subprocess.check_output(["git", "-C", "/repo", "show", e[1]])
                r = subprocess.run(["patch", "-p1", "-R", "-s"], input=diff, cwd=d)
                if r.returncode: print("REVERT FAILED"); return 2
            else:
                p = os.path.join(d, e[1]); s = open(p).read()
                if s.count(e[2]) != 1:
                    print("SUBST anchor count %d in %s" % (s.count(e[2]), e[1])); return 2
                open(p, "w").write(s.replace(e[2], e[3]))
        env = dict(os.environ, VERIF_REPO=d)
        for rx in dumps:
            subprocess.run(["./check", "dump", rx], cwd=os.path.dirname(os.path.dirname(os.path.abspath(__file__))), env=env)
        for p in props:
            r = subprocess.run(["./check", p], cwd=os.path.dirname(os.path.dirname(os.path.abspath(__file__))), env=env)
            rc = max(rc, r.returncode)
    finally:
        shutil.rmtree(d, ignore_errors=True)
    return rc

sys.exit(main())
