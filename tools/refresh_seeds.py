#!/usr/bin/env python3
"""Recompute `detected_by` of every seeded change (seeded/*/meta.json) with the current rules.
usage: refresh_seeds.py [id-filter]"""
import glob, json, os, sys
from concurrent.futures import ThreadPoolExecutor
sys.path.insert(0, os.path.dirname(os.path.dirname(os.path.abspath(__file__))))
from rules import selftest
flt = sys.argv[1:]
metas = sorted(glob.glob("/verif/seeded/*/meta.json"))
if flt:
    metas = [m for m in metas if any(f in m for f in flt)]

def one(mp):
    m = json.load(open(mp))
    d = os.path.dirname(mp)
    checks = list(m.get("detected_by", {}).keys()) or [m["property"]]
    det = {}
    for c in checks:
        r = selftest.run_variant(c, {"name": m["id"], "kind": "mutant", "patch": os.path.relpath(d + "/patch.diff", "/verif"), "expect": []})
        det[c] = {"status": r["status"], "fired_rules": r.get("fired_rules", []), "reports": r.get("reports", [])}
    m["detected_by"] = det
    json.dump(m, open(mp, "w"), indent=1)
    return m["id"], {c: (v["status"], v["fired_rules"]) for c, v in det.items()}

with ThreadPoolExecutor(max_workers=4) as ex:
    for i, r in ex.map(one, metas):
        flag = "" if any(v[0] == "caught" for v in r.values()) else "   <<<<<< NOT CAUGHT BY ANY CHECK"
        print(i, r, flag)
