#!/usr/bin/env python3
"""save_seed.py <PROP> <VARIANT> [--checks C03,C13]: store a confirmed adversary change under /verif/seeded/<PROP>-<VARIANT>/
and record which checks report it (run on a scratch copy)."""
import json, os, shutil, subprocess, sys
sys.path.insert(0, os.path.dirname(os.path.dirname(os.path.abspath(__file__))))
from rules import selftest
P, V = sys.argv[1], sys.argv[2]
checks = [P]
if "--checks" in sys.argv:
    checks = sys.argv[sys.argv.index("--checks") + 1].split(",")
src = "/tmp/adv-%s/%s" % (P, V)
conf = json.load(open(src + "/confirm.json"))
assert conf.get("confirmed"), "not confirmed: %s" % conf
dst = "/verif/seeded/%s-%s" % (P, V)
shutil.rmtree(dst, ignore_errors=True)
os.makedirs(dst)
shutil.copy(src + "/patch.diff", dst)
shutil.copytree(src + "/demo", dst + "/demo")
meta = json.load(open(src + "/meta.json"))
det = {}
for c in checks:
    r = selftest.run_variant(c, {"name": "%s-%s" % (P, V), "kind": "mutant", "patch": os.path.relpath(dst + "/patch.diff", "/verif"), "expect": []})
    det[c] = {"status": r["status"], "fired_rules": r.get("fired_rules", []), "reports": r.get("reports", [])}
lc = V.lower()
meta.update({
    "id": "%s-%s" % (P, V),
    "origin": "independent sub-agent given only the property text and a scratch worktree of /repo (HEAD incl. the fix: commits)",
    "confirmed_by_me": {
        "how": "tools/confirm_seed.sh %s %s in the scratch worktree: git apply patch.diff; cargo nextest run --workspace --no-fail-fast --test-threads 8 --offline; copy demo into dropshot/tests; cargo nextest run -p dropshot --test <demo file name>; git checkout; same demo again (the suite is retried, unchanged, when only the known fixed-port example tests collide with other suites running on the machine)" % (P, V),
        "suite_with_change": conf["suite_summary"],
        "demo_with_change_rc": conf["demo_with_change_rc"],
        "demo_without_change_rc": conf["demo_without_change_rc"],
    },
    "detected_by": det,
})
json.dump(meta, open(dst + "/meta.json", "w"), indent=1)
print(dst, {c: (d["status"], d["fired_rules"]) for c, d in det.items()})
