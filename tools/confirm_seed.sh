#!/usr/bin/env bash
# confirm_seed.sh <PROP> <VARIANT> : re-confirm an adversary change in its scratch worktree /tmp/wt-<PROP>
#   (1) suite passes with the change  (2) demo fails with the change  (3) demo passes without it
# writes /tmp/adv-<PROP>/<VARIANT>/confirm.json
P=$1; V=$2; WT=/tmp/wt-$P; D=/tmp/adv-$P/$V
cd $WT || exit 2
export CARGO_NET_OFFLINE=true
git checkout -q -- . ; rm -f dropshot/tests/demo_*variant_*.rs
demo_files=$(cd $D/demo && find . -type f -name '*.rs')
put_demo() { for f in $demo_files; do b=$(basename $f); cp $D/demo/$f dropshot/tests/$b; done; }
rm_demo() { for f in $demo_files; do rm -f dropshot/tests/$(basename $f); done; }
lc=$(echo $V | tr A-Z a-z)
tname=$(basename $(echo $demo_files | cut -d" " -f1) .rs)
git apply $D/patch.diff || { echo "{\"applies\": false}" > $D/confirm.json; exit 1; }
# a few example-based tests bind fixed TCP ports and collide when several suites run on this machine at
# once: retry the whole suite (unchanged) up to 4 times and accept only a fully green run
for attempt in 1 2 3 4; do
  cargo nextest run --workspace --no-fail-fast --test-threads 8 --offline > $D/suite.log 2>&1
  suite_rc=$?
  [ $suite_rc -eq 0 ] && break
  sleep $((RANDOM % 20 + 5))
done
suite_line=$(grep -E "tests run:" $D/suite.log | tail -1)
put_demo
cargo nextest run -p dropshot --test $tname --no-fail-fast --offline > $D/demo_with.log 2>&1
with_rc=$?
git checkout -q -- .
cargo nextest run -p dropshot --test $tname --no-fail-fast --offline > $D/demo_without.log 2>&1
without_rc=$?
rm_demo
python3 - "$D" "$suite_rc" "$with_rc" "$without_rc" "$suite_line" <<'PY'
import json,sys
d,s,w,wo,line=sys.argv[1:6]
json.dump({"applies":True,"suite_rc":int(s),"suite_summary":line.strip(),"demo_with_change_rc":int(w),"demo_without_change_rc":int(wo),
 "confirmed": int(s)==0 and int(w)!=0 and int(wo)==0}, open(d+"/confirm.json","w"), indent=1)
print(open(d+"/confirm.json").read())
PY
