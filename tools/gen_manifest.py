#!/usr/bin/env python3
"""Regenerate MANIFEST.json from rules/*.py (each module carries its MANIFEST texts)."""
import importlib, json, os, sys
sys.path.insert(0, os.path.dirname(os.path.dirname(os.path.abspath(__file__))))
props = [json.loads(l)["id"] for l in open("properties.jsonl")]
checks, na = [], []
for p in sorted(props):
    try:
        m = importlib.import_module("rules." + p.lower())
    except ModuleNotFoundError:
        na.append({"property_id": p, "reason": "check not built yet (work in progress; see DESIGN.md section 4 for the planned static rules)"})
        continue
    checks.append({
        "property_id": p,
        "quick_cmd": "./check %s --tier quick" % p,
        "thorough_cmd": "./check %s --tier thorough" % p,
        "evidence_file": "/verif/evidence/%s.json" % p,
        "replay_cmd_template": "./check %s --replay {path}" % p,
        "engine": "mirfacts+rules",
        "level_claimed": {"category": getattr(m, "LEVEL", "other"), "text": m.LEVEL_TEXT, "design_ref": "DESIGN.md section 4, " + p},
        "level_note": m.LEVEL_NOTE,
        "technique": m.TECHNIQUE,
    })
man = {
    "version": 1,
    "setup_cmd": "./setup.sh",
    "hooks": {
        "guard": "dropshot_verif",
        "enable": "none needed: the checks are static analyses of /repo's source (rustc MIR via a RUSTC_WORKSPACE_WRAPPER driver); no instrumentation is compiled into dropshot",
        "baseline_off_cmd": "cd /repo && cargo nextest run --workspace --no-fail-fast --test-threads 8 --offline",
        "source_commits": [],
        "add_only": True,
    },
    "engines": [
        {"name": "mirfacts", "path": "driver/", "serves_properties": sorted(props), "kind_free_text": "rustc_private driver (nightly) injected with RUSTC_WORKSPACE_WRAPPER under cargo check in /repo: dumps type-checked MIR (CFG, resolved callees, evaluated constants, ADT/visibility tables) of dropshot and dropshot_endpoint as JSON facts"},
        {"name": "rules", "path": "rules/", "serves_properties": sorted(props), "kind_free_text": "Python rule engine over the facts: dominators, must-pass, edge dominance with infeasible-edge pruning, backward slices, who-calls/reads/constructs censuses, sibling agreement, table extraction"},
        {"name": "absint", "path": "rules/absint.py", "serves_properties": ["C05", "C02", "C01", "C14", "C11"], "kind_free_text": "finite-domain abstract interpreter of MIR over opaque ordered symbols: exhaustive over all weak orders of the inputs of comparison-only functions"},
        {"name": "witness", "path": "witness/", "serves_properties": ["C13", "C14", "C11", "C05", "C20"], "kind_free_text": "compile_fail doctests with compiling twins (cargo +nightly test --doc), thorough tier"},
        {"name": "selftest", "path": "selftest/", "serves_properties": sorted(props), "kind_free_text": "mutants (must fire) and benign variants (must stay silent) applied to a scratch copy of /repo, thorough tier"},
    ],
    "checks": checks,
    "not_applicable": na,
    "notes": "Technique family: static analysis only. Every claim is clause-level: level_claimed.text names the structural clauses decided and DESIGN.md section 4 names the residue that is not decided.",
}
json.dump(man, open("MANIFEST.json", "w"), indent=1)
print("checks:", [c["property_id"] for c in checks], "n/a:", [x["property_id"] for x in na])
