#!/usr/bin/env python3
"""Run EVERY property check against EVERY benign refactoring (and optionally every seed) to find cross-property
false alarms.  usage: benign_matrix.py [--seeds] [name-filter]"""
import glob, json, os, shutil, subprocess, sys
from concurrent.futures import ThreadPoolExecutor
sys.path.insert(0, os.path.dirname(os.path.dirname(os.path.abspath(__file__))))
from rules import selftest
VERIF = selftest.VERIF
PROPS = ["C%02d" % i for i in range(1, 21)]

def one(d):
    name = os.path.basename(d)
    v = {"name": name, "kind": "benign", "patch": os.path.relpath(os.path.join(d, "patch.diff"), VERIF)}
    scratch = selftest.make_copy("/repo")
    try:
        why = selftest.apply_variant(scratch, v, "/repo")
        if why:
            return name, {"_skipped": why}
        env = dict(os.environ, VERIF_REPO=scratch)
        res = {}
        ea = json.load(open(os.path.join(d, "meta.json"))).get("expected_alarm")
        for p in PROPS:
            if isinstance(ea, dict) and p in ea:
                continue    # documented limitation of that check
            r = subprocess.run([sys.executable, "-m", "rules.main", p], cwd=VERIF, env=env, stdout=subprocess.PIPE, stderr=subprocess.STDOUT, text=True)
            if r.returncode != 0:
                res[p] = [l.strip()[9:150] for l in r.stdout.splitlines() if l.strip().startswith("instance ")][:6] or [r.stdout[-200:]]
        return name, res
    finally:
        shutil.rmtree(scratch, ignore_errors=True)
        shutil.rmtree(os.path.join(VERIF, ".cache", "scratch-evidence", os.path.basename(scratch)), ignore_errors=True)

def main():
    flt = [a for a in sys.argv[1:] if not a.startswith("--")]
    dirs = sorted(glob.glob(os.path.join(VERIF, "benign", "*")))
    if flt:
        dirs = [d for d in dirs if any(f in os.path.basename(d) for f in flt)]
    dirs = [d for d in dirs if not isinstance(json.load(open(os.path.join(d, "meta.json"))).get("expected_alarm"), str)]
    bad = 0
    with ThreadPoolExecutor(max_workers=4) as ex:
        for name, res in ex.map(one, dirs):
            if res:
                bad += 1
                print("ALARM %-14s %s" % (name, json.dumps(res)[:600]))
            else:
                print("quiet %-14s" % name)
            sys.stdout.flush()
    print("patches with an alarm: %d of %d" % (bad, len(dirs)))

main()
