#!/usr/bin/env python3
"""Regenerate the machine-written tables of DESIGN.md (between <!-- BEGIN x --> / <!-- END x --> markers)
from evidence/*.json, rules/*.py (SELFTEST lists) and seeded/*/meta.json."""
import glob, importlib, json, os, re, sys
sys.path.insert(0, os.path.dirname(os.path.dirname(os.path.abspath(__file__))))
os.chdir(os.path.dirname(os.path.dirname(os.path.abspath(__file__))))

def rules_table():
    out = ["| property | rule | instances on today's tree | statement |", "|---|---|---|---|"]
    for p in sorted(glob.glob("evidence/C*.json")):
        ev = json.load(open(p))
        for rid, r in ev["coverage"]["rules"].items():
            out.append("| %s | %s | %d | %s |" % (ev["property_id"], rid, r["instances"], r["statement"].replace("|", "\\|")[:400]))
    return "\n".join(out)

def selftest_table():
    out = ["| property | mutants (must fire) | benign variants (must stay silent) |", "|---|---|---|"]
    for i in range(1, 21):
        pid = "C%02d" % i
        try:
            m = importlib.import_module("rules." + pid.lower())
        except Exception:
            continue
        st = getattr(m, "SELFTEST", [])
        mu = ["%s→%s" % (v["name"], "/".join(v.get("expect", []))) for v in st if v["kind"] == "mutant"]
        be = [v["name"] for v in st if v["kind"] == "benign"]
        out.append("| %s | %d: %s | %d: %s |" % (pid, len(mu), "; ".join(mu), len(be), "; ".join(be)))
    return "\n".join(out)

def seeded_table():
    out = ["| seed | what was changed | needs to manifest | reported by (rule) | not reported by |", "|---|---|---|---|---|"]
    for d in sorted(glob.glob("seeded/*/meta.json")):
        m = json.load(open(d))
        det = m.get("detected_by", {})
        hit = ["%s (%s)" % (c, ", ".join(v["fired_rules"])) for c, v in det.items() if v["status"] == "caught"]
        miss = [c for c, v in det.items() if v["status"] != "caught"]
        out.append("| %s | %s | %s | %s | %s |" % (m["id"], m.get("summary", "").replace("|", "\\|").replace("\n", " ")[:330], m.get("needs", "").replace("|", "\\|").replace("\n", " ")[:220], "; ".join(hit) or "—", ", ".join(miss) or "—"))
    return "\n".join(out)

tables = {"RULES": rules_table, "SELFTEST": selftest_table, "SEEDED": seeded_table}
s = open("DESIGN.md").read()
for name, fn in tables.items():
    b, e = "<!-- BEGIN %s -->" % name, "<!-- END %s -->" % name
    if b in s and e in s:
        i, j = s.index(b) + len(b), s.index(e)
        s = s[:i] + "\n" + fn() + "\n" + s[j:]
open("DESIGN.md", "w").write(s)
print("tables regenerated")
