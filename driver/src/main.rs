#![feature(rustc_private)]
#![allow(clippy::all)]
extern crate rustc_abi;
extern crate rustc_driver;
extern crate rustc_hir;
extern crate rustc_interface;
extern crate rustc_middle;
extern crate rustc_span;

use rustc_driver::Compilation;
use rustc_hir::def::DefKind;
use rustc_hir::def_id::{DefId, LOCAL_CRATE};
use rustc_interface::interface::Compiler;
use rustc_middle::mir::{
    AggregateKind, BasicBlock, Body, Const, ConstValue, Operand, Place, ProjectionElem, Rvalue,
    StatementKind, TerminatorKind, VarDebugInfoContents,
};
use rustc_middle::ty::{self, Ty, TyCtxt, TyKind};
use std::collections::HashSet;
use std::fmt::Write as _;

fn esc(s: &str) -> String {
    let mut o = String::with_capacity(s.len() + 2);
    o.push('"');
    for c in s.chars() {
        match c {
            '"' => o.push_str("\\\""),
            '\\' => o.push_str("\\\\"),
            '\n' => o.push_str("\\n"),
            '\r' => o.push_str("\\r"),
            '\t' => o.push_str("\\t"),
            c if (c as u32) < 0x20 => {
                let _ = write!(o, "\\u{:04x}", c as u32);
            }
            c => o.push(c),
        }
    }
    o.push('"');
    o
}

struct Cx<'tcx> {
    tcx: TyCtxt<'tcx>,
    adts: HashSet<DefId>,
    env: Option<ty::TypingEnv<'tcx>>,
}

impl<'tcx> Cx<'tcx> {
    fn span(&self, sp: rustc_span::Span) -> String {
        self.tcx.sess.source_map().span_to_diagnostic_string(sp)
    }

    fn note_ty(&mut self, ty: Ty<'tcx>) {
        if let TyKind::Adt(adt, _) = ty.kind() {
            self.adts.insert(adt.did());
        }
    }

    fn place(&mut self, body: &Body<'tcx>, p: &Place<'tcx>) -> String {
        let tcx = self.tcx;
        let mut s = format!("{{\"l\":{},\"p\":[", p.local.as_usize());
        let mut pty = rustc_middle::mir::PlaceTy::from_ty(body.local_decls[p.local].ty);
        let mut first = true;
        for elem in p.projection.iter() {
            if !first {
                s.push(',');
            }
            first = false;
            match elem {
                ProjectionElem::Deref => s.push_str("\"*\""),
                ProjectionElem::Field(f, _) => {
                    let mut name = String::new();
                    if let TyKind::Adt(adt, _) = pty.ty.kind() {
                        self.adts.insert(adt.did());
                        let vidx = pty.variant_index.unwrap_or(rustc_abi::FIRST_VARIANT);
                        if vidx.as_usize() < adt.variants().len() {
                            let v = adt.variant(vidx);
                            if f.as_usize() < v.fields.len() {
                                name = v.fields[f].name.to_string();
                            }
                        }
                    }
                    let _ = write!(s, "{{\"f\":{},\"n\":{}}}", f.as_usize(), esc(&name));
                }
                ProjectionElem::Downcast(name, vidx) => {
                    let n = name.map(|n| n.to_string()).unwrap_or_default();
                    let _ = write!(s, "{{\"dc\":{},\"v\":{}}}", esc(&n), vidx.as_usize());
                }
                ProjectionElem::Index(l) => {
                    let _ = write!(s, "{{\"idx\":{}}}", l.as_usize());
                }
                ProjectionElem::ConstantIndex { offset, from_end, .. } => {
                    let _ = write!(s, "{{\"cidx\":{},\"from_end\":{}}}", offset, from_end);
                }
                ProjectionElem::Subslice { .. } => s.push_str("\"subslice\""),
                ProjectionElem::OpaqueCast(_) => s.push_str("\"opaque\""),
                ProjectionElem::UnwrapUnsafeBinder(_) => s.push_str("\"unbinder\""),
            }
            pty = pty.projection_ty(tcx, elem);
        }
        s.push_str("]}");
        s
    }

    fn konst(&mut self, c: &Const<'tcx>) -> String {
        let tcx = self.tcx;
        let ty = c.ty();
        let mut s = format!("{{\"k\":\"const\",\"ty\":{}", esc(&format!("{:?}", ty)));
        if let TyKind::FnDef(did, args) = ty.kind() {
            let _ = write!(s, ",\"fn\":{}", esc(&tcx.def_path_str(*did)));
            let _ = write!(s, ",\"fn_args\":{}", esc(&tcx.def_path_str_with_args(*did, args)));
        }
        match c {
            Const::Unevaluated(uv, _) => {
                let _ = write!(s, ",\"path\":{}", esc(&tcx.def_path_str(uv.def)));
                if !uv.args.is_empty() {
                    let _ = write!(s, ",\"cargs\":{}", esc(&tcx.def_path_str_with_args(uv.def, uv.args)));
                }
                if uv.promoted.is_some() {
                    s.push_str(",\"promoted\":true");
                }
            }
            _ => {}
        }
        // try to render a value
        let val: Option<ConstValue> = match c {
            Const::Val(v, _) => Some(*v),
            Const::Unevaluated(uv, _) if uv.promoted.is_none() => {
                if uv.args.is_empty() || !uv.args.iter().any(|a| format!("{:?}", a).contains('/')) {
                    tcx.const_eval_poly(uv.def).ok()
                } else {
                    None
                }
            }
            _ => None,
        };
        let mut val = val;
        if val.is_none() {
            if let (Const::Ty(..), Some(env)) = (c, self.env) {
                if !format!("{:?}", c).contains('/') {
                    val = c.eval(tcx, env, rustc_span::DUMMY_SP).ok();
                }
            }
        }
        if let Some(v) = val {
            if let Some(r) = self.render_val(v, ty) {
                let _ = write!(s, ",\"val\":{}", r);
            }
        } else if let Const::Ty(_, ct) = c {
            let _ = write!(s, ",\"tyconst\":{}", esc(&format!("{:?}", ct)));
        }
        s.push('}');
        s
    }

    fn render_val(&self, v: ConstValue, ty: Ty<'tcx>) -> Option<String> {
        let tcx = self.tcx;
        // a constant of enum type with fields (`const X: Option<usize> = None`): its variant, and the fields that render
        if let TyKind::Adt(adt, _) = ty.kind() {
            if adt.is_enum() && !format!("{:?}", ty).contains('/') {
                if let Some(d) = tcx.try_destructure_mir_constant_for_user_output(v, ty) {
                    if let Some(vi) = d.variant {
                        let fields: Vec<String> =
                            d.fields.iter().map(|(fv, fty)| self.render_val(*fv, *fty).unwrap_or_else(|| "null".to_string())).collect();
                        // keep the raw rendering next to it (a field-less enum held as a scalar, a zero-sized value)
                        let raw = match v {
                            ConstValue::Scalar(sc) => match sc.try_to_scalar_int() {
                                Ok(int) => format!(",\"int\":{},\"bytes\":{}", int.to_bits(int.size()), int.size().bytes()),
                                Err(_) => String::new(),
                            },
                            ConstValue::ZeroSized => ",\"zst\":true".to_string(),
                            _ => String::new(),
                        };
                        return Some(format!(
                            "{{\"variant\":{},\"adt\":{},\"fields\":[{}]{}}}",
                            esc(adt.variant(vi).name.as_str()),
                            esc(&tcx.def_path_str(adt.did())),
                            fields.join(","),
                            raw
                        ));
                    }
                }
            }
        }
        match v {
            ConstValue::Scalar(sc) => {
                if let (rustc_middle::mir::interpret::Scalar::Ptr(ptr, _), Some(Some(n))) = (sc, self.is_bytes_ref(ty)) {
                    let (prov, off) = ptr.into_raw_parts();
                    return self.read_alloc(prov.alloc_id(), off.bytes() as usize, n).map(|b| Self::bytes_json(&b));
                }
                if let Ok(int) = sc.try_to_scalar_int() {
                    let size = int.size();
                    let bits = int.to_bits(size);
                    Some(format!("{{\"int\":{},\"bytes\":{}}}", bits, size.bytes()))
                } else {
                    None
                }
            }
            ConstValue::ZeroSized => Some("{\"zst\":true}".to_string()),
            ConstValue::Slice { .. } => {
                let _ = ty;
                v.try_get_slice_bytes_for_diagnostics(tcx).map(|b| match std::str::from_utf8(b) {
                    Ok(st) => format!("{{\"str\":{}}}", esc(st)),
                    Err(_) => format!("{{\"bytes\":{:?}}}", b),
                })
            }
            ConstValue::Indirect { alloc_id, offset } => {
                // a constant table `[T; n]` (elements &str / &[u8] / scalars / tuples of those): {"list":[..]}
                if let TyKind::Array(elem, n) = ty.kind() {
                    let n = n.try_to_target_usize(tcx)? as usize;
                    return self.render_array(alloc_id, offset.bytes() as usize, *elem, n);
                }
                // a wide pointer (&[u8] / &str) stored in memory: (ptr, len)
                let inner = ty.builtin_deref(true)?;
                let is_bytes = match inner.kind() {
                    TyKind::Str => true,
                    TyKind::Slice(e) => matches!(e.kind(), TyKind::Uint(ty::UintTy::U8)),
                    _ => false,
                };
                if !is_bytes {
                    return None;
                }
                let rustc_middle::mir::interpret::GlobalAlloc::Memory(alloc) = tcx.global_alloc(alloc_id) else { return None };
                let alloc = alloc.inner();
                let base = offset.bytes() as usize;
                let raw = alloc.inspect_with_uninit_and_ptr_outside_interpreter(base..base + 16);
                let poff = u64::from_le_bytes(raw[0..8].try_into().ok()?) as usize;
                let len = u64::from_le_bytes(raw[8..16].try_into().ok()?) as usize;
                let prov = alloc.provenance().ptrs().iter().find(|(o, _)| o.bytes() as usize == base).map(|(_, p)| *p)?;
                self.read_alloc(prov.alloc_id(), poff, len).map(|b| Self::bytes_json(&b))
            }
        }
    }

    /// The elements of a constant array stored in allocation `id` at `base`.
    fn render_array(&self, id: rustc_middle::mir::interpret::AllocId, base: usize, elem: Ty<'tcx>, n: usize) -> Option<String> {
        if n > 256 {
            return None;
        }
        let tcx = self.tcx;
        let lay = tcx.layout_of(ty::TypingEnv::fully_monomorphized().as_query_input(elem)).ok()?;
        let stride = lay.size.bytes() as usize;
        let mut out = Vec::new();
        for i in 0..n {
            out.push(self.render_in_memory(id, base + i * stride, elem).unwrap_or_else(|| "null".to_string()));
        }
        Some(format!("{{\"list\":[{}]}}", out.join(",")))
    }

    /// One value of type `ty` stored in allocation `id` at byte offset `off`: &str / &[u8] wide pointers, integers, bool,
    /// char, and tuples / arrays of those.
    fn render_in_memory(&self, id: rustc_middle::mir::interpret::AllocId, off: usize, ty: Ty<'tcx>) -> Option<String> {
        let tcx = self.tcx;
        let rustc_middle::mir::interpret::GlobalAlloc::Memory(alloc) = tcx.global_alloc(id) else { return None };
        let alloc = alloc.inner();
        match ty.kind() {
            TyKind::Ref(_, inner, _) => {
                let is_bytes = match inner.kind() {
                    TyKind::Str => true,
                    TyKind::Slice(e) => matches!(e.kind(), TyKind::Uint(ty::UintTy::U8)),
                    _ => false,
                };
                if !is_bytes || off + 16 > alloc.len() {
                    return None;
                }
                let raw = alloc.inspect_with_uninit_and_ptr_outside_interpreter(off..off + 16);
                let poff = u64::from_le_bytes(raw[0..8].try_into().ok()?) as usize;
                let len = u64::from_le_bytes(raw[8..16].try_into().ok()?) as usize;
                let prov = alloc.provenance().ptrs().iter().find(|(o, _)| o.bytes() as usize == off).map(|(_, p)| *p)?;
                self.read_alloc(prov.alloc_id(), poff, len).map(|b| Self::bytes_json(&b))
            }
            TyKind::Int(_) | TyKind::Uint(_) | TyKind::Bool | TyKind::Char => {
                let lay = tcx.layout_of(ty::TypingEnv::fully_monomorphized().as_query_input(ty)).ok()?;
                let sz = lay.size.bytes() as usize;
                if sz == 0 || sz > 16 || off + sz > alloc.len() {
                    return None;
                }
                let raw = alloc.inspect_with_uninit_and_ptr_outside_interpreter(off..off + sz);
                let mut v: u128 = 0;
                for (k, b) in raw.iter().enumerate() {
                    v |= (*b as u128) << (8 * k);
                }
                Some(format!("{{\"int\":{},\"bytes\":{}}}", v, sz))
            }
            TyKind::Tuple(fields) => {
                let lay = tcx.layout_of(ty::TypingEnv::fully_monomorphized().as_query_input(ty)).ok()?;
                let mut out = Vec::new();
                for (k, fty) in fields.iter().enumerate() {
                    let fo = lay.fields.offset(k).bytes() as usize;
                    out.push(self.render_in_memory(id, off + fo, fty).unwrap_or_else(|| "null".to_string()));
                }
                Some(format!("{{\"tuple\":[{}]}}", out.join(",")))
            }
            TyKind::Array(e, n) => {
                let n = n.try_to_target_usize(tcx)? as usize;
                self.render_array(id, off, *e, n)
            }
            TyKind::Adt(adt, _) if adt.is_enum() && adt.variants().iter().all(|v| v.fields.is_empty()) => {
                // a field-less enum value: its discriminant, as the variant's name
                let lay = tcx.layout_of(ty::TypingEnv::fully_monomorphized().as_query_input(ty)).ok()?;
                let sz = lay.size.bytes() as usize;
                let mut v: u128 = 0;
                if sz > 0 {
                    if sz > 16 || off + sz > alloc.len() {
                        return None;
                    }
                    let raw = alloc.inspect_with_uninit_and_ptr_outside_interpreter(off..off + sz);
                    for (k, b) in raw.iter().enumerate() {
                        v |= (*b as u128) << (8 * k);
                    }
                }
                let mask: u128 = if sz >= 16 || sz == 0 { u128::MAX } else { (1u128 << (8 * sz)) - 1 };
                for (idx, d) in adt.discriminants(tcx) {
                    if sz == 0 || (d.val & mask) == v {
                        return Some(format!("{{\"variant\":{},\"adt\":{}}}", esc(adt.variant(idx).name.as_str()), esc(&tcx.def_path_str(adt.did()))));
                    }
                }
                None
            }
            TyKind::FnPtr(..) => {
                // a function pointer stored in a table: the function it points to
                if off + 8 > alloc.len() {
                    return None;
                }
                let prov = alloc.provenance().ptrs().iter().find(|(o, _)| o.bytes() as usize == off).map(|(_, p)| *p)?;
                match tcx.global_alloc(prov.alloc_id()) {
                    rustc_middle::mir::interpret::GlobalAlloc::Function { instance, .. } => {
                        // a closure coerced to `fn` goes through a call_once shim whose Self type is the closure: name it
                        let clo = instance.args.types().find_map(|t| match t.kind() {
                            TyKind::Closure(d, _) => Some(tcx.def_path_str(*d)),
                            _ => None,
                        });
                        match clo {
                            Some(c) => Some(format!("{{\"fn\":{},\"closure\":{}}}", esc(&tcx.def_path_str(instance.def_id())), esc(&c))),
                            None => Some(format!("{{\"fn\":{}}}", esc(&tcx.def_path_str(instance.def_id())))),
                        }
                    }
                    _ => None,
                }
            }
            _ => None,
        }
    }

    /// Some(Some(n)): `ty` is `&[u8; n]`; Some(None): a reference to bytes of unknown length; None: not bytes.
    fn is_bytes_ref(&self, ty: Ty<'tcx>) -> Option<Option<usize>> {
        let inner = ty.builtin_deref(true)?;
        if let TyKind::Array(e, n) = inner.kind() {
            if matches!(e.kind(), TyKind::Uint(ty::UintTy::U8)) {
                return Some(n.try_to_target_usize(self.tcx).map(|x| x as usize));
            }
        }
        None
    }

    fn read_alloc(&self, id: rustc_middle::mir::interpret::AllocId, off: usize, len: usize) -> Option<Vec<u8>> {
        let rustc_middle::mir::interpret::GlobalAlloc::Memory(alloc) = self.tcx.global_alloc(id) else { return None };
        let alloc = alloc.inner();
        if off + len > alloc.len() || len > 4096 {
            return None;
        }
        Some(alloc.inspect_with_uninit_and_ptr_outside_interpreter(off..off + len).to_vec())
    }

    fn bytes_json(b: &[u8]) -> String {
        match std::str::from_utf8(b) {
            Ok(st) => format!("{{\"str\":{},\"bytes_lit\":true}}", esc(st)),
            Err(_) => format!("{{\"bytes\":{:?}}}", b),
        }
    }

    fn operand(&mut self, body: &Body<'tcx>, o: &Operand<'tcx>) -> String {
        match o {
            Operand::Copy(p) => format!("{{\"k\":\"copy\",\"pl\":{}}}", self.place(body, p)),
            Operand::Move(p) => format!("{{\"k\":\"move\",\"pl\":{}}}", self.place(body, p)),
            Operand::Constant(c) => self.konst(&c.const_),
            _ => "{\"k\":\"other\"}".to_string(),
        }
    }

    fn rvalue(&mut self, body: &Body<'tcx>, rv: &Rvalue<'tcx>) -> String {
        let tcx = self.tcx;
        match rv {
            Rvalue::Use(o, ..) => format!("{{\"rv\":\"use\",\"op\":{}}}", self.operand(body, o)),
            Rvalue::Repeat(o, _) => format!("{{\"rv\":\"repeat\",\"op\":{}}}", self.operand(body, o)),
            Rvalue::Ref(_, bk, p) => format!(
                "{{\"rv\":\"ref\",\"mut\":{},\"pl\":{}}}",
                matches!(bk, rustc_middle::mir::BorrowKind::Mut { .. }),
                self.place(body, p)
            ),
            Rvalue::RawPtr(_, p) => format!("{{\"rv\":\"rawptr\",\"pl\":{}}}", self.place(body, p)),
            Rvalue::Cast(k, o, ty) => format!(
                "{{\"rv\":\"cast\",\"kind\":{},\"op\":{},\"ty\":{}}}",
                esc(&format!("{:?}", k)),
                self.operand(body, o),
                esc(&format!("{:?}", ty))
            ),
            Rvalue::BinaryOp(op, ab) => format!(
                "{{\"rv\":\"binop\",\"op\":{},\"a\":{},\"b\":{}}}",
                esc(&format!("{:?}", op)),
                self.operand(body, &ab.0),
                self.operand(body, &ab.1)
            ),
            Rvalue::UnaryOp(op, o) => format!(
                "{{\"rv\":\"unop\",\"op\":{},\"a\":{}}}",
                esc(&format!("{:?}", op)),
                self.operand(body, o)
            ),
            Rvalue::Discriminant(p) => {
                let pty = p.ty(&body.local_decls, tcx).ty;
                self.note_ty(pty);
                format!(
                    "{{\"rv\":\"discr\",\"pl\":{},\"ty\":{}}}",
                    self.place(body, p),
                    esc(&format!("{:?}", pty))
                )
            }
            Rvalue::Aggregate(kind, ops) => {
                let mut s = String::from("{\"rv\":\"agg\"");
                match &**kind {
                    AggregateKind::Array(_) => s.push_str(",\"agg\":\"array\""),
                    AggregateKind::Tuple => s.push_str(",\"agg\":\"tuple\""),
                    AggregateKind::Adt(did, vidx, _, _, _) => {
                        self.adts.insert(*did);
                        let adt = tcx.adt_def(*did);
                        let v = adt.variant(*vidx);
                        let _ = write!(
                            s,
                            ",\"agg\":\"adt\",\"adt\":{},\"variant\":{},\"fields\":[{}]",
                            esc(&tcx.def_path_str(*did)),
                            esc(&v.name.to_string()),
                            v.fields.iter().map(|f| esc(&f.name.to_string())).collect::<Vec<_>>().join(",")
                        );
                    }
                    AggregateKind::Closure(did, _) => {
                        let _ = write!(s, ",\"agg\":\"closure\",\"def\":{}", esc(&tcx.def_path_str(*did)));
                    }
                    AggregateKind::Coroutine(did, _) => {
                        let _ = write!(s, ",\"agg\":\"coroutine\",\"def\":{}", esc(&tcx.def_path_str(*did)));
                    }
                    AggregateKind::CoroutineClosure(did, _) => {
                        let _ = write!(s, ",\"agg\":\"coroutine_closure\",\"def\":{}", esc(&tcx.def_path_str(*did)));
                    }
                    AggregateKind::RawPtr(..) => s.push_str(",\"agg\":\"rawptr\""),
                }
                s.push_str(",\"ops\":[");
                let mut first = true;
                for o in ops.iter() {
                    if !first {
                        s.push(',');
                    }
                    first = false;
                    s.push_str(&self.operand(body, o));
                }
                s.push_str("]}");
                s
            }
            Rvalue::CopyForDeref(p) => format!("{{\"rv\":\"copyderef\",\"pl\":{}}}", self.place(body, p)),
            Rvalue::ThreadLocalRef(d) => format!("{{\"rv\":\"tls\",\"def\":{}}}", esc(&tcx.def_path_str(*d))),
            _ => format!("{{\"rv\":\"other\",\"dbg\":{}}}", esc(&format!("{:?}", rv))),
        }
    }

    fn body(&mut self, did: DefId, body: &Body<'tcx>) -> String {
        let tcx = self.tcx;
        let mut s = String::new();
        let kind = tcx.def_kind(did);
        let _ = write!(
            s,
            "{{\"id\":{},\"kind\":{},\"span\":{},\"argc\":{}",
            esc(&tcx.def_path_str(did)),
            esc(&format!("{:?}", kind)),
            esc(&self.span(body.span)),
            body.arg_count
        );
        if let Some(parent) = tcx.opt_parent(did) {
            let _ = write!(s, ",\"parent\":{}", esc(&tcx.def_path_str(parent)));
        }
        if body.coroutine.is_some() {
            s.push_str(",\"coroutine\":true");
        }
        if matches!(kind, DefKind::Fn | DefKind::AssocFn) {
            let _ = write!(s, ",\"vis\":{}", esc(&format!("{:?}", tcx.visibility(did))));
            let sig = tcx.fn_sig(did).instantiate_identity().skip_norm_wip();
            let _ = write!(s, ",\"sig\":{}", esc(&format!("{:?}", sig)));
        }
        // locals
        s.push_str(",\"locals\":[");
        for (i, (_, d)) in body.local_decls.iter_enumerated().enumerate() {
            if i > 0 {
                s.push(',');
            }
            self.note_ty(d.ty.peel_refs());
            let _ = write!(s, "{}", esc(&format!("{:?}", d.ty)));
        }
        s.push_str("],\"names\":[");
        let mut first = true;
        for vdi in body.var_debug_info.iter() {
            if let VarDebugInfoContents::Place(p) = &vdi.value {
                if !first {
                    s.push(',');
                }
                first = false;
                let _ = write!(s, "{{\"name\":{},\"pl\":{}}}", esc(&vdi.name.to_string()), self.place(body, p));
            }
        }
        s.push_str("],\"blocks\":[");
        let typing_env = ty::TypingEnv::post_analysis(tcx, did);
        self.env = Some(typing_env);
        for (bb, data) in body.basic_blocks.iter_enumerated() {
            if bb.as_usize() > 0 {
                s.push(',');
            }
            let _ = write!(s, "{{\"bb\":{},\"cleanup\":{},\"st\":[", bb.as_usize(), data.is_cleanup);
            let mut first = true;
            for st in data.statements.iter() {
                let js = match &st.kind {
                    StatementKind::Assign(b) => {
                        let (pl, rv) = &**b;
                        Some(format!(
                            "{{\"s\":\"assign\",\"pl\":{},\"rv\":{},\"line\":{}}}",
                            self.place(body, pl),
                            self.rvalue(body, rv),
                            self.line(st.source_info.span)
                        ))
                    }
                    StatementKind::SetDiscriminant { place, variant_index } => Some(format!(
                        "{{\"s\":\"setdiscr\",\"pl\":{},\"v\":{}}}",
                        self.place(body, place),
                        variant_index.as_usize()
                    )),
                    _ => None,
                };
                if let Some(js) = js {
                    if !first {
                        s.push(',');
                    }
                    first = false;
                    s.push_str(&js);
                }
            }
            s.push_str("],\"term\":");
            let term = data.terminator();
            let bbn = |b: &BasicBlock| b.as_usize();
            let line = self.line(term.source_info.span);
            let exp = term.source_info.span.from_expansion();
            let t = match &term.kind {
                TerminatorKind::Goto { target } => format!("{{\"t\":\"goto\",\"to\":{}}}", bbn(target)),
                TerminatorKind::SwitchInt { discr, targets } => {
                    let mut v = String::new();
                    for (val, tgt) in targets.iter() {
                        let _ = write!(v, "[{},{}],", val, bbn(&tgt));
                    }
                    let v = v.trim_end_matches(',').to_string();
                    format!(
                        "{{\"t\":\"switch\",\"discr\":{},\"targets\":[{}],\"otherwise\":{}}}",
                        self.operand(body, discr),
                        v,
                        bbn(&targets.otherwise())
                    )
                }
                TerminatorKind::Return => "{\"t\":\"return\"}".to_string(),
                TerminatorKind::Unreachable => "{\"t\":\"unreachable\"}".to_string(),
                TerminatorKind::UnwindResume => "{\"t\":\"resume\"}".to_string(),
                TerminatorKind::UnwindTerminate(_) => "{\"t\":\"terminate\"}".to_string(),
                TerminatorKind::Drop { place, target, .. } => {
                    format!("{{\"t\":\"drop\",\"pl\":{},\"to\":{}}}", self.place(body, place), bbn(target))
                }
                TerminatorKind::Call { func, args, destination, target, .. } => {
                    let mut c = String::from("{\"t\":\"call\"");
                    let fty = func.ty(&body.local_decls, tcx);
                    if let TyKind::FnDef(fdid, fargs) = fty.kind() {
                        let _ = write!(c, ",\"callee\":{}", esc(&tcx.def_path_str(*fdid)));
                        let _ = write!(c, ",\"callee_args\":{}", esc(&tcx.def_path_str_with_args(*fdid, fargs)));
                        let _ = write!(
                            c,
                            ",\"gargs\":[{}]",
                            fargs.iter().map(|a| esc(&format!("{:?}", a))).collect::<Vec<_>>().join(",")
                        );
                        let _ = write!(c, ",\"callee_crate\":{}", esc(&tcx.crate_name(fdid.krate).to_string()));
                        if let Ok(Some(inst)) = ty::Instance::try_resolve(tcx, typing_env, *fdid, fargs) {
                            let rd = inst.def_id();
                            if rd != *fdid {
                                let _ = write!(c, ",\"resolved\":{}", esc(&tcx.def_path_str(rd)));
                            }
                        }
                    } else {
                        let _ = write!(c, ",\"callee_op\":{}", self.operand(body, func));
                        let _ = write!(c, ",\"callee_ty\":{}", esc(&format!("{:?}", fty)));
                    }
                    c.push_str(",\"args\":[");
                    let mut first = true;
                    for a in args.iter() {
                        if !first {
                            c.push(',');
                        }
                        first = false;
                        c.push_str(&self.operand(body, &a.node));
                    }
                    let _ = write!(c, "],\"dest\":{}", self.place(body, destination));
                    if let Some(t) = target {
                        let _ = write!(c, ",\"to\":{}", bbn(t));
                    }
                    c.push('}');
                    c
                }
                TerminatorKind::TailCall { .. } => "{\"t\":\"tailcall\"}".to_string(),
                TerminatorKind::Assert { cond, expected, msg, target, .. } => {
                    let dbg = format!("{:?}", msg);
                    let kind = dbg.split(|ch: char| !ch.is_alphanumeric()).next().unwrap_or("").to_string();
                    format!(
                        "{{\"t\":\"assert\",\"cond\":{},\"expected\":{},\"msg\":{},\"to\":{}}}",
                        self.operand(body, cond),
                        expected,
                        esc(&kind),
                        bbn(target)
                    )
                }
                TerminatorKind::Yield { value, resume, resume_arg, drop } => format!(
                    "{{\"t\":\"yield\",\"value\":{},\"to\":{},\"resume_pl\":{},\"drop\":{}}}",
                    self.operand(body, value),
                    bbn(resume),
                    self.place(body, resume_arg),
                    drop.map(|d| d.as_usize() as i64).unwrap_or(-1)
                ),
                TerminatorKind::CoroutineDrop => "{\"t\":\"codrop\"}".to_string(),
                TerminatorKind::FalseEdge { real_target, imaginary_target } => format!(
                    "{{\"t\":\"falseedge\",\"to\":{},\"imag\":{}}}",
                    bbn(real_target),
                    bbn(imaginary_target)
                ),
                TerminatorKind::FalseUnwind { real_target, .. } => {
                    format!("{{\"t\":\"falseunwind\",\"to\":{}}}", bbn(real_target))
                }
                TerminatorKind::InlineAsm { .. } => "{\"t\":\"asm\"}".to_string(),
            };
            // splice line/expansion info into terminator object
            let t = format!("{},\"line\":{},\"exp\":{}}}", &t[..t.len() - 1], line, exp);
            s.push_str(&t);
            s.push('}');
        }
        s.push_str("]}");
        s
    }

    fn line(&self, sp: rustc_span::Span) -> usize {
        let sm = self.tcx.sess.source_map();
        // use the outermost (user-code) call site for macro expansions
        let sp = sp.source_callsite();
        sm.lookup_char_pos(sp.lo()).line
    }
}

struct Cb;
impl rustc_driver::Callbacks for Cb {
    fn after_expansion<'tcx>(&mut self, _c: &Compiler, tcx: TyCtxt<'tcx>) -> Compilation {
        let krate = tcx.crate_name(LOCAL_CRATE).to_string();
        let want = std::env::var("MIRFACTS_CRATES").unwrap_or_default();
        if !want.split(',').any(|w| w == krate) {
            return Compilation::Continue;
        }
        let outdir = match std::env::var("MIRFACTS_OUT") {
            Ok(o) => o,
            Err(_) => return Compilation::Continue,
        };
        let mut cx = Cx { tcx, adts: HashSet::new(), env: None };
        let mut out = String::new();
        let _ = write!(out, "{{\"crate\":{},\"functions\":[", esc(&krate));
        let mut n = 0usize;
        // Phase 1: clone every built body before any query that could steal it
        // (const evaluation, instance resolution) runs.
        let mut bodies: Vec<(DefId, Body<'tcx>)> = Vec::new();
        let mut stolen: Vec<String> = Vec::new();
        // Bodies nested in a function that defines a `-> impl Trait` opaque type go first:
        // type-checking a *user* of such a function may need the hidden type (auto-trait
        // leakage), which runs borrowck on the definer and steals its built MIR.
        let mut keys: Vec<rustc_hir::def_id::LocalDefId> = tcx.mir_keys(()).iter().copied().collect();
        // Bodies a previous run found stolen (MIRFACTS_FIRST, fed back by the extraction front end) go before everything:
        // an async fn whose future must be `Send` for a caller has its MIR taken when that *caller* is type-checked,
        // and which of two such functions comes first in mir_keys is not something this driver can know in advance.
        let first: HashSet<String> = std::env::var("MIRFACTS_FIRST").unwrap_or_default().split(';').filter(|x| !x.is_empty()).map(|x| x.to_string()).collect();
        let prio = |l: &rustc_hir::def_id::LocalDefId| -> u8 {
            if !first.is_empty() && first.contains(&tcx.def_path_str(l.to_def_id())) {
                return 0;
            }
            let root = tcx.typeck_root_def_id(l.to_def_id());
            let Some(root) = root.as_local() else { return 2 };
            if !matches!(tcx.def_kind(root), DefKind::Fn | DefKind::AssocFn) { return 2; }
            for op in tcx.opaque_types_defined_by(root).iter() {
                // `-> impl Trait` and `async fn` both define an opaque type whose auto traits leak: type-checking a
                // user that needs `Send` of it (tokio::spawn, .boxed()) borrow-checks the definer and steals its MIR
                if let rustc_hir::OpaqueTyOrigin::FnReturn { .. } | rustc_hir::OpaqueTyOrigin::AsyncFn { .. } = tcx.local_opaque_ty_origin(op) {
                    return 1;
                }
            }
            2
        };
        keys.sort_by_key(|l| prio(l));
        for ldid in keys.iter() {
            let did = ldid.to_def_id();
            let kind = tcx.def_kind(did);
            if !matches!(kind, DefKind::Fn | DefKind::AssocFn | DefKind::Closure) {
                continue;
            }
            let steal = tcx.mir_built(*ldid);
            if steal.is_stolen() {
                // Already consumed by const evaluation triggered while building an
                // earlier body (const fn / const context).  Fall back to the CTFE body.
                if tcx.is_const_fn(did) {
                    let b = tcx.mir_for_ctfe(did).clone();
                    stolen.push(format!("{} (ctfe body used)", tcx.def_path_str(did)));
                    bodies.push((did, b));
                } else {
                    stolen.push(format!("{} (SKIPPED)", tcx.def_path_str(did)));
                }
                continue;
            }
            let body = steal.borrow().clone();
            bodies.push((did, body));
        }
        for (did, body) in bodies.iter() {
            if n > 0 {
                out.push(',');
            }
            n += 1;
            out.push_str(&cx.body(*did, body));
        }
        out.push_str("],\"consts\":[");
        // constants and statics
        let mut first = true;
        for ldid in tcx.hir_crate_items(()).definitions() {
            let did = ldid.to_def_id();
            let kind = tcx.def_kind(did);
            match kind {
                DefKind::Const { .. } | DefKind::AssocConst { .. } => {
                    let has_value = tcx.mir_keys(()).contains(&ldid);
                    if !has_value {
                        continue;
                    }
                    let ty = tcx.type_of(did).instantiate_identity().skip_norm_wip();
                    let mut rec = format!(
                        "{{\"id\":{},\"kind\":{},\"ty\":{},\"parent\":{}",
                        esc(&tcx.def_path_str(did)),
                        esc(&format!("{:?}", kind)),
                        esc(&format!("{:?}", ty)),
                        esc(&tcx.opt_parent(did).map(|p| tcx.def_path_str(p)).unwrap_or_default())
                    );
                    if let Ok(v) = tcx.const_eval_poly(did) {
                        if let Some(r) = cx.render_val(v, ty) {
                            let _ = write!(rec, ",\"val\":{}", r);
                        }
                    }
                    rec.push('}');
                    if !first {
                        out.push(',');
                    }
                    first = false;
                    out.push_str(&rec);
                }
                _ => {}
            }
        }
        out.push_str("],\"statics\":[");
        let mut first = true;
        for ldid in tcx.hir_crate_items(()).definitions() {
            let did = ldid.to_def_id();
            if let DefKind::Static { mutability, .. } = tcx.def_kind(did) {
                let ty = tcx.type_of(did).instantiate_identity().skip_norm_wip();
                let freeze = ty.is_freeze(tcx, ty::TypingEnv::post_analysis(tcx, did));
                if !first {
                    out.push(',');
                }
                first = false;
                let _ = write!(
                    out,
                    "{{\"id\":{},\"mut\":{},\"ty\":{},\"freeze\":{}}}",
                    esc(&tcx.def_path_str(did)),
                    matches!(mutability, rustc_hir::Mutability::Mut),
                    esc(&format!("{:?}", ty)),
                    freeze
                );
            }
        }
        out.push_str("],\"impls\":[");
        let mut first = true;
        for (trait_did, impls) in tcx.all_local_trait_impls(()).iter() {
            for impl_ldid in impls.iter() {
                let impl_did = impl_ldid.to_def_id();
                let self_ty = tcx.type_of(impl_did).instantiate_identity().skip_norm_wip();
                if !first {
                    out.push(',');
                }
                first = false;
                let _ = write!(
                    out,
                    "{{\"trait\":{},\"self\":{},\"impl\":{},\"items\":[",
                    esc(&tcx.def_path_str(*trait_did)),
                    esc(&format!("{:?}", self_ty)),
                    esc(&tcx.def_path_str(impl_did))
                );
                let mut f2 = true;
                for item in tcx.associated_items(impl_did).in_definition_order() {
                    if !f2 {
                        out.push(',');
                    }
                    f2 = false;
                    let _ = write!(
                        out,
                        "{{\"name\":{},\"kind\":{},\"id\":{}}}",
                        esc(&item.name().to_string()),
                        esc(&format!("{:?}", item.kind).split(|c: char| !c.is_alphanumeric()).next().unwrap_or("").to_string()),
                        esc(&tcx.def_path_str(item.def_id))
                    );
                }
                out.push_str("]}");
            }
        }
        out.push_str("],\"traits\":[");
        let mut first = true;
        for ldid in tcx.hir_crate_items(()).definitions() {
            let did = ldid.to_def_id();
            if matches!(tcx.def_kind(did), DefKind::Trait) {
                if !first {
                    out.push(',');
                }
                first = false;
                out.push_str(&esc(&tcx.def_path_str(did)));
            }
        }
        out.push_str("],\"adts\":[");
        // local ADTs
        for ldid in tcx.hir_crate_items(()).definitions() {
            let did = ldid.to_def_id();
            if matches!(tcx.def_kind(did), DefKind::Struct | DefKind::Enum | DefKind::Union) {
                cx.adts.insert(did);
            }
        }
        let mut first = true;
        let mut adt_list: Vec<DefId> = cx.adts.iter().copied().collect();
        adt_list.sort_by_key(|d| tcx.def_path_str(*d));
        for did in adt_list.iter() {
            let adt = tcx.adt_def(*did);
            if !first {
                out.push(',');
            }
            first = false;
            let _ = write!(
                out,
                "{{\"id\":{},\"local\":{},\"kind\":{},\"variants\":[",
                esc(&tcx.def_path_str(*did)),
                did.is_local(),
                esc(if adt.is_enum() { "enum" } else if adt.is_union() { "union" } else { "struct" })
            );
            let mut fv = true;
            for v in adt.variants().iter() {
                if !fv {
                    out.push(',');
                }
                fv = false;
                let _ = write!(out, "{{\"name\":{},\"fields\":[", esc(&v.name.to_string()));
                let mut ff = true;
                for f in v.fields.iter() {
                    if !ff {
                        out.push(',');
                    }
                    ff = false;
                    let fty = tcx.type_of(f.did).instantiate_identity().skip_norm_wip();
                    let _ = write!(
                        out,
                        "{{\"name\":{},\"ty\":{},\"vis\":{}}}",
                        esc(&f.name.to_string()),
                        esc(&format!("{:?}", fty)),
                        esc(&format!("{:?}", f.vis))
                    );
                }
                out.push_str("]}");
            }
            out.push_str("]}");
        }
        let _ = write!(out, "],\"stolen\":[{}],\"nfunctions\":{}}}", stolen.iter().map(|x| esc(x)).collect::<Vec<_>>().join(","), n);
        let path = format!("{}/{}.json", outdir, krate);
        std::fs::write(&path, out).expect("write facts");
        Compilation::Continue
    }
}

fn main() {
    let mut args: Vec<String> = std::env::args().collect();
    // invoked as RUSTC_WORKSPACE_WRAPPER: argv[1] is the real rustc
    if args.len() > 1 && (args[1].ends_with("rustc") || args[1].contains("/rustc")) {
        args.remove(1);
    }
    rustc_driver::run_compiler(&args, &mut Cb);
}
