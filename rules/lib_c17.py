"""Helpers of C17 (shutdown is graceful and complete): symbolic evaluation of a future-valued expression.

The server's completion future can be written as an async block (`async move { join.await.map_err(..)?; wg.wait().await;
Ok(()) }`) or with the futures-crate combinators (`join.map_err(..).and_then(move |()| wg.wait().map(Ok))`).  These are
different programs with the same meaning, so the second one is decided by its own model:

  future_term   turns the operand into a term over LEAF futures (the JoinHandle of a spawned task, `WaitGroup::wait()`,
                `ready(..)`) and COMBINATORS (map_err, map_ok, and_then, map, inspect*, boxed / into_future / fuse ..), following
                moves, captured variables of the combinator closures (into the function that built them) and the value the
                closure returns; an async block inside a combinator is a term of its own;
  outcomes      evaluates a term to the set of ways it can resolve: (tag Ok / Err / unit / unknown, the leaves that have
                certainly completed by then, where an Err comes from, whether an Err was turned into an Ok on the way),
                from the documented semantics of each combinator (and_then runs its closure's future only after the
                receiver resolved Ok and passes an Err through; map_err / map_ok cannot change the variant; map applies
                a function to the output; try_join resolves Ok once both resolved Ok and Err with the first Err).

Anything outside the enumerated combinators is an `unknown` term and resolves to an `unknown` outcome: rules fail closed
on it.  Nothing here keys on block numbers, line numbers or source text."""
import re

from .lib import closure_of_operand, operand_local, result_split
from .lib_c16 import SPAWN, after_await, await_payloads, awaits, coroutine_of_operand, return_defs

WAIT = r"^waitgroup::WaitGroup::wait$"
# combinators of futures::{FutureExt, TryFutureExt} (and the std / Box plumbing around a future) by what they do to the output
_COMB = [
    (re.compile(r"TryFutureExt::map_err$|TryFutureExt::err_into$"), "map_err"),
    (re.compile(r"TryFutureExt::map_ok$|TryFutureExt::ok_into$"), "map_ok"),
    (re.compile(r"TryFutureExt::and_then$"), "and_then"),
    (re.compile(r"FutureExt::map$"), "map"),
    (re.compile(r"TryFutureExt::inspect_ok$|TryFutureExt::inspect_err$|FutureExt::inspect$|TryFutureExt::into_future$|IntoFuture::into_future$|"
                r"FutureExt::boxed$|FutureExt::boxed_local$|boxed::Box::<T>::pin$|boxed::Box::<T>::new$|FutureExt::fuse$|pin::Pin::<Ptr>::new$"), "same"),
]
_READY = [(re.compile(r"future::ready$"), None), (re.compile(r"future::ok$"), "Ok"), (re.compile(r"future::err$"), "Err")]


class Env:
    """Which closure / coroutine bodies were entered from where: body id -> (function that built it, its aggregate statement)."""

    def __init__(self):
        self.site = {}

    def enter(self, g, parent, node):
        self.site.setdefault(g.id, (parent, node))

    def root_operands(self, fn, op, depth=0):
        """[(function, operand)] of the outermost enclosing functions that the operand `op` of body `fn` is computed from
        through captured variables (`_1.<i>` of a closure = operand i of the aggregate that built it).  A value that does not
        come from a capture stays where it is."""
        if fn.id not in self.site or depth > 6:
            return [(fn, op)]
        parent, node = self.site[fn.id]
        sl = fn.slice(op)
        idx = set()
        for p, proj in sl.param_fields():
            if p != 1:
                return [(fn, op)]
            hit = [e for e in proj if e.startswith("f")]
            if not hit:
                return [(fn, op)]
            idx.add(int(hit[0][1:].split(":")[0]))
        out = []
        for i in sorted(idx):
            if i < len(node["rv"]["ops"]):
                out += self.root_operands(parent, node["rv"]["ops"][i], depth + 1)
        return out or [(fn, op)]


def _callable(fn, op):
    """('closure', Fn, aggregate) | ('ctor', 'Ok'|'Err') | ('fnitem', path) | None for a function-valued operand."""
    g, node = closure_of_operand(fn, op)
    if g is not None and node["rv"].get("agg") == "closure":
        return ("closure", g, node)
    if op.get("k") == "const" and op.get("fn"):
        m = re.search(r"^std::result::Result::<.*>::(Ok|Err)$", op.get("fn_args") or "") or re.search(r"(?:^|::)(Ok|Err)$", op["fn"])
        if m and re.search(r"result::Result|prelude::v1::(Ok|Err)$", (op.get("fn_args") or "") + " " + op["fn"]):
            return ("ctor", m.group(1))
        return ("fnitem", op["fn"])
    return None


def future_term(env, fn, op, depth=0):
    """The term of a future-valued operand of `fn` (see the module doc).  Terms are dicts with "k" in
    task / wait / ready / async / map_err / map_ok / and_then / map / try_join / unknown; leaves carry "id"."""
    if depth > 24:
        return {"k": "unknown", "why": "too deep"}
    if op.get("k") not in ("copy", "move"):
        return {"k": "unknown", "why": "a constant"}
    pl = op["pl"]
    if pl["p"]:
        # a captured variable: continue in the function that built the closure
        fields = [e for e in pl["p"] if isinstance(e, dict) and "f" in e]
        if pl["l"] == 1 and fn.id in env.site and len(fields) == 1 and isinstance(pl["p"][0], dict) and all(e == "*" for e in pl["p"][1:]):
            parent, node = env.site[fn.id]
            i = fields[0]["f"]
            if i < len(node["rv"]["ops"]):
                cop = node["rv"]["ops"][i]
                for _ in pl["p"][1:]:       # captured by reference: the capture is `&x`
                    l = operand_local(cop)
                    ds = parent.defs().get(l, []) if l is not None else []
                    if len(ds) != 1 or ds[0][1] != "assign" or ds[0][2]["rv"]["rv"] != "ref" or ds[0][2]["rv"]["pl"]["p"]:
                        return {"k": "unknown", "why": "a capture by reference that is not a plain borrow"}
                    cop = {"k": "move", "pl": ds[0][2]["rv"]["pl"]}
                return future_term(env, parent, cop, depth + 1)
        return {"k": "unknown", "why": "a projected place"}
    ds = fn.defs().get(pl["l"], [])
    if len(ds) != 1:
        return {"k": "unknown", "why": "a local with %d definitions" % len(ds)}
    bb, kind, node = ds[0]
    if kind == "assign":
        if node["pl"]["p"]:
            return {"k": "unknown", "why": "a partially written local"}
        rv = node["rv"]
        if rv["rv"] in ("use", "cast"):
            return future_term(env, fn, rv["op"], depth + 1)
        if rv["rv"] == "agg" and rv.get("agg") == "coroutine" and rv["def"] in fn.facts.F:
            g = fn.facts.F[rv["def"]]
            env.enter(g, fn, node)
            return _async_term(env, {"k": "async", "co": g, "node": node, "fn": fn})
        return {"k": "unknown", "why": "not a future expression this model knows (%s)" % rv["rv"]}
    if kind != "call":
        return {"k": "unknown", "why": kind}
    t = node
    c = t.get("callee") or "<indirect>"
    if re.search(SPAWN, c):
        return {"k": "task", "id": ("task", fn.id, bb), "fn": fn, "bb": bb}
    if re.search(WAIT, c):
        return {"k": "wait", "id": ("wait", fn.id, bb), "fn": fn, "bb": bb, "wg": t["args"][0]}
    for rx, tag in _READY:
        if rx.search(c) and t["args"]:
            if tag is None:
                kv = fn._known_variant_of(t["args"][0], fn.defs())
                tag = {0: "Ok", 1: "Err"}.get(kv[1]) if kv and kv[0] == "std::result::Result" else "unknown"
            return {"k": "ready", "tag": tag, "id": ("ready", fn.id, bb)}
    for rx, what in _COMB:
        if rx.search(c) and t["args"]:
            inner = future_term(env, fn, t["args"][0], depth + 1)
            if what == "same":
                return inner
            f = _callable(fn, t["args"][1]) if len(t["args"]) > 1 else None
            if what in ("and_then", "map") and f is None:
                return {"k": "unknown", "why": "%s with a function this model cannot read" % c.split("::")[-1]}
            term = {"k": what, "inner": inner, "f": f, "fn": fn, "bb": bb}
            if f and f[0] == "closure":
                env.enter(f[1], fn, f[2])
            if what == "and_then":
                # the future the closure returns, evaluated in the closure's body
                term["ret"] = future_term(env, f[1], {"k": "move", "pl": {"l": 0, "p": []}}, depth + 1) if f[0] == "closure" else \
                    {"k": "unknown", "why": "and_then with the function item %s" % (f[1],)}
            return term
    if re.search(r"future::try_join$", c) and len(t["args"]) == 2:
        return {"k": "try_join", "inner": future_term(env, fn, t["args"][0], depth + 1), "other": future_term(env, fn, t["args"][1], depth + 1), "fn": fn, "bb": bb}
    g, cnode = coroutine_of_operand(fn, op)        # the future of a crate-local `async fn`
    if g is not None and cnode["rv"].get("agg") == "coroutine":
        env.enter(g, fn, cnode)
        return _async_term(env, {"k": "async", "co": g, "node": cnode, "fn": fn})
    return {"k": "unknown", "why": "a call of %s" % c}


def leaves(term, kind=None):
    out = []
    if term["k"] in ("task", "wait", "ready"):
        out.append(term)
    elif term["k"] == "async":
        out += [l for l, a in term["found"]]
    if "inner" in term:
        out += leaves(term["inner"])
    if "ret" in term:
        out += leaves(term["ret"])
    if "other" in term:
        out += leaves(term["other"])
    return [l for l in out if kind is None or l["k"] == kind]


def _closure_output_tag(term):
    """What `map(f)` makes of the receiver's output: 'Ok' / 'Err' (f builds that variant on every path), 'same' (f returns
    its argument), else 'unknown'."""
    f = term["f"]
    if f[0] == "ctor":
        return f[1]
    if f[0] != "closure":
        return "unknown"
    g = f[1]
    tags = set(tag for b, tag in return_defs(g))
    if tags and tags <= {"Ok"}:
        return "Ok"
    if tags and tags <= {"Err"}:
        return "Err"
    if tags == {"value"}:
        sl = g.slice({"l": 0, "p": []})
        if sl.params() == [2] and not sl.callees and not any(a[0] in ("agg", "lit", "const") for a in sl.atoms):
            return "same"
    return "unknown"


def _async_term(env, term):
    """Adds term["found"] = [(leaf term, await record)]: the leaf futures an async block awaits."""
    co = term["co"]
    found = []
    for a in awaits(co):
        recv = a["term"]["args"][0]
        sl = co.slice(recv)
        ws = sl.calls(WAIT)
        if ws:
            for c, wbb, wt in ws:
                found.append(({"k": "wait", "id": ("wait", co.id, wbb), "fn": co, "bb": wbb, "wg": wt["args"][0]}, a))
            continue
        if re.search(r"task::JoinHandle", (a["term"].get("callee_args") or "") + " " + (a["term"].get("resolved") or "")):
            for rf, rop in env.root_operands(co, recv):
                for c, sbb, st in rf.slice(rop).calls(SPAWN):
                    found.append(({"k": "task", "id": ("task", rf.id, sbb), "fn": rf, "bb": sbb}, a))
    term["found"] = found
    return term


def _async_outcomes(env, term):
    """Outcomes of an async block: one per value written to its return place; the leaves completed by then are the awaited
    leaf futures whose Ready edge every path to that write has taken."""
    co, found = term["co"], term["found"]
    out = []
    for b, tag in return_defs(co):
        done = frozenset(l["id"] for l, a in found if after_await(co, a, b))
        if tag == "Ok":
            out.append({"tag": "Ok", "done": done, "origin": None, "swallowed": False})
        elif tag in ("Err", "residual"):
            origin = "elsewhere"
            for l, a in found:
                if l["k"] != "task":
                    continue
                for pl in await_payloads(co, a):
                    sp = result_split(co, pl)
                    if sp is not None and sp["err"] != sp["ok"] and co.edge_dominates(sp["switch_bb"], sp["err"], b):
                        origin = l["id"]
            out.append({"tag": "Err", "done": done, "origin": origin, "swallowed": False})
        else:
            out.append({"tag": "unknown", "done": done, "origin": "a value of unknown variant (%s)" % tag, "swallowed": False})
    return out


def outcomes(env, term):
    """[{"tag": Ok|Err|unit|unknown, "done": frozenset(leaf ids certainly completed), "origin": leaf id that produced an
    Err | "elsewhere" | text, "swallowed": an Err of a leaf was turned into this Ok}]"""
    k = term["k"]
    if k == "task":
        return [{"tag": "Ok", "done": frozenset([term["id"]]), "origin": None, "swallowed": False},
                {"tag": "Err", "done": frozenset([term["id"]]), "origin": term["id"], "swallowed": False}]
    if k == "wait":
        return [{"tag": "unit", "done": frozenset([term["id"]]), "origin": None, "swallowed": False}]
    if k == "ready":
        return [{"tag": term["tag"] if term["tag"] in ("Ok", "Err") else "unknown", "done": frozenset(), "origin": "elsewhere", "swallowed": False}]
    if k == "async":
        return _async_outcomes(env, term)
    if k == "unknown":
        return [{"tag": "unknown", "done": frozenset(), "origin": term["why"], "swallowed": False}]
    ins = outcomes(env, term["inner"])
    out = []
    if k in ("map_err", "map_ok"):
        for o in ins:
            out.append(o if o["tag"] in ("Ok", "Err") else dict(o, tag="unknown", origin="%s on a future whose output is not a Result" % k))
        return out
    if k == "and_then":
        ret = None
        for o in ins:
            if o["tag"] == "Err":
                out.append(o)
            elif o["tag"] == "Ok":
                if ret is None:
                    ret = outcomes(env, term["ret"])
                for r in ret:
                    out.append(dict(r, done=r["done"] | o["done"], swallowed=r["swallowed"] or o["swallowed"]))
            else:
                out.append(dict(o, tag="unknown", origin="and_then on a future whose output is not a Result"))
        return out
    if k == "try_join":
        # both run concurrently: Ok (of a tuple) once both resolved Ok, the first Err of either as soon as it appears
        other = outcomes(env, term["other"])
        for o in ins:
            for p in other:
                if o["tag"] == "Ok" and p["tag"] == "Ok":
                    out.append({"tag": "Ok", "done": o["done"] | p["done"], "origin": None, "swallowed": o["swallowed"] or p["swallowed"]})
        out += [o for o in ins if o["tag"] == "Err"] + [p for p in other if p["tag"] == "Err"]
        out += [dict(o, tag="unknown", origin="try_join on a future whose output is not a Result") for o in ins + other if o["tag"] not in ("Ok", "Err")]
        return out
    if k == "map":
        what = _closure_output_tag(term)
        for o in ins:
            if what == "same":
                out.append(o)
            elif what == "Ok":
                out.append(dict(o, tag="Ok", swallowed=o["swallowed"] or o["tag"] == "Err", origin=None))
            elif what == "Err":
                out.append(dict(o, tag="Err", origin=o["origin"] if o["tag"] == "Err" else "elsewhere"))
            else:
                out.append(dict(o, tag="unknown", origin="map with a function whose result this model cannot read"))
        return out
    return [{"tag": "unknown", "done": frozenset(), "origin": "term %s" % k, "swallowed": False}]


def show(term):
    k = term["k"]
    if k in ("task", "wait", "ready"):
        return {"task": "<spawned task>", "wait": "WaitGroup::wait()", "ready": "ready(%s)" % term.get("tag")}[k]
    if k == "async":
        return "async{..}"
    if k == "unknown":
        return "?(%s)" % term["why"]
    f = term.get("f")
    if k == "try_join":
        return "try_join(%s, %s)" % (show(term["inner"]), show(term["other"]))
    fs = "" if f is None else ("|..| " + show(term["ret"]) if "ret" in term else {"closure": "|..|..", "ctor": f[1], "fnitem": f[1]}[f[0]])
    return "%s.%s(%s)" % (show(term["inner"]), k, fs)
