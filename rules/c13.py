"""C13 — error responses follow one contract and never leak internal detail."""
import json
import re

from .lib import PLUMBING, callee_allow, callers, closure_args_of_call, operand_local, try_edges
from .lib_c13 import field_owner_adts, refinement_by_interpretation

LEVEL = "other"
TECHNIQUE = "static analysis: who-constructs census of the status refinement types with path-sensitive guard facts, interpretation of the constructing functions over the truth values of the two status predicates and evaluated constants, CHAIN slices of HttpError::into_response, who-reads census of internal_message with forward flow to log sinks, same-source and must-pass rules for the request id"
LEVEL_TEXT = ("Decides structurally, for every path of the MIR: (R1) a value of ErrorStatusCode / ClientErrorStatusCode can only be produced by an evaluated constant in 400..=599 / 400..=499, by an "
              "aggregate whose every incoming path has established is_client_error()/is_server_error() on the same status (path-sensitive boolean facts) or, where the wrapper is built before the guard is a "
              "path fact (a match on the pair of predicates, `cond.then_some(Self(status))`), inside a function whose interpretation over every truth assignment of the two predicates yields a wrapper only "
              "when its guard holds, or by widening a client code — and the tuple field is private; "
              "(R2) into_response builds status from self.status_code, a JSON body from exactly {request_id parameter, self.external_message, self.error_code}, moves self.headers into the response "
              "wholesale, and stamps x-request-id with the parameter; (R3) internal_message is read only by the logging accessor and derived Debug, its value flows only into fmt/slog sinks, and the "
              "constructors with a separate internal text take the external text from canonical_reason(); (R4) one generate_request_id() per request feeds the logger, the handler's context, the success "
              "header and error bodies; (R5) every normal return of the request path passes an insertion of x-request-id. UUID uniqueness is not decided.")
LEVEL_NOTE = "Trusts rustc MIR + const evaluation, the extractor, http::StatusCode::{is_client_error,is_server_error} (400..500 / 500..600), HeaderMap::insert (replaces), serde_json."
EXPLANATION = ("WHO-CONSTRUCTS + DOM + CONST for the refinement types; CHAIN/SAME-SOURCE slices in HttpError::into_response and http_request_handle(_wrap); WHO-READS of field internal_message plus forward "
               "flow of the accessor's result to sinks; PASS (must-pass) for the x-request-id stamp on every normal exit.")
TRUSTED = ["rustc nightly MIR + const evaluation", "mirfacts extractor", "rules/engine.py", "rules/absint.py + rules/lib_c13.py", "http::StatusCode predicates", "http::HeaderMap::insert", "serde_json"]

ESC = "error_status_code::ErrorStatusCode"
CESC = "error_status_code::ClientErrorStatusCode"


def _guards(f, status_locals_fn, allowed_preds):
    """True edges (src, dst) of bool switches on allowed predicate calls."""
    edges = []
    for sbb, st in f.switches():
        info = f.switch_on(sbb)
        if info["kind"] != "bool":
            continue
        dbb, kind, node = info["def"]
        if kind != "call":
            continue
        callee = node.get("callee") or ""
        if not any(re.search(p, callee) for p in allowed_preds):
            continue
        tb, fb = f.bool_edges(sbb)
        edges.append((sbb, tb, node))
    return edges


def r1_only_error_codes(ctx):
    R = ctx.rule("C13.R1", "ErrorStatusCode / ClientErrorStatusCode values arise only from constants evaluated in 400..=599 / 400..=499, from aggregates guarded on every path by is_client_error()/"
                 "is_server_error() (client: is_client_error() only) of the same status (or observable only under that guard, by interpretation of the constructing function), or from widening a "
                 "ClientErrorStatusCode; the tuple field is private", floor=70)
    # (a) constants
    n_const = 0
    for c in ctx.ds.const_list:
        ty = c.get("ty", "")
        if ty in (ESC, CESC):
            n_const += 1
            v = (c.get("val") or {}).get("int")
            lo, hi = (400, 599) if ty == ESC else (400, 499)
            ctx.check(R, "const:%s" % c["id"], v is not None and lo <= v <= hi, "evaluated value %s (allowed %d..=%d)" % (v, lo, hi), nontrivial=True)
    ctx.check(R, "status-constants-evaluated", n_const >= 60, "associated status constants evaluated: %d" % n_const, nontrivial=False)
    # (b,c) aggregate sites
    interpreted = {}
    for f in ctx.ds.F.values():
        for bb, i, st in f.aggregates(r"^error_status_code::(Client)?ErrorStatusCode$"):
            adt = st["rv"]["adt"]
            op = st["rv"]["ops"][0]
            sl = f.slice(op)
            key = "aggregate:%s in %s" % (adt.split("::")[-1], f.id)
            # widening?
            ptypes = [f.local_ty(p) for p in sl.params()]
            if adt == ESC and ptypes and all(re.sub(r"^&('\{erased\} |'[a-z_]+ )?", "", t) == CESC for t in ptypes) and not callee_allow(sl, PLUMBING):
                ctx.check(R, key, True, "widening conversion from ClientErrorStatusCode (already 4xx)", (f, bb))
                continue
            # the predicates of http::StatusCode itself: the wrappers' own is_client_error() / is_server_error() are
            # crate code (they could test anything), so a guard spelled with them is decided by interpretation below
            preds = [r"^http::StatusCode::is_client_error$", r"^http::StatusCode::is_server_error$"] if adt == ESC else [r"^http::StatusCode::is_client_error$"]
            # predicate calls applied to the same status value that is wrapped (path-sensitive: `a || b`, a named flag,
            # an early return on the negation and a match on the bool are all the same guard)
            atoms = []
            for pbb, pt in f.live_calls("|".join(preds)):
                ps = f.slice(pt["args"][0])
                same = bool(set(ps.param_fields()) & set(sl.param_fields())) or bool((ps.locals() & sl.locals()) - {0})
                if same and not callee_allow(ps, PLUMBING):
                    atoms.append(("call", pbb))
            ok, cex = f.guarded_by(bb, atoms_true=atoms) if atoms else (False, "no predicate on the wrapped status")
            detail = "every path to the aggregate has established %s on the wrapped status: %s%s" % (
                " or ".join(p.split("::")[-1].rstrip("$") + "()" for p in preds), ok, "" if ok else " (facts on an unguarded path: %s)" % (cex,))
            if not ok:
                # the wrapper may be built where the guard is not (yet) a path fact -- a tuple match on both predicates,
                # `cond.then_some(Self(status)).ok_or(..)` -- as long as it is only *observable* under the guard: run the
                # function over every truth assignment of the two predicates
                if f.id not in interpreted:
                    interpreted[f.id] = refinement_by_interpretation(ctx.ds, f)
                ok, how = interpreted[f.id]
                detail = ("%s; %s" % (detail, how)) if not ok else how
            ctx.check(R, key, ok, detail, (f, bb))
    for adt in (ESC, CESC):
        a = ctx.ds.adts.get(adt)
        if not a:
            ctx.lost(R, "ADT " + adt)
            continue
        vis = [x["vis"] for x in a["variants"][0]["fields"]]
        ctx.check(R, "private-field:%s" % adt.split("::")[-1], all(v != "Public" for v in vis) and len(vis) == 1, "tuple field visibility: %s" % [v.split("(")[0] for v in vis], nontrivial=False)
    # HttpError.status_code has the refined type
    he = ctx.ds.adts.get("error::HttpError")
    if he:
        ty = {x["name"]: x["ty"] for x in he["variants"][0]["fields"]}.get("status_code")
        ctx.check(R, "HttpError.status_code-type", ty == ESC, "HttpError.status_code: %s" % ty, nontrivial=False)
    # from_u16 goes through from_status
    for adt in ("ErrorStatusCode", "ClientErrorStatusCode"):
        f = ctx.ds.one(r"^error_status_code::%s::from_u16$" % adt)
        if f is None:
            ctx.lost(R, "%s::from_u16" % adt)
            continue
        reg = [f] + ctx.ds.descendants(f)
        via = any(g.live_calls(r"error_status_code::%s::from_status$" % adt) for g in reg) or any(
            a[0] == "fnitem" and a[1].endswith("error_status_code::%s::from_status" % adt) for g in reg for a in g.slice({"l": 0, "p": []}).atoms)
        raw = any(g.live_calls(r"http::StatusCode::from_u16$") for g in reg)
        direct = [g.id for g in reg for _ in g.aggregates(r"^error_status_code::(Client)?ErrorStatusCode$")]
        ctx.check(R, "from_u16-via-from_status:%s" % adt, via and raw and not direct,
                  "from_u16 = StatusCode::from_u16 then from_status", f)


def r2_response_construction(ctx):
    R = ctx.rule("C13.R2", "into_response: status <- self.status_code; JSON body <- HttpErrorResponseBody{request_id <- parameter, message <- self.external_message, error_code <- self.error_code}; "
                 "self.headers moved into the response wholesale; content type application/json; x-request-id <- parameter", floor=7)
    f = ctx.need_fn(ctx.ds, R, r"^error::HttpError::into_response$")
    st = f.live_calls(r"response::Builder::status$")
    ok = len(st) == 1
    if ok:
        s = f.slice(st[0][1]["args"][1])
        ok = s.reads_field("status_code") and s.params() == [1] and not callee_allow(s, PLUMBING + [r"ErrorStatusCode::as_status$"])
    ctx.check(R, "status-from-self.status_code", ok, "Builder::status argument derives from self.status_code via as_status only: %s" % ok, f)
    aggs = list(f.aggregates(r"^error::HttpErrorResponseBody$"))
    if len(aggs) != 1:
        ctx.lost(R, "the HttpErrorResponseBody aggregate")
    else:
        bb, i, stt = aggs[0]
        want = {"request_id": ("param2", None), "message": ("field", "external_message"), "error_code": ("field", "error_code")}
        for fname, op in zip(stt["rv"]["fields"], stt["rv"]["ops"]):
            s = f.slice(op)
            w = want.get(fname)
            if w is None:
                ctx.check(R, "body-field:%s" % fname, False, "unexpected field in the error body", (f, bb))
                continue
            bad = callee_allow(s, PLUMBING + [r"string::ToString::to_string$", r"borrow::ToOwned::to_owned$"])
            if w[0] == "param2":
                okf = s.params() == [2] and not bad
            else:
                okf = s.params() == [1] and s.reads_field(w[1]) and not s.reads_field("internal_message") and not bad
            ctx.check(R, "body-field:%s" % fname, okf, "%s <- %s (params %s, extra callees %s)" % (fname, w, s.params(), [b[0] for b in bad]), (f, bb))
        ctx.check(R, "body-has-three-fields", sorted(stt["rv"]["fields"]) == sorted(want), "fields: %s" % stt["rv"]["fields"], nontrivial=False)
    body = f.live_calls(r"response::Builder::body$")
    okb = False
    if len(body) == 1:
        s = f.slice(body[0][1]["args"][1])
        okb = s.has_call(r"^serde_json::(to_string|to_string_pretty|to_vec|to_vec_pretty|to_writer)") and ("agg", "error::HttpErrorResponseBody", "HttpErrorResponseBody") in s.atoms
    ctx.check(R, "body-is-json-of-that-struct", okb, "response body = serde_json serialisation of the HttpErrorResponseBody aggregate: %s" % okb, f)
    hdrs = f.live_calls(r"response::Builder::header$")
    ct = rid = False
    for bb, t in hdrs:
        n = f.slice(t["args"][1])
        v = f.slice(t["args"][2])
        if n.has_const_path(r"header::CONTENT_TYPE$"):
            ct = any(a[0] == "const" and a[1].endswith("CONTENT_TYPE_JSON") and json.loads(a[2]) == {"str": "application/json"} for a in v.atoms)
        if any(a[0] == "const" and a[1].endswith("HEADER_REQUEST_ID") for a in n.atoms):
            rid = v.params() == [2] and not callee_allow(v, PLUMBING)
    ctx.check(R, "content-type-json", ct, "Content-Type header value is the constant CONTENT_TYPE_JSON = application/json: %s" % ct, f)
    ctx.check(R, "x-request-id-from-parameter", rid, "x-request-id header value is the request_id parameter unmodified: %s" % rid, f)
    ctx.check(R, "headers-moved-wholesale", _headers_wholesale(f), "self.headers is stored into the builder's HeaderMap as a whole (`*builder.headers_mut() = *headers`, or HeaderMap::extend): %s — "
              "a per-element copy can drop repeated values (e.g. all but the first Allow entry)" % _headers_wholesale(f), f)
    # the builder that received the headers is the one that is returned
    ret = f.slice({"l": 0, "p": []})
    ctx.check(R, "returns-that-builder", ret.has_call(r"response::Builder::body$") and ret.has_call(r"Response::<\(\)>::builder$|Response::<T>::builder$"), "returned response is built from the same builder chain", f)


# the stored map may be `self.headers` unwrapped with an EMPTY map standing in for None (`self.headers.map(|b| *b)
# .unwrap_or_default()`): storing an empty HeaderMap over the fresh builder's empty one is the same response as not storing
_EMPTY_MAP_FOR_NONE = [r"Option::<T>::unwrap_or_default$", r"default::Default::default$", r"HeaderMap::<T>::new$", r"HeaderMap::new$"]


def _is_self_headers(f, op):
    """The operand is the whole header map of `self` (parameter 1, field `headers` and nothing else of self), reached by
    moves / unboxing / value-preserving plumbing only; an Option::map over it may only project (a closure without calls
    returning its argument), and a missing map may only be replaced by an empty one."""
    val = f.slice(op)
    if val.params() != [1] or not val.param_fields() or not all(pf[0] == 1 and pf[1] and pf[1][0].endswith(":headers") for pf in val.param_fields()):
        return False
    for c, bb in callee_allow(val, PLUMBING + _EMPTY_MAP_FOR_NONE):
        if not re.search(r"Option::<T>::map$", c):
            return False
        cls = closure_args_of_call(f, f.blocks[bb]["term"])
        if len(cls) != 1:
            return False
        g = cls[0][0]
        if g.live_calls() or g.slice({"l": 0, "p": []}).params() != [2]:
            return False      # not a projection of the boxed map
    return True


def _headers_wholesale(f):
    for bb, i, st in f.stmts():
        pl = st["pl"]
        if pl["p"] and pl["p"][0] == "*" and len(pl["p"]) == 1:
            ptr = f.slice({"l": pl["l"], "p": []})
            if not ptr.has_call(r"response::Builder::headers_mut$"):
                continue
            if st["rv"]["rv"] != "use":
                continue
            if f.blocks[bb].get("cleanup"):
                continue
            if _is_self_headers(f, st["rv"]["op"]):
                return True
    for bb, t in f.live_calls(r"iter::Extend::extend$|HeaderMap::<T>::extend$"):
        recv = f.slice(t["args"][0])
        if recv.has_call(r"headers_mut$") and _is_self_headers(f, t["args"][1]):
            return True
    # `mem::replace(builder_headers, *headers)`: the same whole-map store, the old (empty) map handed back
    for bb, t in f.live_calls(r"mem::replace$"):
        if len(t["args"]) == 2 and f.slice(t["args"][0]).has_call(r"response::Builder::headers_mut$") and _is_self_headers(f, t["args"][1]):
            return True
    return False


LOG_SINKS = [r"^core::fmt::", r"^std::fmt::", r"^slog::", r"convert::From::from$", r"convert::Into::into$", r"clone::Clone::clone$", r"ops::Deref::deref$", r"hint::must_use$",
             r"string::ToString::to_string$", r"^alloc::fmt::", r"usdt|probes::"]


def r3_internal_stays_internal(ctx):
    R = ctx.rule("C13.R3", "field internal_message is read only by the logging accessor and derived Debug; the accessor's result flows only into fmt/slog sinks; for_internal_error / for_unavail / "
                 "for_not_found take the external message from canonical_reason(), never from the internal text", floor=7)
    allowed_readers = {"handler::HandlerError::internal_message": "accessor used for logging", "<error::HttpError as std::fmt::Debug>::fmt": "derived Debug"}

    # a read of the field `internal_message` OF HttpError: the projection is resolved by type, so a private carrier struct
    # with a field of the same name (`ErrorMessages { external_message, internal_message }` handed to one base
    # constructor) is not mistaken for the error; a projection whose owner cannot be resolved counts as a read
    def mentions(f, o):
        if isinstance(o, dict):
            if "p" in o and "l" in o:
                if not any(isinstance(e, dict) and e.get("n") == "internal_message" for e in o["p"]):
                    return False
                return any(a is None or a == "error::HttpError" for a in field_owner_adts(ctx.ds, f, o, "internal_message"))
            return any(mentions(f, v) for v in o.values())
        if isinstance(o, list):
            return any(mentions(f, v) for v in o)
        return False
    readers = set()
    for f in ctx.ds.F.values():
        for blk in f.blocks:
            if blk["cleanup"]:
                continue
            if any(st["s"] == "assign" and mentions(f, st["rv"]) for st in blk["st"]) or mentions(f, blk["term"].get("args")) or mentions(f, blk["term"].get("discr")):
                readers.add(f.id)
    for r in sorted(readers):
        ctx.check(R, "reader:%s" % r, r in allowed_readers, allowed_readers.get(r, "reads HttpError.internal_message but is not the logging accessor / Debug: the internal text may reach a client"), ctx.ds.fn(r))
    ctx.check(R, "accessor-exists", "handler::HandlerError::internal_message" in readers, "the logging accessor reads the field", nontrivial=False)
    # Display / Serialize / into_response must not be readers: implied by the census above.  Now the accessor's callers.
    cs = callers(ctx.ds, r"^handler::HandlerError::internal_message$")
    ctx.check(R, "accessor-callers", len(cs) >= 1, "callers: %s" % sorted(set(f.id for f, _, _ in cs)), nontrivial=False)
    for f, bb, t in cs:
        tainted, sinks = f.forward([t["dest"]["l"]])
        bad = []
        for sbb, kind, node in sinks:
            if kind == "call":
                c = node.get("callee") or "<indirect>"
                if not any(re.search(p, c) for p in LOG_SINKS):
                    bad.append(c)
            elif kind == "yield":
                bad.append("yield")
        ret_tainted = 0 in tainted
        ctx.check(R, "accessor-result-only-logged:%s" % f.id, not bad and not ret_tainted,
                  "value of internal_message() flows only into fmt/slog sinks; other sinks: %s; reaches the return value: %s" % (sorted(set(bad)) or "none", ret_tainted), (f, bb))
    # constructor separation
    for ctor in ("for_internal_error", "for_unavail", "for_not_found"):
        f = ctx.ds.one(r"^error::HttpError::%s$" % ctor)
        if f is None:
            ctx.lost(R, "HttpError::%s" % ctor)
            continue
        aggs = list(f.aggregates(r"^error::HttpError$"))
        if len(aggs) != 1:
            ctx.lost(R, "HttpError aggregate in %s" % ctor)
            continue
        bb, i, st = aggs[0]
        fields = dict(zip(st["rv"]["fields"], st["rv"]["ops"]))
        names = {n: [p["l"] for p in pls if not p["p"]] for n, pls in f.names.items()}
        ip = (names.get("internal_message") or [None])[0]
        ext = f.slice(fields["external_message"])
        ok = ext.has_call(r"StatusCode::canonical_reason$") and (ip is None or ip not in ext.params())
        ctx.check(R, "external-message-is-canonical:%s" % ctor, ok and ip is not None,
                  "external_message derives from canonical_reason()=%s and not from the internal_message parameter (_%s)=%s" % (ext.has_call(r"canonical_reason$"), ip, ip not in ext.params()), (f, bb))
        inn = f.slice(fields["internal_message"])
        ctx.check(R, "internal-param-stored-internally:%s" % ctor, ip in inn.params(), "internal_message field <- the internal_message parameter", (f, bb))
    # for_client_error: external = internal = message by design (client errors expose their message)
    # Serialize impl of the body does not know the internal text: HttpErrorResponseBody has no such field
    a = ctx.ds.adts.get("error::HttpErrorResponseBody")
    ctx.check(R, "body-struct-has-no-internal-field", a is not None and sorted(x["name"] for x in a["variants"][0]["fields"]) == ["error_code", "message", "request_id"],
              "HttpErrorResponseBody fields: %s" % ([x["name"] for x in a["variants"][0]["fields"]] if a else None), nontrivial=False)


# the same text seen through another type: &String -> &str and back
STR_VIEWS = [r"string::String::as_str$", r"string::String::as_mut_str$", r"borrow::ToOwned::to_owned$", r"string::ToString::to_string$"]


def r4_one_request_id(ctx):
    R = ctx.rule("C13.R4", "generate_request_id() (Uuid::new_v4) is called once per request in http_request_handle_wrap; that one local feeds the logger, http_request_handle (hence RequestContext.request_id "
                 "and the success header) and error.into_response", floor=6)
    wrap = ctx.need_fn(ctx.ds, R, r"^server::http_request_handle_wrap$")
    w = ctx.ds.body_of(wrap)
    gen = callers(ctx.ds, r"^server::generate_request_id$")
    ctx.check(R, "one-call-site", len(gen) == 1 and gen[0][0] is w and gen[0][1] not in w.loop_blocks(), "generate_request_id call sites: %s" % [(f.id) for f, _, _ in gen], w)
    g = ctx.ds.one(r"^server::generate_request_id$")
    if g is not None:
        ret = g.slice({"l": 0, "p": []})
        ctx.check(R, "id-is-uuid-v4", ret.has_call(r"Uuid>?::new_v4$"), "generate_request_id returns %s" % ret.callee_names(), g)
    if len(gen) != 1:
        return
    idl = gen[0][2]["dest"]["l"]
    hc = w.live_calls(r"^server::http_request_handle$")
    if len(hc) != 1:
        ctx.lost(R, "http_request_handle call in the wrapper")
        return
    hbb, ht = hc[0]
    top = ctx.need_fn(ctx.ds, R, r"^server::http_request_handle$")
    # which argument carries the id: the one whose slice touches the id local
    idx = [i for i, a in enumerate(ht["args"]) if w.slice(a, stop_at_calls=r"generate_request_id$").touches_local(idl)]
    okarg = False
    pidx = None
    for i in idx:
        s = w.slice(ht["args"][i], stop_at_calls=r"generate_request_id$")
        if not callee_allow(s, PLUMBING + STR_VIEWS + [r"generate_request_id$"]) and "String" in top.local_ty(i + 1) or "str" in top.local_ty(i + 1):
            okarg = True
            pidx = i + 1
    ctx.check(R, "id-passed-to-handler-path", okarg, "http_request_handle receives the generated id unmodified as parameter %s" % pidx, (w, hbb))
    ir = w.live_calls(r"HandlerError::into_response$")
    oki = bool(ir) and all(w.slice(t["args"][1], stop_at_calls=r"generate_request_id$").touches_local(idl) and
                           not callee_allow(w.slice(t["args"][1], stop_at_calls=r"generate_request_id$"), PLUMBING + STR_VIEWS + [r"generate_request_id$"]) for _, t in ir)
    ctx.check(R, "error-response-gets-same-id", oki, "error.into_response(&request_id) uses the same local: %s" % oki, w)
    lg = [t for _, t in w.live_calls(r"slog::Logger::<D>::new$")]
    okl = any(w.slice(t["args"][1]).touches_local(idl) for t in lg)
    ctx.check(R, "logger-gets-same-id", okl, "the per-request logger is keyed with the same id: %s" % okl, w)
    # inside http_request_handle (normalised view: a stamp applied with `Result::map(|mut response| { insert; response })`
    # on the value of an awaited dispatch function is the trailing statement it abbreviates)
    hb = ctx.dsn.body_of(ctx.need_fn(ctx.dsn, R, r"^server::http_request_handle$"))
    if pidx is None:
        return
    # the coroutine captures params as upvars; find the local named request_id
    rid_locals = set(hb.local_by_name("request_id"))
    aggs = list(hb.aggregates(r"^handler::RequestContext$"))
    if len(aggs) != 1:
        ctx.lost(R, "RequestContext aggregate")
        return
    bb, i, st = aggs[0]
    op = dict(zip(st["rv"]["fields"], st["rv"]["ops"]))["request_id"]
    s = hb.slice(op)
    up = [pf for pf in s.param_fields() if pf[0] == 1]
    okc = (bool(s.locals() & rid_locals) or bool(up)) and not callee_allow(s, PLUMBING + [r"string::ToString::to_string$", r"borrow::ToOwned::to_owned$"]) and not s.has_call(r"generate_request_id|Uuid")
    ctx.check(R, "context-gets-same-id", okc, "RequestContext.request_id <- the request_id parameter (no second id): %s" % okc, (hb, bb))
    ins = [(b, t) for b, t in hb.live_calls(r"http::HeaderMap::<T>::insert$") if any(a[0] == "const" and a[1].endswith("HEADER_REQUEST_ID") for a in hb.slice(t["args"][1]).atoms)]
    okh = bool(ins) and all((bool(hb.slice(t["args"][2]).locals() & rid_locals)) and not callee_allow(hb.slice(t["args"][2]), PLUMBING + [r"HeaderValue::from_str$", r"Result::<T, E>::unwrap$"]) for b, t in ins)
    ctx.check(R, "success-header-gets-same-id", okh, "x-request-id on success <- the same request_id parameter: %s" % okh, hb)


def r5_every_response_stamped(ctx):
    R = ctx.rule("C13.R5", "every normal Ok(response) exit of http_request_handle passes HeaderMap::insert(x-request-id) on that response; HandlerError::into_response stamps the Handler arm and "
                 "delegates the Dropshot arm to HttpError::into_response; the wrapper returns only those", floor=4)
    # normalised view: an awaited private async helper is part of this body, and `result.map(|mut r| { stamp; r })` is
    # a switch on the result whose Ok arm stamps and rebuilds Ok
    top = ctx.need_fn(ctx.dsn, R, r"^server::http_request_handle$")
    hb = ctx.dsn.body_of(top)
    ins = [b for b, t in hb.live_calls(r"http::HeaderMap::<T>::insert$") if any(a[0] == "const" and a[1].endswith("HEADER_REQUEST_ID") for a in hb.slice(t["args"][1]).atoms)]
    oks = [(b, st) for b, i, st in hb.aggregates(r"^std::result::Result$", "Ok") if st["pl"]["l"] == 0 and b in hb.reachable(0)]
    ctx.check(R, "ok-exits", len(oks) >= 1, "Ok(response) exits of http_request_handle: %d" % len(oks), hb)
    for b, st in oks:
        dom = any(hb.dominates(i, b) for i in ins)
        # same response object: the insert's receiver derives from headers_mut(&mut response) of the returned local
        rl = operand_local(st["rv"]["ops"][0])
        src = hb.slice(st["rv"]["ops"][0]).locals()
        same = False
        for ib, t in hb.live_calls(r"http::HeaderMap::<T>::insert$"):
            if ib in ins:
                recv = hb.slice(t["args"][0])
                if recv.has_call(r"Response::<T>::headers_mut$") and (recv.locals() & src):
                    same = True
        ctx.check(R, "ok-exit-stamped", dom and same, "Ok(response) is dominated by insert(x-request-id)=%s on the same response=%s (an entry()/or_insert or conditional stamp would let a handler-supplied value survive)" % (dom, same), (hb, b))
    # Added after adversary change C13-J (`return handler.handle_request(..).await;` in the CancelOnDisconnect arm: the handler's whole
    # Result became the return value, so its Ok responses left without passing the stamp): every value the return place can hold is an
    # Ok(..) built here (checked above), an Err(..) built here, or the residual of a `?` -- never a Result produced elsewhere and
    # returned whole
    whole = []
    seen, work = set(), [0]
    reach = hb.reachable(0)
    while work:
        l = work.pop()
        if l in seen:
            continue
        seen.add(l)
        for dbb, kind, node in hb.defs().get(l, []):
            if dbb not in reach or hb.blocks[dbb]["cleanup"]:
                continue
            if kind == "call":
                if not re.search(r"ops::FromResidual::from_residual$", node.get("callee") or ""):
                    whole.append((dbb, node.get("callee") or "<indirect call>"))
            elif kind == "assign" and not node["pl"]["p"]:
                rv = node["rv"]
                if rv["rv"] == "agg" and rv.get("adt") == "std::result::Result":
                    continue
                src = operand_local(rv["op"]) if rv["rv"] == "use" and rv["op"].get("k") in ("move", "copy") and not rv["op"]["pl"]["p"] else None
                if src is not None:
                    work.append(src)
                else:
                    whole.append((dbb, "a value that is not built here as Ok(..)/Err(..)"))
    ctx.check(R, "no-result-returned-whole", not whole, "Results that reach the return place of http_request_handle without being taken apart (their Ok responses would bypass the stamp): %s"
              % (sorted(set(w[1] for w in whole)) or "none"), (hb, whole[0][0] if whole else 0))
    # normalised view: `self.into_result().map_or_else(|e| .., |rsp| ..)`, a `match self`, and helpers holding one arm each are one program
    he = ctx.need_fn(ctx.dsn, R, r"^handler::HandlerError::into_response$")
    sw = [(b, t) for b, t in he.switches() if he.switch_on(b)["kind"] == "discr" and he.switch_on(b)["adt"].endswith("HandlerError")]
    if not sw:
        ctx.lost(R, "variant switch in HandlerError::into_response")
        return
    sb, stt = sw[0]
    info = he.switch_on(sb)
    arms = {name: he.switch_target(sb, idx) for idx, name in info["variants"].items()}
    h_ins = [b for b, t in he.live_calls(r"http::HeaderMap::<T>::insert$") if any(a[0] == "const" and a[1].endswith("HEADER_REQUEST_ID") for a in he.slice(t["args"][1]).atoms)]
    rets = he.returns()
    okh = "Handler" in arms and bool(h_ins) and not any(r in he.reachable(arms["Handler"], avoid=h_ins) for r in rets)
    ctx.check(R, "handler-arm-stamped", okh, "every path of the Handler arm to the return passes insert(x-request-id): %s" % okh, (he, sb))
    val_ok = all(he.slice(t["args"][2]).params() == [2] for b, t in he.live_calls(r"http::HeaderMap::<T>::insert$") if b in h_ins)
    ctx.check(R, "handler-arm-uses-parameter", val_ok and bool(h_ins), "stamp value is the request_id parameter", he)
    d = [b for b, t in he.live_calls(r"^error::HttpError::into_response$")]
    okd = "Dropshot" in arms and bool(d) and not any(r in he.reachable(arms["Dropshot"], avoid=d) for r in rets)
    ctx.check(R, "dropshot-arm-delegates", okd, "the Dropshot arm returns HttpError::into_response(e, request_id): %s" % okd, (he, sb))
    # wrapper returns only responses from those two sources
    wrap = ctx.need_fn(ctx.ds, R, r"^server::http_request_handle_wrap$")
    w = ctx.ds.body_of(wrap)
    outs = [(b, st) for b, i, st in w.aggregates(r"^std::result::Result$") if st["pl"]["l"] == 0 and b in w.reachable(0)]
    for b, st in outs:
        s = w.slice(st["rv"]["ops"][0])
        src_ok = st["rv"]["variant"] == "Ok" and (s.has_call(r"HandlerError::into_response$") or s.has_call(r"^server::http_request_handle$"))
        other = [c for c in s.callee_names() if re.search(r"Response::<.*>::(new|builder)$|Builder::body$", c)]
        ctx.check(R, "wrapper-returns-stamped-responses", src_ok and not other, "wrapper returns %s built from %s" % (st["rv"]["variant"], "http_request_handle / HandlerError::into_response" if src_ok else s.callee_names()[:8]), (w, b))
    if not outs:
        ctx.lost(R, "return aggregates of the wrapper")



# potential panic sites on the path from an error value to its response, each with the reason it cannot fire (frozen; keyed
# by the source-level function and by WHAT THE SITE TESTS -- `<enum>::<panicking variant> <- <origin of the tested value>`
# (lib_c13.tested_variant), so `.unwrap()`, `.expect("..")`, `let Some(x) = v else { panic!() }` and a match with an
# unreachable!() arm on the same value are one entry; a site that is not a test of an Option/Result is keyed by the last
# path segment of its callee; the number is the reviewed multiplicity)
ERROR_PATH_PANICS = {
    ("error::HttpError::for_internal_error", "Option::None <- error_status_code::ErrorStatusCode::canonical_reason"): (1, "canonical_reason() of the constant 500, which has a standard label"),
    ("error::HttpError::for_unavail", "Option::None <- error_status_code::ErrorStatusCode::canonical_reason"): (1, "canonical_reason() of the constant 503, which has a standard label"),
    ("error::HttpError::for_not_found", "Option::None <- error_status_code::ErrorStatusCode::canonical_reason"): (1, "canonical_reason() of the constant 404, which has a standard label"),
    ("error::HttpError::into_response", "Option::None <- http::response::Builder::headers_mut"): (1, "headers_mut() of a response builder created two statements earlier: it cannot have failed yet"),
    ("error::HttpError::into_response", "Result::Err <- serde_json::to_string_pretty"): (1, "serde_json of a struct of two strings and an Option<String> cannot fail"),
    ("error::HttpError::into_response", "Result::Err <- http::response::Builder::body"): (1, "Builder::body fails only for an invalid status/header, and status is an ErrorStatusCode, the headers are constants, a HeaderMap and the request id (a UUID)"),
    ("handler::HandlerError::into_response", "Result::Err <- http::HeaderValue::from_str"): (1, "the request id is a UUID, always a valid HeaderValue (unreachable! arm)"),
}


def r6_error_path_cannot_panic(ctx):
    """Added after defect F8 (for_client_error_with_status unwrapped the reason phrase of an arbitrary client code) and
    adversary change C13-D (Display for HttpError did the same, and HandlerError::from calls to_string())."""
    from .lib_c10 import panic_sites
    from .lib_c16 import live_blocks
    from .lib_c13 import site_what
    R = ctx.rule("C13.R6", "every potential panic site on the way from an error value to its response — HttpError's constructors, into_response, Display/Error impls, "
                 "HandlerError's conversions — is on the reviewed table with the reason it cannot fire for any representable status", floor=6)
    # normalised view: a closure handed to an Option/Result combinator (`.unwrap_or_else(|e| unreachable!(..))`) is spliced into
    # the Err / None arm of a switch on the receiver, so that spelling is a test of the same value as the match it abbreviates
    D = ctx.dsn
    roots = [f for f in D.F.values() if f.raw["kind"] in ("Fn", "AssocFn") and re.search(
        r"^error::HttpError::|^<error::HttpError as |^handler::HandlerError::|^<handler::HandlerError as |^<error::HttpErrorResponseBody as |^error_status_code::(Client)?ErrorStatusCode::(as_|canonical_reason|is_)", f.id)]
    ctx.check(R, "error-path-functions", len(roots) >= 20, "functions of the error path examined: %d" % len(roots), nontrivial=False)
    seen = {}
    for f in roots:
        for g in [f] + D.descendants(f):
            live = live_blocks(g)
            for kind, what, exp, bb in panic_sites(g):
                if bb not in live:
                    continue   # an arm the MIR itself shows dead (variant just assigned) or a debug_assert
                # an unwrap-like site is keyed by what it tests (enum, panicking variant, where the value comes from):
                # `x.expect("..")`, `let Some(v) = x else { panic!("..") }` and `match x { .., None => unreachable!() }`
                # are the same site; anything else by its callee
                key = (f.id, site_what(g, bb, what.split("::")[-1]))
                seen.setdefault(key, []).append((g, bb))
    for key, sites in sorted(seen.items()):
        entry = ERROR_PATH_PANICS.get(key)
        ok = entry is not None and len(sites) <= entry[0]
        ctx.check(R, "panic-site:%s|%s" % key, ok,
                  ("%d site(s), reviewed: %s" % (len(sites), entry[1])) if ok else
                  ("%d site(s) of `%s` in %s %s: an error with a status / message / header that makes it fire gets no response at all" % (
                      len(sites), key[1], key[0], "not on the reviewed table" if entry is None else "(table allows %d)" % entry[0])), sites[0])
    for key in ERROR_PATH_PANICS:
        if key not in seen:
            ctx.check(R, "table-entry:%s|%s" % key, True, "reviewed site no longer present (fine)", nontrivial=False)
    # every header writer of HttpError appends (a repeated name keeps all its values)
    writers = []
    for f in ctx.ds.F.values():
        if not re.search(r"^error::HttpError::", f.id):
            continue
        for bb, t in f.live_calls(r"http::HeaderMap::<T>::(try_)?(insert|append)$"):
            recv = f.slice(t["args"][0])
            if recv.has_call(r"^error::HttpError::headers_mut$") or recv.reads_field("headers"):
                writers.append((f, bb, t))
    ctx.check(R, "header-writers", len(writers) >= 1, "calls writing into an HttpError's header map: %s" % sorted(set(f.id for f, _, _ in writers)), nontrivial=False)
    for f, bb, t in writers:
        app = re.search(r"(try_)?append$", t["callee"]) is not None
        ctx.check(R, "header-writer-appends:%s" % f.id, app, "%s uses HeaderMap::%s (insert would drop an earlier value of a repeated header such as WWW-Authenticate / Set-Cookie / Allow)" % (f.id, t["callee"].split("::")[-1]), (f, bb))
    # Added after adversary change C13-N (`headers_mut` went from `get_or_insert_with(..)` to `Option::insert(Box::default())`: every call
    # started from an empty map, so of the headers attached to an error in several calls only the last survived, the router's Allow list
    # included): the accessor creates the map only when there is none -- the slot is filled by get_or_insert(_with), or written only
    # under a test that found it empty
    hm = ctx.ds.one(r"^error::HttpError::headers_mut$")
    if hm is None:
        ctx.lost(R, "HttpError::headers_mut")
    else:
        tests_t = [("call", b) for b, t in hm.live_calls(r"Option::<T>::is_none$") if hm.slice(t["args"][0]).reads_field("headers")]
        tests_f = [("call", b) for b, t in hm.live_calls(r"Option::<T>::is_some$") if hm.slice(t["args"][0]).reads_field("headers")]
        sites = [(b, t["callee"].split("::")[-1]) for b, t in hm.live_calls(r"Option::<T>::(insert|replace|take)$|mem::(replace|take|swap)$") if hm.slice(t["args"][0]).reads_field("headers")]
        for b, i, st in hm.stmts():
            pl = st["pl"]
            fs = [e for e in pl["p"] if isinstance(e, dict) and "f" in e]
            if b in hm.reachable(0) and not hm.blocks[b]["cleanup"] and fs and fs[-1].get("n") == "headers" and pl["p"][-1] is fs[-1]:
                sites.append((b, "assignment"))
        bad = [(b, how) for b, how in sites if not hm.guarded_by(b, atoms_true=tests_t, atoms_false=tests_f)[0]]
        creates = bool(hm.live_calls(r"Option::<T>::get_or_insert(_with|_default)?$")) or bool(sites)
        ctx.check(R, "headers_mut-keeps-the-existing-map", creates and not bad,
                  "writes of self.headers in headers_mut that are not under a test that found it empty: %s (get_or_insert_with: %s)" % (
                      [how for _, how in bad] or "none", bool(hm.live_calls(r"Option::<T>::get_or_insert(_with|_default)?$"))), (hm, bad[0][0]) if bad else hm)


RULES = [("C13.R6", r6_error_path_cannot_panic), ("C13.R1", r1_only_error_codes), ("C13.R2", r2_response_construction), ("C13.R3", r3_internal_stays_internal), ("C13.R4", r4_one_request_id), ("C13.R5", r5_every_response_stamped)]

SELFTEST = [
    {"name": "leak-internal", "kind": "mutant", "edits": [("dropshot/src/error.rs", "message: self.external_message,", "message: self.internal_message,")], "expect": ["C13.R2", "C13.R3"], "why": "internal text sent to the client"},
    {"name": "accept-redirects", "kind": "mutant", "edits": [("dropshot/src/error_status_code.rs", "if status.is_client_error() || status.is_server_error() {", "if status.is_client_error() || status.is_server_error() || status.is_redirection() {")], "expect": ["C13.R1"], "why": "3xx representable as an error status"},
    {"name": "second-request-id", "kind": "mutant", "edits": [("dropshot/src/server.rs", "        request_id: request_id.to_string(),", "        request_id: generate_request_id(),")], "expect": ["C13.R4"], "why": "handler sees a different id than the header"},
    {"name": "handler-arm-unstamped", "kind": "mutant", "edits": [("dropshot/src/handler.rs", "                        rsp.headers_mut()\n                            .insert(crate::HEADER_REQUEST_ID, header);", "                        let _ = header;")], "expect": ["C13.R5"], "why": "custom error responses lack x-request-id"},
    {"name": "wrong-const-range", "kind": "mutant", "edits": [("dropshot/src/error_status_code.rs", "            pub const $name: Self = Self(http::StatusCode::$name);", "            pub const $name: Self = Self(http::StatusCode::OK);")], "expect": ["C13.R1"], "why": "associated constants outside 400-599"},
    {"name": "prefix-f8", "kind": "mutant", "revert": "b7f29f9", "expect": ["C13.R6"], "why": "pre-fix code: for_client_error_with_status unwraps the reason phrase of an arbitrary client code"},
    {"name": "extend-headers", "kind": "benign", "edits": [("dropshot/src/error.rs", "            *builder_headers = *headers;", "            builder_headers.extend(*headers);")], "why": "HeaderMap::extend from an owned HeaderMap keeps every value"},
    {"name": "expect-as-let-else", "kind": "benign", "why": "`opt.expect(\"..\")` written as `let Some(x) = opt else { panic!(\"..\") }`: the same panic under the same condition (headers_mut() of the fresh builder is None); the census keys a site by what it tests",
     "edits": [("dropshot/src/error.rs", "                .expect(\"a newly created response builder cannot have failed\");",
                "                ;\n            let Some(builder_headers) = builder_headers else {\n                panic!(\"a newly created response builder cannot have failed\")\n            };")]},
    {"name": "f8-as-let-else", "kind": "mutant", "expect": ["C13.R6"], "why": "defect F8 spelled as a let-else: for_client_error_with_status panics for a client code without a standard reason phrase",
     "edits": [("dropshot/src/error.rs", "            .unwrap_or(\"Client Error\")\n            .to_string();",
                "            ;\n        let Some(message) = message else { panic!(\"no standard label\") };\n        let message = message.to_string();")]},
    {"name": "client-from-status-then-some", "kind": "benign", "why": "`cond.then_some(Self(status)).ok_or(..)`: the wrapper is built eagerly but only observable when is_client_error() holds (decided by interpreting the function over both truth values)",
     "edits": [("dropshot/src/error_status_code.rs", "        if status.is_client_error() {\n            Ok(Self(status))\n        } else {\n            Err(NotAClientError(status))\n        }",
                "        status.is_client_error().then_some(Self(status)).ok_or(NotAClientError(status))")]},
    {"name": "client-from-status-then-some-wrong-guard", "kind": "mutant", "expect": ["C13.R1"], "why": "5xx codes become representable as ClientErrorStatusCode",
     "edits": [("dropshot/src/error_status_code.rs", "        if status.is_client_error() {\n            Ok(Self(status))\n        } else {\n            Err(NotAClientError(status))\n        }",
                "        status.is_server_error().then_some(Self(status)).ok_or(NotAClientError(status))")]},
    {"name": "from-status-tuple-match", "kind": "benign", "why": "match on the pair of predicates: Err exactly when both are false",
     "edits": [("dropshot/src/error_status_code.rs", "        if status.is_client_error() || status.is_server_error() {\n            Ok(ErrorStatusCode(status))\n        } else {\n            Err(NotAnError(status))\n        }",
                "        match (status.is_client_error(), status.is_server_error()) {\n            (false, false) => Err(NotAnError(status)),\n            _ => Ok(ErrorStatusCode(status)),\n        }")]},
    {"name": "from-status-tuple-match-wrong-arm", "kind": "mutant", "expect": ["C13.R1"], "why": "the Err arm of the pair match covers only one of the non-error cases: 1xx-3xx become representable",
     "edits": [("dropshot/src/error_status_code.rs", "        if status.is_client_error() || status.is_server_error() {\n            Ok(ErrorStatusCode(status))\n        } else {\n            Err(NotAnError(status))\n        }",
                "        match (status.is_client_error(), status.is_server_error()) {\n            (false, true) => Err(NotAnError(status)),\n            _ => Ok(ErrorStatusCode(status)),\n        }")]},
    {"name": "headers-unwrap-or-default", "kind": "benign", "why": "unconditional store of `self.headers.map(|b| *b).unwrap_or_default()`: an empty map over the fresh builder's empty map is the same response",
     "edits": [("dropshot/src/error.rs", "        if let Some(headers) = self.headers {\n            let builder_headers = builder", "        {\n            let headers = self.headers.map(|boxed| *boxed).unwrap_or_default();\n            let builder_headers = builder"),
               ("dropshot/src/error.rs", "            *builder_headers = *headers;", "            *builder_headers = headers;")]},
    {"name": "headers-unwrap-or-default-dropped", "kind": "mutant", "expect": ["C13.R2"], "why": "same idiom, but the closure replaces the error's map by a new empty one: the error's headers (Allow ..) are lost",
     "edits": [("dropshot/src/error.rs", "        if let Some(headers) = self.headers {\n            let builder_headers = builder", "        {\n            let headers = self.headers.map(|_boxed| http::HeaderMap::new()).unwrap_or_default();\n            let builder_headers = builder"),
               ("dropshot/src/error.rs", "            *builder_headers = *headers;", "            *builder_headers = headers;")]},
    {"name": "carrier-struct-messages-swapped", "kind": "mutant", "expect": ["C13.R3"], "patch": "benign/C13-R9/patch.diff",
     "why": "constructors funnelled through a private ErrorMessages carrier and from_parts (benign C13-R9), with the internal text stored as the external message",
     "edits": [("dropshot/src/error.rs", "                external_message: standard_label.to_string(),\n                internal_message,", "                external_message: internal_message.clone(),\n                internal_message,")]},
    {"name": "stamp-in-result-map-or-insert", "kind": "mutant", "expect": ["C13.R5"], "patch": "benign/C13-R11/patch.diff",
     "why": "success stamp applied with Result::map on the awaited dispatch (benign C13-R11), but with entry().or_insert: a handler-supplied x-request-id survives",
     "edits": [("dropshot/src/server.rs", "        response.headers_mut().insert(\n            HEADER_REQUEST_ID,\n            http::header::HeaderValue::from_str(request_id).unwrap(),\n        );",
                "        response.headers_mut().entry(HEADER_REQUEST_ID).or_insert(\n            http::header::HeaderValue::from_str(request_id).unwrap(),\n        );")]},
    {"name": "class-table-wrong-pair", "kind": "mutant", "expect": ["C13.R1"], "patch": "benign/C13-R12/patch.diff",
     "why": "status class looked up in a constant table of (predicate fn pointer, class) (benign C13-R12), with is_server_error paired with Client: 5xx become representable as ClientErrorStatusCode",
     "edits": [("dropshot/src/error_status_code.rs", "(http::StatusCode::is_server_error, ErrorClass::Server),", "(http::StatusCode::is_server_error, ErrorClass::Client),")]},
    {"name": "wrapper-predicate-lies", "kind": "mutant", "expect": ["C13.R1"], "why": "ErrorStatusCode::is_client_error() tests the wrong class, so as_client_error() wraps 5xx codes as ClientErrorStatusCode (the wrappers' own predicates are interpreted, not trusted)",
     "edits": [("dropshot/src/error_status_code.rs", "        self.0.is_client_error()", "        self.0.is_server_error()")]},
    {"name": "commuted-or", "kind": "benign", "edits": [("dropshot/src/error_status_code.rs", "if status.is_client_error() || status.is_server_error() {", "if status.is_server_error() || status.is_client_error() {")], "why": "same predicate"},
]

LEVEL_TEXT += (" R1's path guards are calls of http::StatusCode's own predicates only; the wrappers' own is_client_error()/is_server_error(), a status class looked up in a constant table of "
               "(predicate fn pointer, class) with find_map, and derived equality of such classes are executed by the interpreter (lib_c13.TableInterp), not trusted. R2 accepts an absent header map "
               "being stored as an empty one. R3 resolves a projection named internal_message by the type of the struct it reads (a private carrier struct with a field of that name is not the error). "
               "R4/R5 read http_request_handle on the normalised view (an awaited private dispatch function and a stamp applied with Result::map are part of its body).")
LEVEL_TEXT += (" Also (R6): every potential panic site between an error value and its response is on a reviewed table (no constructor, Display impl or conversion can panic for a representable status) — "
               "a site that tests an Option/Result (unwrap / expect / a match or let-else arm that panics / a panicking closure given to a combinator) is keyed by the tested value and variant, not by its "
               "spelling — and every writer of an error's header map appends. Also (R5): no Result produced elsewhere is returned whole by http_request_handle, so no Ok response bypasses the stamp. Also (R6): HttpError::headers_mut creates the header map only when there is none.")


SELFTEST += [
    {"name": "cancel-arm-result-matched", "kind": "benign", "why": "behaviour-preserving: `x.await?` written as a match with `return Err(e)`",
     "edits": [("dropshot/src/server.rs", "            handler.handle_request(rqctx, request).await?\n", "            match handler.handle_request(rqctx, request).await {\n                Ok(response) => response,\n                Err(e) => return Err(e),\n            }\n")]},
    {"name": "cancel-arm-returns-the-handler-result-whole", "kind": "mutant", "expect": ["C13.R5"], "why": "successful responses of CancelOnDisconnect servers leave without the x-request-id stamp",
     "edits": [("dropshot/src/server.rs", "            handler.handle_request(rqctx, request).await?\n", "            return handler.handle_request(rqctx, request).await;\n")]},
]
