"""Helpers shared by c09.py / c10.py: closure-upvar origins, the extraction region, panic-site census."""
import os
import re

from .lib import callers

VERIF = os.path.dirname(os.path.dirname(os.path.abspath(__file__)))

MEMBER_FROM_REQUEST = r"extractor::common::(Shared|Exclusive)Extractor::from_request$"
TOP_FROM_REQUEST = r"extractor::common::RequestExtractor::from_request$"


# --------------------------------------------------------------------------- closures / upvars
def closure_site(ds, g):
    """(parent Fn, aggregate statement that builds closure/coroutine g) or (parent, None)."""
    par = ds.F.get(g.raw.get("parent"))
    if par is None:
        return None, None
    for b, i, st in par.stmts():
        rv = st["rv"]
        if rv["rv"] == "agg" and rv.get("def") == g.raw["id"]:
            return par, st
    return par, None


def upvar_fields(sl):
    """Indices of the closure-environment fields (projections of _1) a slice reaches."""
    out = set()
    for p, proj in sl.param_fields():
        if p != 1:
            continue
        for e in proj:
            if e.startswith("f"):
                out.add(int(e[1:].split(":")[0]))
                break
    return out


def upvar_origin(ds, g, field):
    """Slice, in the parent, of the operand captured into environment field `field` of g."""
    par, st = closure_site(ds, g)
    if st is None or field >= len(st["rv"]["ops"]):
        return None, None
    return par, par.slice(st["rv"]["ops"][field])


def upvar_params(ds, g, sl):
    """Parameters of g's parent function that the upvars reached by `sl` were captured from
    (None if a captured operand cannot be traced)."""
    out = set()
    for fld in upvar_fields(sl):
        par, ps = upvar_origin(ds, g, fld)
        if ps is None:
            return None
        out |= set(ps.params())
    return out


def impl_fns(ds, trait_rx, name):
    """Fns implementing method `name` of traits matching trait_rx (crate-local impls)."""
    rx = re.compile(trait_rx)
    out = []
    for i in ds.impls:
        if rx.search(i["trait"]):
            for it in i["items"]:
                if it["kind"] == "Fn" and it["name"] == name and it["id"] in ds.F:
                    out.append((i, ds.F[it["id"]]))
    return out


def tuple_arity(self_ty):
    """Arity of a tuple type as printed in the impl table: `()` -> 0, `(X/#0,)` -> 1, `(S1/#1, X/#0)` -> 2."""
    s = self_ty.strip()
    if not (s.startswith("(") and s.endswith(")")):
        return None
    inner = s[1:-1].strip()
    if not inner:
        return 0
    depth, parts, cur = 0, [], ""
    for ch in inner:
        if ch in "(<[":
            depth += 1
        elif ch in ")>]":
            depth -= 1
        if ch == "," and depth == 0:
            parts.append(cur)
            cur = ""
        else:
            cur += ch
    if cur.strip():
        parts.append(cur)
    return len([p for p in parts if p.strip()])


# --------------------------------------------------------------------------- the extraction region
SERDE_DESERIALIZER_SIDE = r"_serde::Deserializer$|_serde::de::(EnumAccess|VariantAccess|MapAccess|SeqAccess|Error)$"
NAMED_ROOTS = [r"^http_util::http_extract_path_params$", r"^extractor::query::http_request_load_query$",
               r"^extractor::body::http_request_load_body$", r"^pagination::deserialize_whichpage$",
               r"^pagination::deserialize_page_token$"]


HANDLER_CALL = r"handler::HttpHandlerFunc::handle_request$"


def generic_route_handler(ctx, R):
    """The coroutine body of the one RouteHandler::handle_request impl that calls
    HttpHandlerFunc::handle_request (the generic HttpRouteHandler; not the stub).  A call moved into a private
    (async) helper is seen here too: the engine inlines refactoring-introduced helpers into their callers."""
    out = []
    for i, f in impl_fns(ctx.ds, r"^handler::RouteHandler", "handle_request"):
        b = ctx.ds.body_of(f)
        if b.live_calls(HANDLER_CALL):
            out.append((f, b))
    if len(out) != 1:
        ctx.lost(R, "the RouteHandler::handle_request impl that calls HttpHandlerFunc::handle_request (%d found)" % len(out))
        return None, None
    return out[0]


def extraction_region(ctx, R):
    """Crate-local functions that run between route lookup and the handler call:
    every from_request impl, the named decode helpers, the serde deserializer-side impls
    defined in the crate (serde calls back into them), the derived visitor that calls
    deserialize_whichpage, and the generic RouteHandler::handle_request (stopping at the
    HttpHandlerFunc impls, i.e. at the handler itself)."""
    if "c10_region" in ctx.extra:
        return ctx.extra["c10_region"]
    ds = ctx.ds
    roots = []
    n_from = 0
    for i, f in impl_fns(ds, r"^extractor::common::(Shared|Exclusive|Request)Extractor", "from_request"):
        roots.append(f.id)
        n_from += 1
    named = 0
    for p in NAMED_ROOTS:
        m = ds.fns(p)
        if len(m) != 1:
            ctx.lost(R, "region root /%s/ (%d matches)" % (p, len(m)))
            continue
        named += 1
        roots.append(m[0].id)
    n_serde = 0
    rx = re.compile(SERDE_DESERIALIZER_SIDE)
    for i in ds.impls:
        if rx.search(i["trait"]):
            for it in i["items"]:
                if it["kind"] == "Fn" and it["id"] in ds.F:
                    roots.append(it["id"])
                    n_serde += 1
    for f, bb, t in callers(ds, r"^pagination::deserialize_whichpage$"):
        roots.append(f.id)
    top, body = generic_route_handler(ctx, R)
    stop = set()
    if top is not None:
        roots.append(top.id)
        for i, f in impl_fns(ds, r"^handler::HttpHandlerFunc", "handle_request"):
            stop.add(f.id)
        # turning an (already decided) error into a response is not part of extraction (C12/C13)
        for i in ds.impls:
            if i["self"].split("<")[0] == "handler::HandlerError":
                for it in i["items"]:
                    if it["kind"] == "Fn":
                        stop.add(it["id"])
    reg = ds.region(roots, stop=stop)
    info = {"roots": roots, "region": reg, "from_request_impls": n_from, "serde_side_fns": n_serde, "named": named}
    ctx.extra["c10_region"] = info
    ctx.notes["extraction_region"] = {"functions": len(reg), "roots": len(set(roots)), "from_request_impls": n_from,
                                      "serde_deserializer_side_fns": n_serde}
    return info


def norm_id(fid):
    """rustc prints serde's traits through whichever `const _: () = { extern crate serde as _serde; .. }` block it
    meets first (`api_description::_::_serde::Deserializer`, with usdt-probes `dtrace::_::_serde::..`): not stable
    across feature configurations, so keys use the plain crate path."""
    return re.sub(r"\b(?:\w+::)+_::_serde::", "serde::", fid)


def census_owners(ds, f):
    """Outermost named function(s) a body belongs to: closures, async bodies and generator bodies are attributed to
    the function they are written in, so that a census key does not change when code moves between a function and
    one of its closures (`.map_err(|e| ..)` <-> `match`).  A closure written inside a helper that the engine inlined
    belongs to every function the helper was inlined into."""
    cur = f
    for _ in range(12):
        if cur.raw["kind"] != "Closure":
            return [cur.id]
        par = cur.raw.get("parent")
        if par in ds.F:
            cur = ds.F[par]
            continue
        hosts = [g for g in ds.F.values() if par in g.raw.get("inlined", []) and g.raw["kind"] != "Closure"]
        if not hosts:
            hosts = [g for g in ds.F.values() if par in g.raw.get("inlined", [])]
            out = []
            for g in hosts:
                for o in census_owners(ds, g):
                    if o not in out:
                        out.append(o)
            return out or [cur.id]
        return [g.id for g in hosts]
    return [cur.id]


# --------------------------------------------------------------------------- panic sites
PANIC_CALLS = [
    (r"core::panicking::|std::rt::begin_panic|std::rt::panic_|std::panicking::|panic::resume_unwind$|process::(abort|exit)$|hint::unreachable_unchecked$|intrinsics::(abort|unreachable)$", "panic"),
    (r"(Option::<T>|Result::<T, E>)::(unwrap|expect|unwrap_err|expect_err|unwrap_unchecked)$", "unwrap"),
    (r"ops::Index::index$|ops::IndexMut::index_mut$", "index"),
    (r"slice::<impl \[T\]>::(copy_from_slice|clone_from_slice|split_at|split_at_mut|chunks|chunks_exact|windows|swap|rotate_left|rotate_right|select_nth_unstable)$"
     r"|str::<impl str>::(split_at|split_at_mut)$"
     r"|vec::Vec::<T, A>::(remove|insert|swap_remove|drain|split_off|splice)$"
     r"|string::String::(remove|insert|insert_str|drain|split_off|replace_range)$"
     r"|collections::VecDeque::<T, A>::(swap|drain|split_off|insert|range)$"
     r"|cell::RefCell::<T>::(borrow|borrow_mut)$"
     r"|bytes::(Bytes|BytesMut)::(split_to|split_off|slice|advance|truncate_unchecked)$|bytes::Buf::(advance|copy_to_slice|get_[ui]\d+\w*|split_to)$"
     r"|HeaderValue::from_static$|HeaderName::from_static$|time::Instant::duration_since$|num::NonZero.*::new_unchecked$", "panicking-api"),
]
_PANIC_RX = [(re.compile(p), k) for p, k in PANIC_CALLS]


def panic_sites(fn):
    """[(kind, what, exp, bb)] for every potential panic site on fn's pruned CFG:
    explicit panics / unwrap family / indexing calls / listed panicking std APIs, and
    Assert terminators (overflow, bounds, division)."""
    out = []
    reach = fn.reachable(0) - fn.debug_only_blocks()   # debug_assert! bodies are not in release builds
    for b in sorted(reach):
        blk = fn.blocks[b]
        if blk["cleanup"]:
            continue
        t = blk["term"]
        if t["t"] == "call":
            c = t.get("callee") or ""
            r = t.get("resolved") or ""
            for rx, kind in _PANIC_RX:
                if rx.search(c) or (r and rx.search(r)):
                    out.append((kind, c or r, bool(t.get("exp")), b))
                    break
        elif t["t"] == "assert":
            m = t.get("msg")
            out.append(("assert", m if isinstance(m, str) else str(m), bool(t.get("exp")), b))
    return out


def load_panic_table(name="c10_panics.txt"):
    """tables/c10_panics.txt: `count | function | kind | what | reason`; count `*` = any number
    (only for bodies generated by a foreign macro).  Returns {(fn, kind, what): (count, reason)}."""
    p = os.path.join(VERIF, "tables", name)
    out = {}
    bad = []
    if not os.path.exists(p):
        return None, ["missing " + p]
    for n, line in enumerate(open(p), 1):
        s = line.rstrip("\n")
        if not s.strip() or s.lstrip().startswith("#"):
            continue
        parts = [x.strip() for x in s.split(" | ")]
        if len(parts) != 5 or not parts[4]:
            bad.append("table line %d is not `count | function | kind | what | reason`" % n)
            continue
        cnt = None if parts[0] == "*" else int(parts[0])
        key = (parts[1], parts[2], parts[3])
        if key in out:
            bad.append("duplicate table key at line %d" % n)
        out[key] = (cnt, parts[4])
    return out, bad


# --------------------------------------------------------------------------- Result guards
def result_guards(fn, call_bb, call_rx, allow):
    """Switches on the discriminant of a Result / ControlFlow value that derives (through callees on
    `allow` only) from the call at call_bb.  `ok` is the Ok/Continue target, `err` the other successors.
    Covers `x?`, `match x { Ok(..) => .., Err(..) => .. }` and `if let Ok(..) = x`."""
    from .lib import callee_allow
    out = []
    for sbb, st in fn.switches():
        info = fn.switch_on(sbb)
        if info["kind"] != "discr" or info.get("adt") not in ("std::result::Result", "std::ops::ControlFlow"):
            continue
        sl = fn.slice(info["place"])
        if not any(b == call_bb for _, b, _ in sl.calls(call_rx)):
            continue
        if callee_allow(sl, allow):
            continue
        okb = fn.switch_target(sbb, 0)
        out.append({"switch_bb": sbb, "ok": okb, "err": [s for s in fn.succ(sbb) if s != okb], "slice": sl})
    return out


# --------------------------------------------------------------------------- the Ok side of a returned Result
OK_PRESERVING = r"Result::<T, E>::(map_err|inspect_err|or_else)$"


def ok_sources(fn, local=0, depth=0, _seen=None):
    """Operands from which the *Ok payload* of the Result held in `local` (default: the return place) comes,
    whatever the idiom: `Ok(x)` literals give x; `Err(..)` literals and `?`'s from_residual only feed the error
    side and are skipped; map_err / inspect_err / or_else keep the Ok payload, so the receiver is followed; plain
    moves are followed.  Any other definition is returned as it is (the whole value), so the answer
    over-approximates: `r.map_err(|e| build(e))` and `match r { Ok(v) => Ok(v), Err(e) => Err(build(e)) }`
    both yield just `r`'s origin."""
    from .lib import operand_local
    seen = _seen if _seen is not None else set()
    if local in seen or depth > 8:
        return []
    seen.add(local)
    out = []
    reach = fn.reachable(0)
    for bb, kind, node in fn.defs().get(local, []):
        if bb not in reach or fn.blocks[bb]["cleanup"]:
            continue
        if kind == "assign":
            if node["pl"]["p"]:
                out.append({"k": "copy", "pl": {"l": local, "p": []}})
                continue
            rv = node["rv"]
            if rv["rv"] == "agg" and rv.get("agg") == "adt" and rv.get("adt") == "std::result::Result":
                if rv.get("variant") == "Ok":
                    out.append(rv["ops"][0])
                continue
            src = operand_local(rv["op"]) if rv["rv"] == "use" else None
            if src is not None:
                out.extend(ok_sources(fn, src, depth + 1, seen))
            else:
                out.append({"k": "copy", "pl": {"l": local, "p": []}})
        elif kind == "call":
            c = node.get("callee") or ""
            if c.endswith("ops::FromResidual::from_residual"):
                continue
            src = operand_local(node["args"][0]) if node["args"] else None
            if re.search(OK_PRESERVING, c) and src is not None:
                out.extend(ok_sources(fn, src, depth + 1, seen))
            else:
                out.append({"k": "copy", "pl": {"l": local, "p": []}})
        else:
            out.append({"k": "copy", "pl": {"l": local, "p": []}})
    return out


def value_sources(fn, op, _seen=None):
    """Operands a value comes from, looking through plain moves and through the *Ok side* of a Result that was
    split by `?` or by a match: for `v = x?` / `Ok(v) => ..` only the origin of x's Ok payload counts (ok_sources),
    so an error built on the other side (`Err(e) => Err(HttpError::for_bad_request(..))`, written as a match arm of
    the same function or inlined from a helper) does not appear on the chain of the value.  Anything else is
    returned unchanged, to be sliced by the caller."""
    import json as _json
    from .lib import operand_local
    seen = _seen if _seen is not None else set()
    if op.get("k") not in ("copy", "move"):
        return [op]
    pl = op["pl"]
    key = _json.dumps(pl, sort_keys=True)
    if key in seen or len(seen) > 200:
        return [op]
    seen.add(key)
    l, proj = pl["l"], pl["p"]

    def many(ops):
        out = []
        for o in ops:
            for x in value_sources(fn, o, seen):
                if x not in out:
                    out.append(x)
        return out
    if len(proj) == 2 and isinstance(proj[0], dict) and proj[0].get("dc") in ("Continue", "Ok") and isinstance(proj[1], dict) and proj[1].get("f") == 0:
        dd = [d for d in fn.defs().get(l, []) if not fn.blocks[d[0]]["cleanup"]]
        if proj[0]["dc"] == "Continue" and len(dd) == 1 and dd[0][1] == "call" and (dd[0][2].get("callee") or "").endswith("ops::Try::branch"):
            src = operand_local(dd[0][2]["args"][0])
            if src is not None:
                got = ok_sources(fn, src)
                if got:
                    return many(got)
        elif proj[0]["dc"] == "Ok":
            got = ok_sources(fn, l)
            if got and got != [{"k": "copy", "pl": {"l": l, "p": []}}]:
                return many(got)
        return [op]
    if proj or 1 <= l <= fn.argc:
        return [op]
    reach = fn.reachable(0)
    dd = [d for d in fn.defs().get(l, []) if d[0] in reach and not fn.blocks[d[0]]["cleanup"]]
    if dd and all(k == "assign" and not n["pl"]["p"] and n["rv"]["rv"] == "use" and n["rv"]["op"].get("k") in ("copy", "move") for _, k, n in dd):
        return many([n["rv"]["op"] for _, k, n in dd])
    return [op]
