"""Helpers shared by c09.py / c10.py: closure-upvar origins, the extraction region, panic-site census."""
import os
import re

from .lib import callers

VERIF = os.path.dirname(os.path.dirname(os.path.abspath(__file__)))

MEMBER_FROM_REQUEST = r"extractor::common::(Shared|Exclusive)Extractor::from_request$"
TOP_FROM_REQUEST = r"extractor::common::RequestExtractor::from_request$"


# --------------------------------------------------------------------------- closures / upvars
def closure_site(ds, g):
    """(parent Fn, aggregate statement that builds closure/coroutine g) or (parent, None)."""
    par = ds.F.get(g.raw.get("parent"))
    if par is None:
        return None, None
    for b, i, st in par.stmts():
        rv = st["rv"]
        if rv["rv"] == "agg" and rv.get("def") == g.raw["id"]:
            return par, st
    return par, None


def upvar_fields(sl):
    """Indices of the closure-environment fields (projections of _1) a slice reaches."""
    out = set()
    for p, proj in sl.param_fields():
        if p != 1:
            continue
        for e in proj:
            if e.startswith("f"):
                out.add(int(e[1:].split(":")[0]))
                break
    return out


def upvar_origin(ds, g, field):
    """Slice, in the parent, of the operand captured into environment field `field` of g."""
    par, st = closure_site(ds, g)
    if st is None or field >= len(st["rv"]["ops"]):
        return None, None
    return par, par.slice(st["rv"]["ops"][field])


def upvar_params(ds, g, sl):
    """Parameters of g's parent function that the upvars reached by `sl` were captured from
    (None if a captured operand cannot be traced)."""
    out = set()
    for fld in upvar_fields(sl):
        par, ps = upvar_origin(ds, g, fld)
        if ps is None:
            return None
        out |= set(ps.params())
    return out


def impl_fns(ds, trait_rx, name):
    """Fns implementing method `name` of traits matching trait_rx (crate-local impls)."""
    rx = re.compile(trait_rx)
    out = []
    for i in ds.impls:
        if rx.search(i["trait"]):
            for it in i["items"]:
                if it["kind"] == "Fn" and it["name"] == name and it["id"] in ds.F:
                    out.append((i, ds.F[it["id"]]))
    return out


def tuple_arity(self_ty):
    """Arity of a tuple type as printed in the impl table: `()` -> 0, `(X/#0,)` -> 1, `(S1/#1, X/#0)` -> 2."""
    s = self_ty.strip()
    if not (s.startswith("(") and s.endswith(")")):
        return None
    inner = s[1:-1].strip()
    if not inner:
        return 0
    depth, parts, cur = 0, [], ""
    for ch in inner:
        if ch in "(<[":
            depth += 1
        elif ch in ")>]":
            depth -= 1
        if ch == "," and depth == 0:
            parts.append(cur)
            cur = ""
        else:
            cur += ch
    if cur.strip():
        parts.append(cur)
    return len([p for p in parts if p.strip()])


# --------------------------------------------------------------------------- the extraction region
SERDE_DESERIALIZER_SIDE = r"_serde::Deserializer$|_serde::de::(EnumAccess|VariantAccess|MapAccess|SeqAccess|Error)$"
NAMED_ROOTS = [r"^http_util::http_extract_path_params$", r"^extractor::query::http_request_load_query$",
               r"^extractor::body::http_request_load_body$", r"^pagination::deserialize_whichpage$",
               r"^pagination::deserialize_page_token$"]


HANDLER_CALL = r"handler::HttpHandlerFunc::handle_request$"


def generic_route_handler(ctx, R):
    """The coroutine body of the one RouteHandler::handle_request impl that calls
    HttpHandlerFunc::handle_request (the generic HttpRouteHandler; not the stub).  A call moved into a private
    (async) helper is seen here too: the engine inlines refactoring-introduced helpers into their callers."""
    out = []
    for i, f in impl_fns(ctx.ds, r"^handler::RouteHandler", "handle_request"):
        b = ctx.ds.body_of(f)
        if b.live_calls(HANDLER_CALL):
            out.append((f, b))
    if len(out) != 1:
        ctx.lost(R, "the RouteHandler::handle_request impl that calls HttpHandlerFunc::handle_request (%d found)" % len(out))
        return None, None
    return out[0]


def extraction_region(ctx, R):
    """Crate-local functions that run between route lookup and the handler call:
    every from_request impl, the named decode helpers, the serde deserializer-side impls
    defined in the crate (serde calls back into them), the derived visitor that calls
    deserialize_whichpage, and the generic RouteHandler::handle_request (stopping at the
    HttpHandlerFunc impls, i.e. at the handler itself)."""
    if "c10_region" in ctx.extra:
        return ctx.extra["c10_region"]
    ds = ctx.ds
    roots = []
    n_from = 0
    for i, f in impl_fns(ds, r"^extractor::common::(Shared|Exclusive|Request)Extractor", "from_request"):
        roots.append(f.id)
        n_from += 1
    named = 0
    for p in NAMED_ROOTS:
        m = ds.fns(p)
        if len(m) != 1:
            ctx.lost(R, "region root /%s/ (%d matches)" % (p, len(m)))
            continue
        named += 1
        roots.append(m[0].id)
    n_serde = 0
    rx = re.compile(SERDE_DESERIALIZER_SIDE)
    for i in ds.impls:
        if rx.search(i["trait"]):
            for it in i["items"]:
                if it["kind"] == "Fn" and it["id"] in ds.F:
                    roots.append(it["id"])
                    n_serde += 1
    for f, bb, t in callers(ds, r"^pagination::deserialize_whichpage$"):
        roots.append(f.id)
    top, body = generic_route_handler(ctx, R)
    stop = set()
    if top is not None:
        roots.append(top.id)
        for i, f in impl_fns(ds, r"^handler::HttpHandlerFunc", "handle_request"):
            stop.add(f.id)
        # turning an (already decided) error into a response is not part of extraction (C12/C13)
        for i in ds.impls:
            if i["self"].split("<")[0] == "handler::HandlerError":
                for it in i["items"]:
                    if it["kind"] == "Fn":
                        stop.add(it["id"])
    reg = ds.region(roots, stop=stop)
    info = {"roots": roots, "region": reg, "from_request_impls": n_from, "serde_side_fns": n_serde, "named": named}
    ctx.extra["c10_region"] = info
    ctx.notes["extraction_region"] = {"functions": len(reg), "roots": len(set(roots)), "from_request_impls": n_from,
                                      "serde_deserializer_side_fns": n_serde}
    return info


def norm_id(fid):
    """rustc prints serde's traits through whichever `const _: () = { extern crate serde as _serde; .. }` block it
    meets first (`api_description::_::_serde::Deserializer`, with usdt-probes `dtrace::_::_serde::..`): not stable
    across feature configurations, so keys use the plain crate path."""
    return re.sub(r"\b(?:\w+::)+_::_serde::", "serde::", fid)


def census_owners(ds, f):
    """Outermost named function(s) a body belongs to: closures, async bodies and generator bodies are attributed to
    the function they are written in, so that a census key does not change when code moves between a function and
    one of its closures (`.map_err(|e| ..)` <-> `match`).  A closure written inside a helper that the engine inlined
    belongs to every function the helper was inlined into."""
    cur = f
    for _ in range(12):
        if cur.raw["kind"] != "Closure":
            return [cur.id]
        par = cur.raw.get("parent")
        if par in ds.F:
            cur = ds.F[par]
            continue
        hosts = [g for g in ds.F.values() if par in g.raw.get("inlined", []) and g.raw["kind"] != "Closure"]
        if not hosts:
            hosts = [g for g in ds.F.values() if par in g.raw.get("inlined", [])]
            out = []
            for g in hosts:
                for o in census_owners(ds, g):
                    if o not in out:
                        out.append(o)
            return out or [cur.id]
        return [g.id for g in hosts]
    return [cur.id]


# --------------------------------------------------------------------------- panic sites
PANIC_CALLS = [
    (r"core::panicking::|std::rt::begin_panic|std::rt::panic_|std::panicking::|panic::resume_unwind$|process::(abort|exit)$|hint::unreachable_unchecked$|intrinsics::(abort|unreachable)$", "panic"),
    (r"(Option::<T>|Result::<T, E>)::(unwrap|expect|unwrap_err|expect_err|unwrap_unchecked)$", "unwrap"),
    (r"ops::Index::index$|ops::IndexMut::index_mut$", "index"),
    (r"slice::<impl \[T\]>::(copy_from_slice|clone_from_slice|split_at|split_at_mut|chunks|chunks_exact|windows|swap|rotate_left|rotate_right|select_nth_unstable)$"
     r"|str::<impl str>::(split_at|split_at_mut)$"
     r"|vec::Vec::<T, A>::(remove|insert|swap_remove|drain|split_off|splice)$"
     r"|string::String::(remove|insert|insert_str|drain|split_off|replace_range|truncate)$"      # truncate: panics off a char boundary
     r"|collections::VecDeque::<T, A>::(swap|drain|split_off|insert|range)$"
     r"|cell::RefCell::<T>::(borrow|borrow_mut)$"
     r"|bytes::(Bytes|BytesMut)::(split_to|split_off|slice|advance|truncate_unchecked)$|bytes::Buf::(advance|copy_to_slice|get_[ui]\d+\w*|split_to)$"
     r"|HeaderValue::from_static$|HeaderName::from_static$|time::Instant::duration_since$|num::NonZero.*::new_unchecked$", "panicking-api"),
]
_PANIC_RX = [(re.compile(p), k) for p, k in PANIC_CALLS]


def panic_sites(fn):
    """[(kind, what, exp, bb)] for every potential panic site on fn's pruned CFG:
    explicit panics / unwrap family / indexing calls / listed panicking std APIs, and
    Assert terminators (overflow, bounds, division)."""
    out = []
    reach = fn.reachable(0) - fn.debug_only_blocks()   # debug_assert! bodies are not in release builds
    for b in sorted(reach):
        blk = fn.blocks[b]
        if blk["cleanup"]:
            continue
        t = blk["term"]
        if t["t"] == "call":
            c = t.get("callee") or ""
            r = t.get("resolved") or ""
            for rx, kind in _PANIC_RX:
                if rx.search(c) or (r and rx.search(r)):
                    out.append((kind, c or r, bool(t.get("exp")), b))
                    break
        elif t["t"] == "assert":
            m = t.get("msg")
            if m == "Overflow" and _sum_of_two_lengths(fn, blk, t):
                continue    # len(a) + len(b): each is at most isize::MAX, the sum cannot overflow usize
            out.append(("assert", m if isinstance(m, str) else str(m), bool(t.get("exp")), b))
    return out


_LEN_RX = re.compile(r"(slice::<impl \[T\]>|vec::Vec::<T, A>|vec::Vec::<T>|str::<impl str>|string::String|bytes::Bytes|bytes::BytesMut|collections::VecDeque::<T, A>)::len$")


def _sum_of_two_lengths(fn, blk, t):
    """The overflow assertion of `a + b` where a and b are each the length of an allocated object (`len()` of a slice,
    Vec, str, String, Bytes) or a constant below 2^62: objects are at most isize::MAX bytes long (a language
    guarantee), so the usize sum cannot wrap and the assertion cannot fire."""
    c = t.get("cond") or {}
    if c.get("k") not in ("move", "copy") or not c["pl"]["p"]:
        return False
    src = [st for st in blk["st"] if st["s"] == "assign" and st["pl"] == {"l": c["pl"]["l"], "p": []} and st["rv"]["rv"] == "binop" and st["rv"].get("op") == "AddWithOverflow"]
    if len(src) != 1:
        return False
    defs = fn.defs()

    def is_len(op, depth=0):
        if op.get("k") == "const":
            v = (op.get("val") or {}).get("int")
            return isinstance(v, int) and 0 <= v < 2 ** 62
        if op.get("k") not in ("move", "copy") or op["pl"]["p"] or depth > 4:
            return False
        ds = defs.get(op["pl"]["l"], [])
        if len(ds) != 1:
            return False
        bb, kind, node = ds[0]
        if kind == "call":
            return bool(_LEN_RX.search(node.get("callee") or "")) and not node["dest"]["p"]
        if kind == "assign" and not node["pl"]["p"]:
            rv = node["rv"]
            if rv["rv"] == "use":
                return is_len(rv["op"], depth + 1)
            if rv["rv"] == "unop" and rv.get("op") == "PtrMetadata":
                return True
        return False
    return is_len(src[0]["rv"]["a"]) and is_len(src[0]["rv"]["b"])


def load_panic_table(name="c10_panics.txt"):
    """tables/c10_panics.txt: `count | function | kind | what | reason`; count `*` = any number
    (only for bodies generated by a foreign macro).  Returns {(fn, kind, what): (count, reason)}."""
    p = os.path.join(VERIF, "tables", name)
    out = {}
    bad = []
    if not os.path.exists(p):
        return None, ["missing " + p]
    for n, line in enumerate(open(p), 1):
        s = line.rstrip("\n")
        if not s.strip() or s.lstrip().startswith("#"):
            continue
        parts = [x.strip() for x in s.split(" | ")]
        if len(parts) != 5 or not parts[4]:
            bad.append("table line %d is not `count | function | kind | what | reason`" % n)
            continue
        cnt = None if parts[0] == "*" else int(parts[0])
        key = (parts[1], parts[2], parts[3])
        if key in out:
            bad.append("duplicate table key at line %d" % n)
        out[key] = (cnt, parts[4])
    return out, bad


# --------------------------------------------------------------------------- Result guards
def result_guards(fn, call_bb, call_rx, allow):
    """Switches on the discriminant of a Result / ControlFlow value that derives (through callees on
    `allow` only) from the call at call_bb.  `ok` is the Ok/Continue target, `err` the other successors.
    Covers `x?`, `match x { Ok(..) => .., Err(..) => .. }` and `if let Ok(..) = x`."""
    from .lib import callee_allow
    out = []
    for sbb, st in fn.switches():
        info = fn.switch_on(sbb)
        if info["kind"] != "discr" or info.get("adt") not in ("std::result::Result", "std::ops::ControlFlow"):
            continue
        sl = fn.slice(info["place"])
        if not any(b == call_bb for _, b, _ in sl.calls(call_rx)):
            continue
        if callee_allow(sl, allow):
            continue
        okb = fn.switch_target(sbb, 0)
        out.append({"switch_bb": sbb, "ok": okb, "err": [s for s in fn.succ(sbb) if s != okb], "slice": sl})
    return out


# --------------------------------------------------------------------------- the Ok side of a returned Result
OK_PRESERVING = r"Result::<T, E>::(map_err|inspect_err|or_else)$"


def ok_sources(fn, local=0, depth=0, _seen=None):
    """Operands from which the *Ok payload* of the Result held in `local` (default: the return place) comes,
    whatever the idiom: `Ok(x)` literals give x; `Err(..)` literals and `?`'s from_residual only feed the error
    side and are skipped; map_err / inspect_err / or_else keep the Ok payload, so the receiver is followed; plain
    moves are followed.  Any other definition is returned as it is (the whole value), so the answer
    over-approximates: `r.map_err(|e| build(e))` and `match r { Ok(v) => Ok(v), Err(e) => Err(build(e)) }`
    both yield just `r`'s origin."""
    from .lib import operand_local
    seen = _seen if _seen is not None else set()
    if local in seen or depth > 8:
        return []
    seen.add(local)
    out = []
    reach = fn.reachable(0)
    for bb, kind, node in fn.defs().get(local, []):
        if bb not in reach or fn.blocks[bb]["cleanup"]:
            continue
        if kind == "assign":
            if node["pl"]["p"]:
                out.append({"k": "copy", "pl": {"l": local, "p": []}})
                continue
            rv = node["rv"]
            if rv["rv"] == "agg" and rv.get("agg") == "adt" and rv.get("adt") == "std::result::Result":
                if rv.get("variant") == "Ok":
                    out.append(rv["ops"][0])
                continue
            src = operand_local(rv["op"]) if rv["rv"] == "use" else None
            if src is not None:
                out.extend(ok_sources(fn, src, depth + 1, seen))
            else:
                out.append({"k": "copy", "pl": {"l": local, "p": []}})
        elif kind == "call":
            c = node.get("callee") or ""
            if c.endswith("ops::FromResidual::from_residual"):
                continue
            src = operand_local(node["args"][0]) if node["args"] else None
            if re.search(OK_PRESERVING, c) and src is not None:
                out.extend(ok_sources(fn, src, depth + 1, seen))
            else:
                out.append({"k": "copy", "pl": {"l": local, "p": []}})
        else:
            out.append({"k": "copy", "pl": {"l": local, "p": []}})
    return out


def value_sources(fn, op, _seen=None):
    """Operands a value comes from, looking through plain moves and through the *Ok side* of a Result that was
    split by `?` or by a match: for `v = x?` / `Ok(v) => ..` only the origin of x's Ok payload counts (ok_sources),
    so an error built on the other side (`Err(e) => Err(HttpError::for_bad_request(..))`, written as a match arm of
    the same function or inlined from a helper) does not appear on the chain of the value.  Anything else is
    returned unchanged, to be sliced by the caller."""
    import json as _json
    from .lib import operand_local
    seen = _seen if _seen is not None else set()
    if op.get("k") not in ("copy", "move"):
        return [op]
    pl = op["pl"]
    key = _json.dumps(pl, sort_keys=True)
    if key in seen or len(seen) > 200:
        return [op]
    seen.add(key)
    l, proj = pl["l"], pl["p"]

    def many(ops):
        out = []
        for o in ops:
            for x in value_sources(fn, o, seen):
                if x not in out:
                    out.append(x)
        return out
    if len(proj) == 2 and isinstance(proj[0], dict) and proj[0].get("dc") in ("Continue", "Ok") and isinstance(proj[1], dict) and proj[1].get("f") == 0:
        dd = [d for d in fn.defs().get(l, []) if not fn.blocks[d[0]]["cleanup"]]
        if proj[0]["dc"] == "Continue" and len(dd) == 1 and dd[0][1] == "call" and (dd[0][2].get("callee") or "").endswith("ops::Try::branch"):
            src = operand_local(dd[0][2]["args"][0])
            if src is not None:
                got = ok_sources(fn, src)
                if got:
                    return many(got)
        elif proj[0]["dc"] == "Ok":
            got = ok_sources(fn, l)
            if got and got != [{"k": "copy", "pl": {"l": l, "p": []}}]:
                return many(got)
        return [op]
    if proj or 1 <= l <= fn.argc:
        return [op]
    reach = fn.reachable(0)
    dd = [d for d in fn.defs().get(l, []) if d[0] in reach and not fn.blocks[d[0]]["cleanup"]]
    if dd and all(k == "assign" and not n["pl"]["p"] and n["rv"]["rv"] == "use" and n["rv"]["op"].get("k") in ("copy", "move") for _, k, n in dd):
        return many([n["rv"]["op"] for _, k, n in dd])
    return [op]


# --------------------------------------------------------------------------- path conditions (decision tables)
# `path_states` is generic (a candidate for engine.py / lib.py): lib_c02.region_states extended with (1) known enum
# variants of locals (`x = Err(..)`, `x = helper()?`'s residual, the edge of a `match x` taken), which decide later
# switches on the same value — `let r = match .. {.. => Err(e)}; r.map(f)` never reaches f on that path, with or
# without jump threading —, (2) marks (which of the caller's sites of interest the path went through), (3) the known
# variant of the returned value, (4) set-valued facts for boolean atoms, (5) liveness-based forgetting of tracked
# locals so that unrelated diamonds do not multiply the states.
RES_ADT, OPT_ADT, CF_ADT = "std::result::Result", "std::option::Option", "std::ops::ControlFlow"


def edge_variant_sets(fn, sbb, info):
    """For a switch on a discriminant: {successor block: frozenset(names of the variants that take this edge)}; the
    `otherwise` edge stands for every variant without an explicit target."""
    t = fn.blocks[sbb]["term"]
    out = {}
    for s in set(fn.succ(sbb)) | set(b for _v, b in t["targets"]) | {t["otherwise"]}:
        out[s] = set()
    for idx, name in info["variants"].items():
        out.setdefault(fn.switch_target(sbb, idx), set()).add(name)
    return {s: frozenset(v) for s, v in out.items()}


def _mentions(o, acc):
    if isinstance(o, dict):
        if "l" in o and isinstance(o["l"], int) and "p" in o:
            acc.add(o["l"])
        for v in o.values():
            _mentions(v, acc)
    elif isinstance(o, list):
        for v in o:
            _mentions(v, acc)


def _live_blocks(fn):
    """local -> blocks from which a block that mentions the local (other than by dropping it) can be reached."""
    uses = {}
    for blk in fn.blocks:
        acc = set()
        for st in blk["st"]:
            _mentions(st, acc)
        t = blk["term"]
        if t["t"] not in ("drop", "codrop"):
            _mentions(t, acc)
        if t["t"] == "return":
            acc.add(0)
        for l in acc:
            uses.setdefault(l, set()).add(blk["bb"])
    live = {}
    for l, bs in uses.items():
        seen = set()
        st = list(bs)
        while st:
            b = st.pop()
            if b in seen:
                continue
            seen.add(b)
            st.extend(fn.preds(b))
        live[l] = seen
    return live


def path_states(fn, start=0, switch_facts=None, atom_facts=None, marks=None, stops=(), max_states=120000):
    """Path-sensitive exploration of fn's CFG from `start` to its ends (return / panic) and to the blocks `stops`.

    switch_facts : {switch_bb: [(dim, {successor bb: frozenset(values the dimension can have on this edge)})]}
    atom_facts   : {call_bb: (dim, frozenset(values when the call answers true), frozenset(values when false))} for
                   bool-returning calls; the answer is followed through copies, `!`, named flags and `match flag`.
    marks        : {bb: label} sites of interest; a state carries the set of labels of the sites it went through.

    Constants assigned to bool flags (`matches!`), known enum variants of locals and the outcome of `Try::branch` /
    `from_residual` on them are propagated and decide the switches on them; a switch on a local's discriminant teaches
    the variant on each edge.  A state whose facts become contradictory is infeasible and dropped.
    Returns [{"kind": "return"|"diverge"|"stop", "bb", "facts": {dim: frozenset}, "marks": frozenset, "result": variant
    name of the returned enum value if known}] or None if the state budget is exceeded."""
    from .lib import operand_local
    switch_facts = switch_facts or {}
    atom_facts = atom_facts or {}
    marks = marks or {}
    stops = set(stops)
    fn.succ(0)
    adts = fn.facts.adts
    live = _live_blocks(fn)
    # locals that are ever borrowed mutably can change behind the analysis' back: never tracked
    untracked = set()
    for b, i, st in fn.stmts():
        if st["rv"]["rv"] in ("ref", "rawptr") and st["rv"].get("mut"):
            untracked.add(st["rv"]["pl"]["l"])
    sw_info = {}

    def info_of(bb):
        if bb not in sw_info:
            sw_info[bb] = fn.switch_on(bb)
        return sw_info[bb]

    def bare(op):
        return op["pl"]["l"] if op.get("k") in ("copy", "move") and not op["pl"]["p"] else None

    def is_enum(adt):
        a = adts.get(adt)
        return bool(a) and a.get("kind") == "enum"

    def nested(v, depth=0):
        """A known enum value kept as the payload of another one (three levels at most)."""
        if v is None or v[0] != "v":
            return None
        if len(v) < 4 or depth >= 2:
            return v[:3]
        return v[:3] + (tuple(nested(x, depth + 1) for x in v[3]),)

    def payload_of(op, vals):
        """`(x as V).k` of a local x known to have been built as variant V with known operands: the k-th operand's value."""
        if op.get("k") not in ("copy", "move"):
            return None
        pr = [e for e in op["pl"]["p"] if e != "*"]
        v = vals.get(op["pl"]["l"])
        if v is None or v[0] != "v" or len(v) < 4 or len(pr) != 2 or not (isinstance(pr[0], dict) and "dc" in pr[0] and isinstance(pr[1], dict) and "f" in pr[1]):
            return None
        if pr[0]["dc"] != v[2] or pr[1]["f"] >= len(v[3]):
            return None
        return v[3][pr[1]["f"]]

    results = []
    seen = set()
    work = [(start, (), (), frozenset())]
    first = True
    n = 0
    while work:
        bb, vals_t, facts_t, mk = work.pop()
        key = (bb, vals_t, facts_t, mk)
        if key in seen:
            continue
        seen.add(key)
        n += 1
        if n > max_states:
            return None
        facts = dict(facts_t)
        if bb in stops and not first:
            results.append({"kind": "stop", "bb": bb, "facts": facts, "marks": mk, "result": None})
            continue
        first = False
        if bb in marks:
            mk = mk | {marks[bb]}
        vals = dict(vals_t)
        blk = fn.blocks[bb]
        for st in blk["st"]:
            if st["s"] != "assign":
                continue
            l = st["pl"]["l"]
            if st["pl"]["p"]:
                if "*" not in st["pl"]["p"]:
                    vals.pop(l, None)
                continue
            rv = st["rv"]
            new = None
            if rv["rv"] == "use":
                op = rv["op"]
                if op.get("k") == "const" and op.get("ty") == "bool" and op.get("val") and "int" in op["val"]:
                    new = ("c", bool(op["val"]["int"]))
                elif bare(op) is not None:
                    new = vals.get(bare(op))
                else:
                    new = payload_of(op, vals)
            elif rv["rv"] == "unop" and rv["op"] == "Not":
                v = vals.get(bare(rv["a"])) if bare(rv["a"]) is not None else None
                if v is not None and v[0] in ("c", "a"):
                    new = ("c", not v[1]) if v[0] == "c" else ("a", v[1], not v[2])
            elif rv["rv"] == "agg" and rv.get("agg") == "adt" and rv.get("variant") and is_enum(rv.get("adt")):
                # (the known variants of the operands travel with the value: `Poll::Ready(Err(e))`, `Some(Ok(frame))`)
                inner = tuple(nested(vals.get(bare(o))) if bare(o) is not None else None for o in rv["ops"])
                new = ("v", rv["adt"], rv["variant"], inner) if any(x is not None for x in inner) else ("v", rv["adt"], rv["variant"])
            if new is None or l in untracked:
                vals.pop(l, None)
            else:
                vals[l] = new
        t = blk["term"]
        if t["t"] == "call":
            d = t["dest"]
            vals.pop(d["l"], None)
            callee = t.get("callee") or ""
            if not d["p"] and d["l"] not in untracked:
                if bb in atom_facts:
                    for x in [x for x, v in vals.items() if v[0] == "a" and v[1] == bb]:
                        del vals[x]
                    vals[d["l"]] = ("a", bb, False)
                elif callee.endswith("ops::FromResidual::from_residual"):
                    res = t.get("resolved") or ""
                    if res.startswith("<std::result::Result<"):
                        vals[d["l"]] = ("v", RES_ADT, "Err")
                    elif res.startswith("<std::option::Option<"):
                        vals[d["l"]] = ("v", OPT_ADT, "None")
                elif callee.endswith("ops::Try::branch") and t["args"] and bare(t["args"][0]) is not None:
                    v = vals.get(bare(t["args"][0]))
                    if v is not None and v[0] == "v" and v[1] in (RES_ADT, OPT_ADT):
                        vals[d["l"]] = ("v", CF_ADT, "Continue" if v[2] in ("Ok", "Some") else "Break")
        succs = list(fn.succ(bb))
        if not succs:
            r = vals.get(0)
            results.append({"kind": "return" if t["t"] == "return" else "diverge", "bb": bb, "facts": facts, "marks": mk,
                            "result": r[2] if r is not None and r[0] == "v" else None})
            continue
        nxt = None     # [(successor, facts, {local: value learnt on this edge})]
        if t["t"] == "switch" and len(succs) > 1:
            dl = bare(t["discr"])
            v = vals.get(dl) if dl is not None else None
            false_t = None
            for val, tgt in t["targets"]:
                if val == 0:
                    false_t = tgt
            if bb in switch_facts:
                nxt = []
                for sx in succs:
                    f2 = dict(facts)
                    feasible = True
                    for dim, per_edge in switch_facts[bb]:
                        allowed = per_edge.get(sx)
                        if allowed is None:
                            continue
                        cur = f2.get(dim)
                        got = allowed if cur is None else (cur & allowed)
                        if not got:
                            feasible = False
                            break
                        f2[dim] = got
                    if feasible:
                        nxt.append((sx, f2, {}))
            elif v is not None and v[0] in ("c", "a") and false_t is not None and fn.local_ty(dl) == "bool":
                true_t = t["otherwise"]
                nxt = []
                if v[0] == "c":
                    tgt = true_t if v[1] else false_t
                    if tgt in succs:
                        nxt.append((tgt, facts, {}))
                else:
                    dim, vt, vf = atom_facts[v[1]]
                    for tgt, holds in ((true_t, True), (false_t, False)):
                        if tgt not in succs:
                            continue
                        allowed = vt if (holds != v[2]) else vf
                        cur = facts.get(dim)
                        got = allowed if cur is None else (cur & allowed)
                        if not got:
                            continue
                        f2 = dict(facts)
                        f2[dim] = got
                        nxt.append((tgt, f2, {}))
            else:
                info = info_of(bb)
                if info.get("kind") == "discr" and not info["place"]["p"] and info.get("variants") and is_enum(info.get("adt")):
                    sl = info["place"]["l"]
                    kv = vals.get(sl)
                    sets = edge_variant_sets(fn, bb, info)
                    nxt = []
                    for sx in succs:
                        names = sets.get(sx, frozenset())
                        if kv is not None and kv[0] == "v":
                            if kv[2] in names:
                                nxt.append((sx, facts, {}))
                        elif len(names) == 1 and sl not in untracked:
                            nxt.append((sx, facts, {sl: ("v", info["adt"], list(names)[0])}))
                        elif names:
                            nxt.append((sx, facts, {}))
        if nxt is None:
            nxt = [(sx, facts, {}) for sx in succs]
        for sx, f2, learnt in nxt:
            v2 = dict(vals)
            v2.update(learnt)
            v2 = {l: x for l, x in v2.items() if sx in live.get(l, ())}
            work.append((sx, tuple(sorted(v2.items())), tuple(sorted(f2.items(), key=lambda kv: repr(kv[0]))), mk))
    return results


def compatible(facts, cell):
    """A concrete cell {dim: value} is compatible with path facts {dim: frozenset} when no fact excludes it."""
    return all(dim not in facts or val in facts[dim] for dim, val in cell.items())
