"""Entry point: ./check <Cxx> [--tier quick|thorough] [--replay file] [--dump regex]"""
import importlib
import json
import os
import sys
import traceback

from . import core, extract
from .core import Ctx, AnchorLost


def run_property(prop, tier, features=""):
    mod = importlib.import_module("rules." + prop.lower())
    ctx = Ctx(prop, tier, features)
    # a body the extractor could not capture is code no rule has seen: fail closed
    for facts in (ctx.ds, ctx.ep):
        for st in facts.stolen:
            if "SKIPPED" in st:
                ctx.instances.append(core.Instance("extraction", "body-not-captured:" + st.split(" ")[0], False,
                                                   "the MIR of %s could not be captured (stolen by an earlier query), so no rule analysed it" % st, None, False))
    for name, fn in mod.RULES:
        try:
            fn(ctx)
        except AnchorLost:
            pass
        except Exception as e:  # an analysis that crashes decides nothing: fail closed
            ctx.instances.append(core.Instance(name, "rule-crashed", False,
                                               "rule raised %s: %s\n%s" % (type(e).__name__, e, traceback.format_exc()[-1500:]), None, False))
    return mod, ctx


def main(argv):
    if len(argv) < 2:
        print("usage: check <Cxx> [--tier quick|thorough] [--replay file]")
        return 2
    prop = argv[1].upper()
    tier = os.environ.get("VERIF_TIER", "quick")
    replay = None
    i = 2
    while i < len(argv):
        if argv[i] == "--tier":
            tier = argv[i + 1]
            i += 2
        elif argv[i] == "--replay":
            replay = argv[i + 1]
            i += 2
        else:
            i += 1
    if tier not in ("quick", "thorough"):
        tier = "quick"
    if prop == "DUMP":
        ctx = Ctx("DUMP", "quick")
        for facts in ((ctx.dsn, ctx.ep) if os.environ.get("VERIF_DUMP_NORMALISED") else (ctx.ds, ctx.ep)):
            for f in facts.fns(argv[2]):
                print(f.dump())
        return 0
    try:
        mod, ctx = run_property(prop, tier)
    except extract.ExtractionError as e:
        # a tree that does not compile (or that the driver cannot read) decides nothing: fail closed, with evidence
        vdir = os.path.join(core.evidence_dir(), "violations")
        os.makedirs(vdir, exist_ok=True)
        rp = os.path.join(vdir, "%s.extraction.json" % prop)
        with open(rp, "w") as f:
            json.dump({"property": prop, "rule": "extraction", "instance": "cargo-check", "detail": str(e)[-3000:]}, f, indent=1)
        core.write_evidence(prop, {
            "property_id": prop, "tier": tier, "seed": int(os.environ.get("VERIF_SEED", "0") or 0), "level": "other",
            "coverage": {"evaluations": 1, "distinct_nontrivial": 0, "obligations": 1, "discharged": 0,
                         "explanation": "the current tree could not be compiled / analysed, so no rule could be evaluated; the check fails closed",
                         "samples": [{"rule": "extraction", "verdict": "VIOLATED", "detail": str(e)[-800:]}]},
            "assumptions": [], "wall_s": 0.0, "violations": 1})
        print("VIOLATION property=%s replay=%s" % (prop, rp))
        print("  the current tree could not be analysed: %s" % e)
        return 1
    extra = {}
    if tier == "thorough":
        from . import thorough
        extra = thorough.run(prop, mod, ctx)
    ev, lines, nviol = ctx.finish(level=getattr(mod, "LEVEL", "other"), explanation=mod.EXPLANATION,
                                  trusted_base=getattr(mod, "TRUSTED", []), extra_cov=extra)
    nviol += extra.get("_violations", 0)
    for l in extra.get("_lines", []):
        lines.append(l)
    ev["coverage"].pop("_violations", None)
    ev["coverage"].pop("_lines", None)
    ev["violations"] = nviol
    core.write_evidence(prop, ev)
    if replay:
        try:
            want = json.load(open(replay))
            hit = [i for i in ctx.instances if i.rule == want["rule"] and i.key == want["instance"]]
            for h in hit:
                print("replay: rule %s instance %s -> %s" % (h.rule, h.key, "holds" if h.ok else "VIOLATED"))
                print("   " + (h.detail or ""))
            if not hit:
                print("replay: instance no longer exists on this tree")
        except Exception as e:
            print("replay file unreadable: %s" % e)
    for l in lines:
        print(l)
    c = ev["coverage"]
    print("%s %s: %d rule instances over %d rules, %d violated (%d listed as known findings), %.1fs" % (
        prop, tier, c["evaluations"], len(c["rules"]), c["evaluations"] - c["discharged"], c["known_findings_listed"], ev["wall_s"]))
    return 1 if nviol else 0


if __name__ == "__main__":
    sys.exit(main(sys.argv))
