"""C11 — request bodies larger than the limit are never delivered."""
import re

from . import absint as A
from .engine import comparison_of, normalise_le
from . import lib_c11 as L
from .lib import PLUMBING, callee_allow, callers, closure_args_of_call, operand_local, status_const_of_ctor
from .lib_c16 import field_places

LEVEL = "other"
TECHNIQUE = "static analysis: edge dominance of every body-data delivery (try_stream! yield / try_unfold step result) by the normalised predicate bytes_read+len <= cap in StreamingBody::into_stream's MIR, accumulator/cap provenance slices, who-constructs and who-consumes censuses, exhaustive interpretation of the limit selection"
LEVEL_TEXT = ("Decides on every path of the stream coroutine's MIR (with statically infeasible `Err(..)?` fall-through edges pruned): each send of body data is dominated by the edge on which "
              "`bytes_read + len <= cap` holds (exact boundary: a strict or reversed comparison is reported), `len` is Bytes::len of the very payload that is sent, `bytes_read` starts at 0 and is "
              "advanced by `len` on every accepted iteration, the refusing edge reaches no further data send and always emits a for_bad_request (400) error; every StreamingBody takes its cap from "
              "RequestContext::request_body_max_bytes(), whose MIR is interpreted exhaustively (override, else server default); the override is carried from the endpoint through lookup_route; and "
              "every consumer of a request body in the crate is on a closed, reviewed list (all capped extractors go through StreamingBody). Not decided: hyper's de-framing of wire bytes into frames.")
LEVEL_NOTE = ("Trusts rustc MIR, the extractor, async_stream's try_stream! expansion (send = yield) or, when the stream is written as a step function, futures::stream::try_unfold "
              "(Ok(Some((item, next))) delivers item and continues from next, Ok(None) ends, Err delivers the error and ends), http_body_util::BodyExt::frame / Frame::into_data, Bytes::len.")
EXPLANATION = ("DOM with predicate normalisation (Gt/Le/Lt/Ge and negations folded to one `<=` fact per edge), reaching-definition census of the accumulator, CHAIN slices for len/cap/payload, "
               "PASS (refusal always sends an error), WHO-CONSTRUCTS StreamingBody, WHO-CALLS body-frame consumers and ExclusiveExtractor impl census against a frozen table, DECIDE (absint) for "
               "request_body_max_bytes.")
TRUSTED = ["rustc nightly MIR + const evaluation", "mirfacts extractor", "rules/engine.py (dominators, pruning, slices)", "async_stream::try_stream! / futures::stream::try_unfold", "http_body_util::BodyExt::frame", "rules/absint.py"]

# ExclusiveExtractor implementations and how each treats the request body (frozen; one reason per line)
BODY_EXTRACTORS = {
    "extractor::body::TypedBody<BodyType>": ("capped", "http_request_load_body -> StreamingBody::new(body, request_body_max_bytes())"),
    "extractor::body::UntypedBody": ("capped", "StreamingBody::new(body, request_body_max_bytes()).into_bytes_mut()"),
    "extractor::body::StreamingBody": ("capped", "is the capped stream itself"),
    "extractor::body::MultipartBody": ("capped", "multer reads StreamingBody::into_stream() (since fix 9f8b157)"),
    "extractor::raw_request::RawRequest": ("raw-by-contract", "hands the raw hyper request to the handler; documented as bypassing dropshot's body handling"),
    "websocket::WebsocketUpgrade": ("upgrade", "the connection is upgraded; no HTTP body is read"),
    "S": ("shared", "blanket impl for SharedExtractor types: they never receive the body (request is dropped)"),
}
# functions allowed to pull frames out of a crate::Body
FRAME_CONSUMERS = {
    "extractor::body::StreamingBody::into_stream": "the capped stream",
    "http_util::http_dump_body": "drains and discards the rest of an oversize body",
    "<body::Body as hyper::body::Body>::poll_frame": "HttpBody impl of the wrapper type: delegates to the inner body (used by hyper for responses and by the two consumers above)",
    "test_util::read_bytes": "client-side test helper reading a *response* body",
}


def _model(ctx, R):
    """The abstract stream model of StreamingBody::into_stream (lib_c11): the generator / step coroutine that reads the
    body frames, its step events (data item, error item, end) and its cap / running-count vocabulary.  Fails closed."""
    from .core import AnchorLost
    try:
        # (normalised view: `.map_err(f)?`, `match`, let-else and spliced async helpers read as one program, and the error
        # constructors of map_err closures / helper fns stand in the stream coroutine itself)
        return L.stream_model(ctx.dsn)
    except L.ModelLost as e:
        ctx.lost(R, str(e))
        raise AnchorLost(str(e))


def r1_cap_before_delivery(ctx):
    R = ctx.rule("C11.R1", "every send of body data is dominated by the edge on which bytes_read + len <= cap holds (exact boundary), with len = Bytes::len of the sent payload, "
                 "cap = self.cap, and bytes_read an accumulator starting at 0 and advanced by len on every accepted iteration", floor=6)
    m = _model(ctx, R)
    top, g = m.top, m.g
    data = m.data
    ctx.check(R, "data-send-sites", len(data) >= 1, "deliveries of body data (%s) in the stream coroutine [%s form]: %d" % (m.item_word, m.form, len(data)), g)
    if not data:
        return
    cap_ok, cap_detail = m.cap_source()
    ctx.check(R, "cap-upvar-is-self.cap", cap_ok, cap_detail, top)
    for ev in data:
        sbb = ev.bb
        # where the delivered payload comes from (variant-precise: the Ok payload of Frame::into_data, through whatever wrappers)
        from_into = [o for o in ev.origins if o.root[0] == "call" and re.search(L.INTO_DATA, o.root[2])]
        into_bbs = set(o.root[3] for o in from_into)
        guards = m.cap_guards(into_bbs)
        key = "data-send"
        if not guards:
            ctx.check(R, key + ":guarded-by-cap", False, "no comparison of (bytes_read + len) against self.cap found", (g, sbb))
            continue
        dom = [gd for gd in guards if g.edge_dominates(gd["bb"], gd["target"], sbb)]
        exact = [gd for gd in dom if gd["rel"] == "le"]
        strict = [gd for gd in dom if gd["rel"] == "lt"]
        if exact:
            gd = exact[0]
            ctx.check(R, key + ":guarded-by-cap", True, "dominated by the %s edge of the comparison in bb%d on which bytes_read+len <= cap" % (gd["edge"], gd["bb"]), (g, sbb))
        elif strict:
            ctx.check(R, key + ":guarded-by-cap", False, "the dominating edge only guarantees bytes_read+len < cap: a body of exactly the limit is refused (boundary off by one)", (g, sbb))
        else:
            ctx.check(R, key + ":guarded-by-cap", False, "no edge with bytes_read+len <= cap dominates this send (the check is missing on some path, reversed, or placed after the send)", (g, sbb))
            continue
        gd = (exact or strict)[0]
        ctx.check(R, key + ":len-is-length-of-sent-payload", gd["len_ok"], "the compared `len` is Bytes::len of the same Frame::into_data payload that is sent: %s" % gd["len_ok"], (g, sbb))
        ok_acc, detail = m.accumulates(gd, ev)
        ctx.check(R, key + ":bytes_read-accumulates", ok_acc, detail, (g, sbb))
        # payload sent unmodified: every value the item can be is the Ok payload of Frame::into_data itself, and the frame handed to into_data is what BodyExt::frame produced
        whole = bool(ev.origins) and len(from_into) == len(ev.origins) and all(o.npath() == ["+", "0"] and not o.calls for o in from_into)
        badp = [b for o in from_into for b in callee_allow(g.slice(o.root[4]["args"][0]), PLUMBING + [r"BodyExt::frame$", r"Result::<T, E>::map_err$"])]
        ctx.check(R, key + ":payload-unmodified", whole and not badp, "the delivered item is the data payload of Frame::into_data itself: %s (its sources: %s); callees between BodyExt::frame and into_data: %s" % (
            whole, [repr(o) for o in ev.origins][:4], sorted(set(b[0] for b in badp)) or "none"), (g, sbb))


def r2_refusal_final(ctx):
    R = ctx.rule("C11.R2", "the refusing edge reaches no further data send and every path from it to the end of the stream sends an error built by for_bad_request (400)", floor=3)
    m = _model(ctx, R)
    top, g = m.top, m.g
    data = [e.bb for e in m.data]
    errs = [(e.bb, e.sl) for e in m.errs]
    into_bbs = set(o.root[3] for e in m.data for o in e.origins if o.root[0] == "call" and re.search(L.INTO_DATA, o.root[2]))
    guards = m.cap_guards(into_bbs)
    st400 = status_const_of_ctor(ctx.ds, "for_bad_request")
    for gd in guards:
        wbb, rej = gd["bb"], gd["other"]
        if rej is None:
            ctx.check(R, "refusal-delivers-nothing", False, "the comparison with the cap has no refusing edge", (g, wbb))
            continue
        reach = g.reachable(rej)
        ctx.check(R, "refusal-delivers-nothing", not any(d in reach for d in data), "data sends reachable from the refusing edge: %s" % [d for d in data if d in reach], (g, wbb))
        err_blocks = [bb for bb, sl in errs]
        ok = bool(err_blocks) and g.must_pass(err_blocks, start=rej)
        ctx.check(R, "refusal-always-errors", ok, "every path from the refusing edge to the coroutine's return passes an error send: %s" % ok, (g, wbb))
        # the errors on that path are 400s: every value such an error item can be is the result of for_bad_request
        there = [e for e in m.errs if e.bb in reach]
        built = [o for e in there for o in e.origins]
        allerr = all(e.origins for e in there) and all(o.root[0] == "call" and re.search(r"^error::HttpError::for_bad_request$", o.root[2]) for o in built)
        ctx.check(R, "refusal-is-400", allerr and st400 == {400}, "error items reachable from the refusing edge are all built by for_bad_request=%s (%s; status %s)" % (
            allerr, sorted(set(repr(o) for o in built)), sorted(st400 or [])), (g, wbb))
    if not guards:
        ctx.lost(R, "the cap comparison in the stream coroutine")


def r3_cap_provenance(ctx):
    R = ctx.rule("C11.R3", "every StreamingBody is built with cap = RequestContext::request_body_max_bytes() (directly or through StreamingBody::new, whose callers all pass it); __from_bytes is the one listed exception; fields are private", floor=5)
    sites = []
    for f in ctx.ds.F.values():
        for bb, i, st in f.aggregates(r"^extractor::body::StreamingBody$"):
            sites.append((f, bb, st))
    ctx.check(R, "aggregate-sites", len(sites) >= 2, "aggregate sites of StreamingBody: %s" % sorted(f.id for f, _, _ in sites), nontrivial=False)
    fields = [x["name"] for x in ctx.ds.adts["extractor::body::StreamingBody"]["variants"][0]["fields"]]
    ci = fields.index("cap")

    def from_bytes_exception(f, bb, s):
        ok = s.has_call(r"bytes::Bytes::len$") and s.params() == [1] and not callee_allow(s, PLUMBING + [r"bytes::Bytes::len$"])
        ctx.check(R, "cap-source:__from_bytes", ok, "doc(hidden) test helper: cap = data.len() of its own in-memory buffer (listed exception, not on the request path): %s" % ok, (f, bb))
        cs_ = callers(ctx.ds, r"StreamingBody::__from_bytes$")
        ctx.check(R, "__from_bytes-not-called-in-crate", not cs_, "callers inside the crate: %s" % [c.id for c, _, _ in cs_], (f, bb))
    for f, bb, st in sites:
        capop = st["rv"]["ops"][ci]
        s = f.slice(capop)
        name = f.id
        if re.search(r"StreamingBody::new$", name):
            ok = s.params() == [2] and not callee_allow(s, PLUMBING)
            ctx.check(R, "cap-source:new", ok, "StreamingBody::new stores its `cap` parameter: %s" % ok, (f, bb))
            cs = callers(ctx.ds, r"^extractor::body::StreamingBody::new$")
            ctx.check(R, "callers-of-new", len(cs) >= 2, "callers of StreamingBody::new: %s" % sorted(set(c.id for c, _, _ in cs)), nontrivial=False)
            for c, cbb, ct in cs:
                a = c.slice(ct["args"][1])
                if re.search(r"StreamingBody::__from_bytes$", c.id):
                    # the listed exception, written through the constructor instead of a struct literal
                    from_bytes_exception(c, cbb, a)
                    continue
                bad = callee_allow(a, PLUMBING + [r"RequestContext::<Context>::request_body_max_bytes$"])
                ctx.check(R, "cap-arg-of-new:%s" % c.id.split("::{closure")[0], a.has_call(r"RequestContext::<Context>::request_body_max_bytes$") and not bad and not any(x[0] == "binop" for x in a.atoms),
                          "cap argument = request_body_max_bytes() unmodified: callees %s" % a.callee_names(), (c, cbb))
        elif re.search(r"__from_bytes$", name):
            from_bytes_exception(f, bb, s)
        else:
            bad = callee_allow(s, PLUMBING + [r"RequestContext::<Context>::request_body_max_bytes$"])
            ok = s.has_call(r"RequestContext::<Context>::request_body_max_bytes$") and not bad and not any(x[0] == "binop" for x in s.atoms)
            ctx.check(R, "cap-source:%s" % name.split("::{closure")[0], ok, "cap = request_body_max_bytes() unmodified: callees %s" % s.callee_names(), (f, bb))
    vis = [(x["name"], x["vis"]) for x in ctx.ds.adts["extractor::body::StreamingBody"]["variants"][0]["fields"]]
    ctx.check(R, "fields-private", all(v != "Public" for _, v in vis), "StreamingBody fields: %s" % [(n, v.split("(")[0]) for n, v in vis], nontrivial=False)
    newf = ctx.ds.one(r"^extractor::body::StreamingBody::new$")
    ctx.check(R, "new-not-public", newf is not None and newf.raw.get("vis") != "Public", "StreamingBody::new visibility: %s" % (newf.raw.get("vis") if newf else None), nontrivial=False)
    # nobody writes .cap afterwards
    writes = []
    for f in ctx.ds.F.values():
        for bb, i, st in f.stmts():
            if any(isinstance(e, dict) and e.get("n") == "cap" for e in st["pl"]["p"]) and "StreamingBody" in " ".join(f.raw["locals"]):
                writes.append(f.id)
    ctx.check(R, "cap-never-reassigned", not writes, "assignments to a `.cap` field: %s" % writes, nontrivial=False)


def r4_effective_limit(ctx):
    R = ctx.rule("C11.R4", "request_body_max_bytes() = the endpoint's override if present, else the server default (decided by interpretation); lookup_route copies the override from the selected endpoint", floor=3)
    f = ctx.need_fn(ctx.ds, R, r"^handler::RequestContext::<Context>::request_body_max_bytes$")

    def mk(adt, vals):
        a = ctx.ds.adts[adt]
        return A.V_struct(adt, [vals.get(x["name"], A.V_opaque(x["name"])) for x in a["variants"][0]["fields"]])
    for name, ov in (("override present", A.V_some(A.V_sym("override"))), ("no override", A.V_none())):
        try:
            cfg = mk("config::ConfigDropshot", {"default_request_body_max_bytes": A.V_sym("default")})
            cfgname = "config::ConfigDropshot"
        except KeyError:
            cfg = None
        try:
            # locate the config struct type through the ADT table: DropshotState.config
            st_fields = {x["name"]: x["ty"] for x in ctx.ds.adts["server::DropshotState"]["variants"][0]["fields"]}
            cfg_adt = st_fields["config"].split("<")[0]
            cfg = mk(cfg_adt, {"default_request_body_max_bytes": A.V_sym("default")})
            state = mk("server::DropshotState", {"config": cfg})
            ep = mk("handler::RequestEndpointMetadata", {"request_body_max_bytes": ov})
            rq = mk("handler::RequestContext", {"server": A.V_ref(A.Cell(state)), "endpoint": ep})
            it = A.Interp(ctx.ds, {"override": 0, "default": 1})
            got = A.strip(it.call_fn(f, [A.V_ref(A.Cell(rq))]))
            want = ("sym", "override") if name == "override present" else ("sym", "default")
            ctx.check(R, "effective-limit:%s" % name, got == want, "code=%s spec=%s" % (got, want), f)
        except (A.LeavesFragment, KeyError) as e:
            ctx.check(R, "effective-limit:%s" % name, False, "interpretation aborted: %r" % (e,), f)
    lr = ctx.need_fn(ctx.dsn, R, r"^router::HttpRouter::<Context>::lookup_route$")
    aggs = list(lr.aggregates(r"^handler::RequestEndpointMetadata$"))
    if len(aggs) != 1:
        ctx.lost(R, "the RequestEndpointMetadata aggregate in lookup_route")
        return
    bb, i, st = aggs[0]
    fi = st["rv"]["fields"].index("request_body_max_bytes")
    s = lr.slice(st["rv"]["ops"][fi], stop_at_calls=r"^router::find_handler_matching_version$")
    bad = callee_allow(s, PLUMBING + [r"^router::find_handler_matching_version$"])
    ok = s.has_call(r"^router::find_handler_matching_version$") and s.reads_field("request_body_max_bytes") and not bad \
        and not any(a[0] in ("lit", "binop") for a in s.atoms)
    if not ok:
        from .lib_c01 import answer_field_from_selection
        ok = answer_field_from_selection(ctx.dsn, lr, st["rv"]["ops"][fi], "request_body_max_bytes")[0]
    ctx.check(R, "override-carried-from-selected-endpoint", ok, "RequestEndpointMetadata.request_body_max_bytes <- (*selected endpoint).request_body_max_bytes: %s" % ok, (lr, bb))


def r5_who_reads_body(ctx):
    R = ctx.rule("C11.R5", "closed census: every function that pulls frames from a request body, and every ExclusiveExtractor (the only receivers of the body), is on the reviewed list; "
                 "capped extractors reach the body only through StreamingBody", floor=8)
    pats = r"BodyExt::frame$|hyper::body::Body::poll_frame$|BodyExt::collect$|BodyStream|BodyDataStream|BodyExt::into_data_stream$|Body::into_data_stream$"
    for f, bb, t in callers(ctx.ds, pats):
        root = f.id.split("::{closure")[0]
        ctx.check(R, "frame-consumer:%s" % root, root in FRAME_CONSUMERS,
                  ("listed: " + FRAME_CONSUMERS[root]) if root in FRAME_CONSUMERS else "%s pulls body frames via %s but is not on the reviewed consumer list (an uncapped reader of request bodies?)" % (root, t["callee"]), (f, bb))
    seen = set()
    for imp in ctx.ds.impls:
        if not imp["trait"].endswith("extractor::common::ExclusiveExtractor"):
            continue
        selfty = imp["self"].replace("/#0", "")
        seen.add(selfty)
        entry = BODY_EXTRACTORS.get(selfty)
        if entry is None:
            ctx.check(R, "body-extractor:%s" % selfty, False, "ExclusiveExtractor impl for %s is not on the reviewed list: does it enforce request_body_max_bytes?" % selfty, None)
            continue
        kind, why = entry
        fr = [x["id"] for x in imp["items"] if x["name"] == "from_request"]
        fn = ctx.ds.fn(fr[0]) if fr else None
        if fn is None:
            ctx.lost(R, "from_request of %s" % selfty)
            continue
        body = ctx.ds.body_of(fn)
        reg = ctx.ds.region([fn.id, body.id], stop=())
        if kind == "capped":
            # every use of the request body inside the region goes into a StreamingBody
            consumers = []
            sb = False
            for fid in reg:
                h = ctx.ds.F[fid]
                if list(h.aggregates(r"^extractor::body::StreamingBody$")) or h.live_calls(r"^extractor::body::StreamingBody::new$"):
                    sb = True
                for cbb, ct in h.live_calls(r"multer::Multipart::<'r>::(new|with_constraints)$|BodyExt::|hyper::body::Body::poll_frame$|into_data_stream$|BodyStream|BodyDataStream"):
                    root = fid.split("::{closure")[0]
                    if root in FRAME_CONSUMERS:
                        continue
                    if "Multipart" in ct["callee"]:
                        s = h.slice(ct["args"][0])
                        okm = s.has_call(r"^extractor::body::StreamingBody::into_stream$") and not s.has_call(r"into_data_stream|BodyStream|BodyDataStream")
                        if not okm:
                            consumers.append("%s: multer reads %s" % (root, [c for c in s.callee_names() if "tream" in c or "into_" in c]))
                    else:
                        consumers.append("%s: %s" % (root, ct["callee"]))
            ctx.check(R, "body-extractor:%s" % selfty, sb and not consumers,
                      "capped (%s): builds a StreamingBody=%s; other body readers in its region: %s" % (why, sb, consumers or "none"), fn)
        else:
            # no frame consumption at all in the region
            cons = []
            for fid in reg:
                h = ctx.ds.F[fid]
                for cbb, ct in h.live_calls(r"BodyExt::|hyper::body::Body::poll_frame$|into_data_stream$|multer::"):
                    cons.append("%s: %s" % (fid, ct["callee"]))
            ctx.check(R, "body-extractor:%s" % selfty, not cons, "%s (%s); body readers in its region: %s" % (kind, why, cons or "none"), fn)
    for k in BODY_EXTRACTORS:
        if k not in seen:
            ctx.check(R, "body-extractor-table:%s" % k, False, "table entry has no matching impl any more (stale table)", None, nontrivial=False)
    # into_bytes_mut accumulates the capped stream only
    ib = ctx.ds.one(r"^extractor::body::StreamingBody::into_bytes_mut$")
    if ib is None:
        ctx.lost(R, "StreamingBody::into_bytes_mut")
        return
    body = ctx.ds.body_of(ib)
    reg = [body] + ctx.ds.descendants(body)
    uses_stream = any(h.live_calls(r"^extractor::body::StreamingBody::into_stream$") for h in reg)
    other = [c for h in reg for _, c in [(b, t["callee"]) for b, t in h.live_calls(r"BodyExt::|poll_frame$|into_data_stream$")]]
    ctx.check(R, "into_bytes_mut-reads-capped-stream", uses_stream and not other, "into_bytes_mut folds self.into_stream()=%s; other readers=%s" % (uses_stream, other or "none"), ib)



def r6_only_counted_bytes_refuse(ctx):
    """Added after adversary change C09-B (a `size_hint().upper().unwrap_or(u64::MAX) > cap` fail-fast that refuses every
    body without a declared length): a body of at most `cap` bytes must be accepted however it is framed, so a refusal may
    only be caused by bytes actually counted, by a *sound* lower bound on them, or by a transport error."""
    R = ctx.rule("C11.R6", "every error emitted by the body stream is either the propagation of a frame / drain failure, or is dominated by the refusing edge of a comparison against "
                 "self.cap whose other side is the counted total (bytes_read + len) or a sound lower bound of the remaining length (SizeHint::lower / exact)", floor=3)
    m = _model(ctx, R)
    top, g = m.top, m.g
    # one instance per value an error item can be (the constructor call that built it, found variant-precisely through
    # helpers, `?`, map_err and match arms), not per send site: `Err(self.refuse().await)?` is one send of two errors
    errs = []
    for e in m.errs:
        for o in (e.origins or [None]):
            errs.append((e, o, o.root[3] if o is not None and o.root[0] == "call" else e.bb))
    ctx.check(R, "error-sends", len(errs) >= 3, "errors the stream coroutine can emit [%s form]: %d (%s)" % (m.form, len(errs), sorted(set(repr(o) for _, o, _ in errs))), g)
    # every comparison against cap in the coroutine
    mentions_cap = m.mentions_cap
    guards = []
    for wbb, wt in g.switches():
        cmp = comparison_of(g, wbb)
        if not cmp:
            continue
        a_cap, b_cap = mentions_cap(cmp["a"]), mentions_cap(cmp["b"])
        if a_cap == b_cap:
            continue
        other = cmp["b"] if a_cap else cmp["a"]
        os_ = g.slice(other)
        counted = os_.has_call(r"bytes::Bytes::len$|bytes::Buf::remaining$") and any(a[0] == "binop" and a[1].startswith("Add") for a in os_.atoms)
        hint_calls = [c for c in os_.callee_names() if "SizeHint" in c or "size_hint" in c]
        sound_hint = bool(hint_calls) and all(c.endswith("SizeHint::lower") or c.endswith("SizeHint::exact") or c.endswith("::size_hint") or "Option::<T>::unwrap_or" in c for c in hint_calls) \
            and not any(c.endswith("SizeHint::upper") for c in hint_calls) and (os_.has_call(r"SizeHint::lower$") or os_.has_call(r"SizeHint::exact$"))
        guards.append({"bb": wbb, "true": cmp["true"], "false": cmp["false"], "counted": counted, "sound_hint": sound_hint, "names": os_.callee_names()})
    splits = L.failure_splits(g)
    for e, o, obb in errs:
        bb = e.bb
        dom = []
        for gd in guards:
            for edge in ("true", "false"):
                if gd[edge] is not None and (g.edge_dominates(gd["bb"], gd[edge], bb) or g.edge_dominates(gd["bb"], gd[edge], obb)):
                    dom.append(gd)
        bad = [gd for gd in dom if not (gd["counted"] or gd["sound_hint"])]
        if dom:
            ctx.check(R, "refusal-cause", not bad,
                      "error %s guarded by %d comparison(s) with cap; all on counted bytes or a sound lower bound: %s%s" % (
                          repr(o) if o is not None else "item", len(dom), not bad,
                          ("" if not bad else " — refusal decided from %s, which is not a lower bound of the body length (an undeclared length would always be refused)" % [c for c in bad[0]["names"] if "ize" in c or "unwrap" in c])), (g, obb))
        else:
            # not decided by the cap: the error is built (or sent) on the failure side of reading the body — the Err case of a
            # frame / of draining the rest —, or it is that failure itself passed on
            on_fail = [sp for sp in splits if sp["err"] is not None and (g.edge_dominates(sp["switch_bb"], sp["err"], obb) or g.edge_dominates(sp["switch_bb"], sp["err"], bb))]
            passed_on = o is not None and o.root[0] == "call" and re.search(r"Future::poll$", o.root[2]) is not None and \
                g.slice(o.root[4]["args"][0]).has_call(L.FRAME + "|" + L.DUMP) and o.npath()[-2:] == ["-", "0"]
            is_prop = bool(on_fail) or passed_on
            ctx.check(R, "refusal-cause", is_prop,
                      "error %s outside any cap comparison is the propagation of a frame/drain failure: %s (built on the Err case of %s)" % (
                          repr(o) if o is not None else "item", is_prop, sorted(set(sp["kind"] for sp in on_fail)) or ("the failure itself" if passed_on else "nothing")), (g, obb))


def r7_frame_errors_are_errors(ctx):
    """Added after adversary change C18-D (`Err(_) => break` on a failed body frame: a body shorter than its Content-Length,
    or a chunked body with corrupt framing, ended the stream as if complete and the handler ran on the truncated body)."""
    from .lib import result_split, http_error_ctors_on_error_path
    R = ctx.rule("C11.R7", "a failed body frame (truncated or corrupt framing) never ends the body stream silently: its Err case always emits an error item built by "
                 "for_bad_request before the stream can end, and delivers no further data", floor=3)
    from .lib_c10 import path_states
    m = _model(ctx, R)
    top, g = m.top, m.g
    data = [e.bb for e in m.data]
    err_blocks = [e.bb for e in m.errs]
    # where a frame's Result is split into Ok / Err: by the scrutinee's origin (the output of awaiting BodyExt::frame, however
    # deeply it is matched: `Some(Err(e)) =>`), and — for a Result bound to a local first — by following the local (`.map_err(..)?`, match, let-else)
    splits = [sp for sp in L.failure_splits(g) if sp["kind"] == "frame"]
    seen_sw = set(sp["switch_bb"] for sp in splits)
    frame_results = [l for l, ty in enumerate(g.raw["locals"]) if re.match(r"^std::result::Result<hyper::body::Frame<", ty)]
    for l in frame_results:
        sp = result_split(g, l)
        if sp and sp["switch_bb"] not in seen_sw:
            seen_sw.add(sp["switch_bb"])
            splits.append(sp)
    ctx.check(R, "frame-result-is-examined", len(splits) >= 1, "places where the Result of a body frame is split into Ok/Err: %d" % len(splits), g)
    for sp in splits:
        if sp["err"] is None:
            ctx.check(R, "frame-error-always-reported", False, "the Err case of a body frame has no edge of its own", (g, sp["switch_bb"]))
            continue
        # path-sensitive walk from the Err case (known variants of Result / Option / Poll values are followed through the joins left
        # by spliced helpers): every way on ends at an error item, none at the end of the stream, and no data item is met before
        states = path_states(g, sp["err"], marks={d: "data" for d in data}, stops=err_blocks)
        if states is None:
            ctx.lost(R, "the paths from the Err case of a body frame (state budget exceeded)")
            continue
        ends = [st_ for st_ in states if st_["kind"] == "return"]
        ok = bool(err_blocks) and not ends and any(st_["kind"] == "stop" for st_ in states)
        ctx.check(R, "frame-error-always-reported", ok,
                  "every path from the Err case of a body frame to the end of the stream passes an error item: %s%s" % (ok, "" if ok else " — the stream can end as if the body were complete"), (g, sp["switch_bb"]))
        fed = [st_ for st_ in states if "data" in st_["marks"]]
        ctx.check(R, "frame-error-delivers-no-data", not fed, "no data item can follow a failed frame before the error item", (g, sp["switch_bb"]))
        # the error item(s) built on that side
        built = [o for e in m.errs for o in e.origins if o.root[0] == "call" and g.edge_dominates(sp["switch_bb"], sp["err"], o.root[3])]
        names = set(o.root[2] for o in built) | (http_error_ctors_on_error_path(g, sp) if "mappers" in sp else set())
        ctx.check(R, "frame-error-is-400", names == {"error::HttpError::for_bad_request"}, "constructors of the error item for a failed frame: %s" % (sorted(names) or "none"), (g, sp["switch_bb"]))


def r8_declared_limit_is_stored(ctx):
    """`the effective limit is the endpoint's override if declared`: the builder that records the override stores its argument,
    whatever its value.  This is C19.R3, re-evaluated here (adversary change C11-E dropped an override of 0 in the builder)."""
    from . import c19
    from .lib_c01 import Renamed
    c19.r3_builders(Renamed(ctx, "C11.R8", "ApiEndpoint::request_body_max_bytes stores exactly the declared value as the endpoint's override (all builders write their argument unmodified)"))


def r9_refusal_cannot_panic(ctx):
    """`any larger body is refused with a 400-level error however it is framed`: the code that refuses (and drains) an oversize body has no
    potential panic site outside the reviewed table.  This is C10.R4, re-evaluated here (adversary change C11-H re-enabled
    `assert!(body.is_end_stream())` after the drain loop, which fails for chunked bodies)."""
    from . import c10
    from .lib_c01 import Renamed
    c10.r4_panic_census(Renamed(ctx, "C11.R9", "no unreviewed potential panic site on the request path, the body drain included: a refusal is a response, not a dropped connection"))


ALLOC_SIZED = r"::with_capacity$|::with_capacity_in$|::reserve$|::reserve_exact$|::try_reserve$|::try_reserve_exact$|::resize$|::resize_with$|vec::from_elem$|::repeat$|::split_off$|::truncate$"


def r10_limit_only_compared(ctx):
    """Added after adversary change C11-I (`BytesMut::with_capacity(self.cap)` "to size the buffer once": with the limit set to usize::MAX to
    mean `no limit` the reservation panics with `capacity overflow` and a 12-byte body gets no response at all): the limit is a bound to
    compare the running byte count with, for every value a configuration can hold -- it is never a size to allocate, reserve or cut to."""
    R = ctx.rule("C11.R10", "the body limit (StreamingBody.cap / request_body_max_bytes()) is never the size argument of an allocation, reservation or resize: "
                 "a body within the limit is accepted for every configurable limit, usize::MAX included", floor=2)
    n_reads = 0
    bad = []
    for f in ctx.ds.F.values():
        if not re.search(r"^<*extractor::|^http_util::|^server::|^handler::", f.id):
            continue
        reads = any(True for _ in field_places(f, "cap")) or bool(f.live_calls(r"RequestContext::<Context>::request_body_max_bytes$"))
        if not reads:
            continue
        n_reads += 1
        for bb, t in f.live_calls(ALLOC_SIZED):
            for a in t["args"][0:]:
                sl = f.slice(a)
                if sl.reads_field("cap") or sl.has_call(r"RequestContext::<Context>::request_body_max_bytes$"):
                    bad.append((f, bb, t["callee"]))
                    break
    ctx.check(R, "functions-reading-the-limit", n_reads >= 2, "functions that read StreamingBody.cap or call request_body_max_bytes(): %d" % n_reads, None, nontrivial=False)
    ctx.check(R, "limit-never-sizes-an-allocation", not bad, "allocation / reservation / resize calls whose argument derives from the limit: %s" % ([("%s in %s" % (c, f.id)) for f, _, c in bad] or "none"),
              (bad[0][0], bad[0][1]) if bad else None)


def r11_buffered_body_is_the_whole_stream(ctx):
    """`a body of at most that many bytes is accepted and delivered intact however it is framed or chunked`: the buffering helper behind
    UntypedBody / TypedBody appends every frame of the capped stream, whole and in order, and returns the buffer only when the stream has
    ended.  These are the accumulation clauses of C09.R1, re-evaluated here (adversary change C11-K: the helper read only two frames)."""
    from . import c09
    R = ctx.rule("C11.R11", "into_bytes_mut returns the concatenation of every frame of the capped stream: one append site fed by each pulled frame whole, a buffer that starts empty, "
                 "and no return between an append and the next pull (or a try_fold over the stream)", floor=4)
    c09._accumulation(ctx, R)


RULES = [("C11.R11", r11_buffered_body_is_the_whole_stream), ("C11.R10", r10_limit_only_compared), ("C11.R9", r9_refusal_cannot_panic), ("C11.R8", r8_declared_limit_is_stored), ("C11.R7", r7_frame_errors_are_errors), ("C11.R1", r1_cap_before_delivery), ("C11.R2", r2_refusal_final), ("C11.R3", r3_cap_provenance), ("C11.R4", r4_effective_limit), ("C11.R5", r5_who_reads_body), ("C11.R6", r6_only_counted_bytes_refuse)]

SELFTEST = [
    {"name": "ge-for-gt", "kind": "mutant", "edits": [("dropshot/src/extractor/body.rs", "if bytes_read + len > self.cap {", "if bytes_read + len >= self.cap {")], "expect": ["C11.R1"],
     "why": "a body of exactly the limit is refused"},
    {"name": "no-accumulate", "kind": "mutant", "edits": [("dropshot/src/extractor/body.rs", "                bytes_read += len;\n", "")], "expect": ["C11.R1"],
     "why": "only single frames are compared with the cap; a chunked body of any size passes"},
    {"name": "untyped-uncapped", "kind": "mutant", "edits": [("dropshot/src/extractor/body.rs", "            StreamingBody::new(body, rqctx.request_body_max_bytes())\n                .into_bytes_mut()", "            StreamingBody::new(body, usize::MAX)\n                .into_bytes_mut()")], "expect": ["C11.R3"],
     "why": "UntypedBody ignores the limit"},
    {"name": "ignore-override", "kind": "mutant", "edits": [("dropshot/src/handler.rs", "        self.endpoint\n            .request_body_max_bytes\n            .unwrap_or(self.server.config.default_request_body_max_bytes)", "        self.server.config.default_request_body_max_bytes")], "expect": ["C11.R4"],
     "why": "per-endpoint override ignored"},
    {"name": "prefix-f4", "kind": "mutant", "revert": "9f8b157", "expect": ["C11.R5"], "why": "multipart reads the body uncapped (pre-fix code)"},
    {"name": "check-after-yield", "kind": "mutant", "edits": [("dropshot/src/extractor/body.rs", "                bytes_read += len;\n                yield buf;\n", "                yield buf.clone();\n                bytes_read += len;\n"),
                                                          ("dropshot/src/extractor/body.rs", "                let len = buf.len();\n\n                if bytes_read + len > self.cap {", "                let len = buf.len();\n                yield buf.clone();\n                if bytes_read + len > self.cap {")], "expect": ["C11.R1"],
     "why": "the oversize chunk is delivered before the check refuses it"},
    {"name": "typed-body-double-limit", "kind": "mutant", "edits": [("dropshot/src/extractor/body.rs", "    let body = StreamingBody::new(body, rqctx.request_body_max_bytes())\n        .into_bytes_mut()", "    let body = StreamingBody::new(body, rqctx.request_body_max_bytes() * 2)\n        .into_bytes_mut()")], "expect": ["C11.R3"],
     "why": "typed bodies accepted up to twice the limit"},
    {"name": "lookup-drops-override", "kind": "mutant", "edits": [("dropshot/src/router.rs", "request_body_max_bytes: handler.request_body_max_bytes,", "request_body_max_bytes: None,")], "expect": ["C11.R4"],
     "why": "per-endpoint override never reaches the request context"},
    {"name": "commuted-comparison", "kind": "benign", "edits": [("dropshot/src/extractor/body.rs", "if bytes_read + len > self.cap {", "if self.cap < bytes_read + len {")], "why": "same predicate"},
    {"name": "negated-le", "kind": "benign", "edits": [("dropshot/src/extractor/body.rs", "if bytes_read + len > self.cap {", "if !(bytes_read + len <= self.cap) {")], "why": "same predicate"},
    # the same rules over the other spelling of the stream: futures::stream::try_unfold with state (self, bytes_read) (benign/C11-R5)
    {"name": "unfold-no-accumulate", "kind": "mutant", "patch": "benign/C11-R5/patch.diff", "edits": [("dropshot/src/extractor/body.rs", "(this, bytes_read + len)", "(this, bytes_read)")], "expect": ["C11.R1"],
     "why": "try_unfold form: the count carried to the next step is not advanced; a chunked body of any size passes"},
    {"name": "unfold-deliver-before-check", "kind": "mutant", "patch": "benign/C11-R5/patch.diff",
     "edits": [("dropshot/src/extractor/body.rs", "                    if this.would_exceed_cap(bytes_read, len) {",
                "                    if bytes_read == 0 { return Ok(Some((buf, (this, bytes_read + len)))); }\n                    if this.would_exceed_cap(bytes_read, len) {")], "expect": ["C11.R1"],
     "why": "try_unfold form: the first chunk is delivered without being compared with the cap"},
    {"name": "unfold-frame-error-ends-stream", "kind": "mutant", "patch": "benign/C11-R5/patch.diff",
     "edits": [("dropshot/src/extractor/body.rs", "let frame = frame_res.map_err(streaming_error)?;", "let Ok(frame) = frame_res else { return Ok(None) };")], "expect": ["C11.R7"],
     "why": "try_unfold form: a failed frame ends the stream as if the body were complete"},
    {"name": "unfold-refusal-ends-stream", "kind": "mutant", "patch": "benign/C11-R5/patch.diff",
     "edits": [("dropshot/src/extractor/body.rs", "                        return Err(this.cap_exceeded_error());\n", "                        return Ok(None);\n")], "expect": ["C11.R2"],
     "why": "try_unfold form: an oversize body is truncated silently instead of refused with 400"},
    {"name": "unfold-cap-rewritten", "kind": "mutant", "patch": "benign/C11-R5/patch.diff",
     "edits": [("dropshot/src/extractor/body.rs", "                    let len = buf.len();\n", "                    let len = buf.len();\n                    this.cap = usize::MAX;\n")], "expect": ["C11.R1"],
     "why": "try_unfold form: the cap held in the carried state is overwritten inside a step"},
    {"name": "unfold-state-destructured-in-body", "kind": "benign", "patch": "benign/C11-R5/patch.diff",
     "edits": [("dropshot/src/extractor/body.rs", "|(mut this, bytes_read)| async move {", "|state| async move {\n                let (mut this, bytes_read) = state;")],
     "why": "try_unfold form: the step coroutine captures the whole state and destructures it itself"},
    {"name": "unfold-named-total", "kind": "benign", "patch": "benign/C11-R5/patch.diff",
     "edits": [("dropshot/src/extractor/body.rs", "                    if this.would_exceed_cap(bytes_read, len) {", "                    let total = bytes_read + len;\n                    if total > this.cap {"),
               ("dropshot/src/extractor/body.rs", "return Ok(Some((buf, (this, bytes_read + len))));", "let next = (this, total);\n                    return Ok(Some((buf, next)));")],
     "why": "try_unfold form: the compared sum is let-bound and reused as the carried count; the next state is let-bound"},
    # the same rules over the stream split across async helpers, with the generator capturing the whole `self` (benign/C11-R9)
    {"name": "helpers-boundary-off-by-one", "kind": "mutant", "patch": "benign/C11-R9/patch.diff",
     "edits": [("dropshot/src/extractor/body.rs", "if self.cap < delivered + chunk_len {", "if self.cap <= delivered + chunk_len {")], "expect": ["C11.R1"],
     "why": "async-helper form: a body of exactly the limit is refused; the `debug_assert!(delivered <= self.cap)` next to it is not the cap check"},
    {"name": "helpers-frame-error-ends-stream", "kind": "mutant", "patch": "benign/C11-R9/patch.diff",
     "edits": [("dropshot/src/extractor/body.rs",
                "            Some(Err(read_error)) => {\n                return Err(HttpError::for_bad_request(\n                    None,\n                    format!(\"error streaming request body: {}\", read_error),\n                ))\n            }",
                "            Some(Err(_read_error)) => return Ok(None),")], "expect": ["C11.R7"],
     "why": "async-helper form: the helper that reads the next data frame reports a failed frame as the end of the body"},
    {"name": "helpers-oversize-is-503", "kind": "mutant", "patch": "benign/C11-R9/patch.diff",
     "edits": [("dropshot/src/extractor/body.rs", "            Ok(_ndropped) => HttpError::for_bad_request(\n                None,", "            Ok(_ndropped) => HttpError::for_unavail(\n                None,")], "expect": ["C11.R2"],
     "why": "async-helper form: the refusal built by the spliced refuse_oversize() is a 503, not a 400"},
    {"name": "helpers-cap-overwritten", "kind": "mutant", "patch": "benign/C11-R9/patch.diff",
     "edits": [("dropshot/src/extractor/body.rs", "                let chunk_len = chunk.len();", "                let chunk_len = chunk.len();\n                self.cap = usize::MAX;")], "expect": ["C11.R1", "C11.R3"],
     "why": "whole-self capture: the generator overwrites the cap of the StreamingBody it owns before comparing"},
    {"name": "loop-invariant-asserted", "kind": "benign",
     "edits": [("dropshot/src/extractor/body.rs", "                if bytes_read + len > self.cap {", "                debug_assert!(bytes_read <= self.cap);\n                if bytes_read + len > self.cap {")],
     "why": "behaviour-preserving: the loop invariant stated as a debug assertion (a second comparison with the cap that is not the check)"},
    {"name": "invariant-asserted-boundary-off-by-one", "kind": "mutant",
     "edits": [("dropshot/src/extractor/body.rs", "                if bytes_read + len > self.cap {", "                debug_assert!(bytes_read <= self.cap);\n                if bytes_read + len >= self.cap {")], "expect": ["C11.R1"],
     "why": "the asserted invariant `bytes_read <= cap` dominates the send with a `<=` edge but is not the comparison of bytes_read + len: the real check is strict"},
    {"name": "test-helper-through-constructor", "kind": "benign",
     "edits": [("dropshot/src/extractor/body.rs", "        let body = crate::Body::from(data);\n        Self { body, cap }", "        Self::new(crate::Body::from(data), cap)")],
     "why": "behaviour-preserving: the doc(hidden) __from_bytes test helper (the listed cap exception) builds its value through StreamingBody::new"},
    {"name": "renamed-locals", "kind": "benign", "edits": [("dropshot/src/extractor/body.rs", "                let len = buf.len();\n\n                if bytes_read + len > self.cap {", "                let n = buf.len();\n                let len = n;\n\n                if bytes_read + len > self.cap {")], "why": "extra copy of len"},
]

LEVEL_TEXT += ' Also (R6): a refusal can only be caused by bytes actually counted, by a sound lower bound of the remaining length, or by a transport error.'

LEVEL_TEXT += " Also (R7): a failed body frame (truncated / corrupt framing) always yields a for_bad_request error item and no further data; the stream never ends silently on it."

LEVEL_TEXT += (" The stream rules (R1, R2, R6, R7) are stated over an abstract stream step (rules/lib_c11.py: data item / error item / end of stream, running count, cap) that two spellings instantiate: "
               "the try_stream! generator (item = yield, running count = a local re-assigned in the loop) and a futures::stream::try_unfold step function (item = the step result Ok(Some((item, next))), "
               "end = Ok(None), error = Err / `?`; the running count and `self` are components of the state tuple: the count is 0 in the initial state, never written inside a step and carried on as "
               "count + len of the delivered payload, `self` is carried on unchanged and its cap never written or mutably borrowed). Any other mechanism fails closed.")
LEVEL_TEXT += " Also (R8 = C19.R3): the builder that records a per-endpoint override stores exactly the declared value."
LEVEL_TEXT += (" The stream model is built on the normalised view and names values by their variant-precise origins (lib_c01.sources): an item / error that reaches the generator through a spliced async helper "
               "(`next_chunk(..).await?`, `Err(self.refuse().await)?`), a map_err closure, a helper fn or a match arm is the constructor call that built it; R6 counts and classifies those constructor sites (built or sent "
               "under a refusing cap edge, or on the Err case of awaiting BodyExt::frame / http_dump_body: lib_c11.failure_splits), R7 walks path-sensitively (lib_c10.path_states, known variants carried through "
               "`Poll::Ready(..)` / `Some(..)` wrappers) from the Err case of a frame to the error item. The cap is `self.cap` captured by the generator or the `cap` field of a captured whole `self` that the generator never "
               "assigns or mutably borrows; the compared sum must structurally be running-count + Bytes::len(payload) (also let-bound / saturating_add), so another comparison with the cap (an asserted invariant) is not the check.")
LEVEL_TEXT += ' Also (R9 = C10.R4): the request path, including the drain of an oversize body, has no unreviewed panic site. Also (R10): the limit is never the size argument of an allocation, reservation, resize or truncation, so a body within the limit is accepted for every configurable limit. Also (R11 = the accumulation clauses of C09.R1): into_bytes_mut returns the concatenation of every frame of the capped stream, read to its end.'


SELFTEST += [
    {"name": "buffer-presized-with-a-constant", "kind": "benign", "why": "the property holds: the accumulation buffer is reserved with a fixed 8 KiB, not with the limit",
     "edits": [("dropshot/src/extractor/body.rs", "            .try_fold(BytesMut::new(), |mut out, chunk| {", "            .try_fold(BytesMut::with_capacity(8192), |mut out, chunk| {")]},
    {"name": "buffer-presized-with-the-limit", "kind": "mutant", "expect": ["C11.R10"], "why": "with_capacity(cap) panics (capacity overflow) when the limit is usize::MAX: a body within the limit gets no response",
     "edits": [("dropshot/src/extractor/body.rs", "        self.into_stream()\n            .try_fold(BytesMut::new(), |mut out, chunk| {", "        let presized = BytesMut::with_capacity(self.cap);\n        self.into_stream()\n            .try_fold(presized, |mut out, chunk| {")]},
]
