"""C10 — invalid input is refused with a 4xx before any handler runs."""
import json
import re

from .lib import (PLUMBING, callee_allow, callers, closure_args_of_call, const_int, http_error_ctors_on_error_path, operand_local, result_split, status_const_of_ctor, try_edges)
from .lib_c10 import (HANDLER_CALL, MEMBER_FROM_REQUEST, TOP_FROM_REQUEST, census_owners, closure_site, extraction_region, generic_route_handler, impl_fns,
                      load_panic_table, norm_id, panic_sites, result_guards, tuple_arity, upvar_fields, upvar_origin, upvar_params,
                      compatible, edge_variant_sets, path_states)

LEVEL = "other"
TECHNIQUE = ("static analysis: edge dominance of the handler call by the extractor's Ok edge, error-preserving chain over the tuple extractors, "
             "who-constructs census of HttpError and a panic-site census over the call-graph region between route lookup and the handler, "
             "16-cell evaluation of the content-type gate from path conditions (what every path through the body loader learnt from switches on the two discriminants, `matches!` guards "
             "and eq-tests, which parser it went through, whether it returns Ok or Err), on the normalised view")
LEVEL_TEXT = ("Decides on the type-checked MIR of the current tree: (R1) the only call of a handler function (HttpHandlerFunc::handle_request) in the crate is dominated by the "
              "Continue edge of `?` on RequestExtractor::from_request's result, receives that edge's payload, and the Break edge reaches no handler call; "
              "(R2) every tuple impl of RequestExtractor calls exactly one member from_request per tuple position with this invocation's rqctx/request and its "
              "returned Result derives from all of them through error-preserving combinators only (`?`, or a futures try_join! body whose Ok is dominated by "
              "the not-is_err edge of every member); (R3) in the call-graph region that runs between route lookup and the handler (all from_request impls, path/query/body "
              "decode helpers, the crate's serde Deserializer/…Access impls, page-token decoding, the generic RouteHandler) every HttpError is built by a "
              "ClientErrorStatusCode-typed constructor with an evaluated 4xx constant — never for_internal_error / for_unavail / for_not_found / a struct literal; "
              "(R4) every potential panic site in that region (panic!/unreachable!/unimplemented!/assert!, unwrap/expect family, Index calls, listed panicking std APIs, "
              "MIR Assert terminators; not `x[..]`, the full-range Index of a slice / array / str / String / Vec, which selects everything) is on a reviewed table with a reason, keyed by (enclosing named function — closures and async bodies count for the function they are written in —, kind, callee) with multiplicity; (R5) for all 16 pairs of "
              "(endpoint's expected body content type, request's content type) the typed-body decoder is reached iff the pair is (Json,Json) or (UrlEncoded,UrlEncoded), "
              "each with its own parser (every Ok return of such a pair went through that parser and a TypedBody literal), and every path compatible with any other pair returns Err without reaching a parser. "
              "Not decided: what serde / serde_json / serde_urlencoded / derived Deserialize impls do with each malformed value (third-party; trusted to return Err), "
              "panics inside third-party callees, and hyper's delivery of the response.")
LEVEL_NOTE = ("Trusts rustc MIR construction and const evaluation, the fact extractor, the engine's dominators/slices, futures::try_join!'s expansion as analysed, "
              "serde's contract that Deserializer methods are selected by the Rust type being deserialised, registration's scalar-type check on path/query parameters "
              "(C02.R5: the nine from_map stub lines of the table are unreachable for an accepted endpoint whose JsonSchema describes its Deserialize impl), and the reviewed table tables/c10_panics.txt.")
EXPLANATION = ("Static rules over MIR facts of the current /repo tree: DOM (handler call dominated by the extractor's Continue edge; payload identity by slice), "
               "CHAIN (tuple extractor result derives from every member result through an allow-list of error-preserving operations; try_join! closure checked by "
               "dominance of its Ok aggregate by each member's not-is_err edge), WHO-CONSTRUCTS census of HttpError constructor calls and aggregates over the "
               "crate-local call-graph closure of the extraction entry points (class-hierarchy resolution restricted to traits defined in the crate), CENSUS of potential "
               "panic sites in the same region against tables/c10_panics.txt, and a finite evaluation of the content-type gate: for each of the 4x4 variant pairs the CFG of "
               "http_request_load_body (normalised view: combinators desugared, helpers inlined) is explored path-sensitively; each path carries the facts established by switches / guards / eq-comparisons on the two "
               "discriminants, the known variants of Result values (so an Err value consumed by a later `.map` / `?` stays a refusal), the parser sites passed and the variant returned; each cell is compared with the specification over the paths it is compatible with.")
TRUSTED = ["rustc nightly MIR construction + const evaluation", "mirfacts extractor", "rules/engine.py dominators, pruning and slices",
           "futures-util try_join! expansion (MaybeDone::take_output is only unwrapped after poll returned Ready)",
           "serde: Deserializer::deserialize_<kind> is chosen by the target Rust type, VariantAccess methods by the variant the input names",
           "C02.R5 (registration rejects path/query parameters whose schema is not scalar) — used by nine lines of tables/c10_panics.txt",
           "third-party decoders (serde_json, serde_urlencoded, serde_path_to_error, multer::parse_boundary, base64) return Err rather than panic on malformed input",
           "tables/c10_panics.txt (one reviewed reason per line)"]

CLIENT_CTORS = r"^error::HttpError::(for_bad_request|for_client_error|for_client_error_with_status)$"
ANY_CTOR = r"^error::HttpError::for_\w+$"


# ------------------------------------------------------------------------------------------------ R1
def r1_short_circuit(ctx):
    R = ctx.rule("C10.R1", "the single call of HttpHandlerFunc::handle_request is dominated by the Continue edge of `?` on RequestExtractor::from_request(&rqctx, request).await, "
                 "its parameter tuple is that edge's payload, and the Break edge reaches no handler call", floor=10)
    ds = ctx.ds
    sites = callers(ds, HANDLER_CALL)
    top, hb = generic_route_handler(ctx, R)
    ctx.check(R, "single-handler-call-site", len(sites) == 1 and hb is not None and sites[0][0] is hb,
              "HttpHandlerFunc::handle_request is called from: %s (want exactly the generic RouteHandler impl)" % sorted(set(f.id for f, _, _ in sites)), hb)
    if hb is None or len(sites) != 1:
        return
    _, hbb, ht = sites[0]
    ex = hb.live_calls(TOP_FROM_REQUEST)
    all_ex = callers(ds, TOP_FROM_REQUEST)
    ctx.check(R, "single-extraction-site", len(ex) == 1 and len(all_ex) == 1,
              "RequestExtractor::from_request call sites: %d in the generic handler, %d in the crate" % (len(ex), len(all_ex)), hb)
    if len(ex) != 1:
        return
    ebb, et = ex[0]
    # arguments of from_request: this invocation's rqctx and request (parent params 2 and 3)
    p0 = upvar_params(ds, hb, hb.slice(et["args"][0]))
    p1 = upvar_params(ds, hb, hb.slice(et["args"][1]))
    names = {n: [p["l"] for p in pls if not p["p"]] for n, pls in top.names.items()}
    rq = names.get("rqctx", [2])
    rqst = names.get("request", [3])
    ctx.check(R, "extractor-sees-this-request", p0 == set(rq) and p1 == set(rqst) and not callee_allow(hb.slice(et["args"][0]), PLUMBING)
              and not callee_allow(hb.slice(et["args"][1]), PLUMBING),
              "from_request(arg0 <- handle_request params %s, arg1 <- params %s); want rqctx=%s, request=%s" % (sorted(p0 or []), sorted(p1 or []), rq, rqst), (hb, ebb))
    # the test of the extractor's Result: `?`, or any match / if-let on it
    chain = PLUMBING + [TOP_FROM_REQUEST, r"Result::<T, E>::map_err$"]
    guards = result_guards(hb, ebb, TOP_FROM_REQUEST, chain)
    doms = [g for g in guards if hb.edge_dominates(g["switch_bb"], g["ok"], hbb)]
    ctx.check(R, "handler-dominated-by-extractor-ok", bool(doms),
              "handler call is%s dominated by the Ok/Continue edge of a test of from_request(..).await's Result (%d tests of that Result found)" % ("" if doms else " NOT", len(guards)), (hb, hbb))
    if not doms:
        return
    g = doms[0]
    ts = g["slice"]
    # map_err must only convert the error type (From::from), never rebuild it
    okm = True
    dm = "no map_err"
    for c, mbb, mt in ts.calls(r"Result::<T, E>::map_err$"):
        a = mt["args"][1]
        if a.get("k") == "const" and a.get("fn"):
            okm = okm and a["fn"].endswith("convert::From::from")
            dm = "map_err(%s)" % a["fn"]
        else:
            cl = closure_args_of_call(hb, mt)
            if not cl:
                okm, dm = False, "map_err argument is neither a fn item nor a closure"
            for h, node in cl:
                rs = h.slice({"l": 0, "p": []})
                badc = callee_allow(rs, PLUMBING)
                okm = okm and not badc and rs.params() == [2]
                dm = "map_err closure: params %s, callees %s" % (rs.params(), sorted(set(b[0] for b in badc)))
    ctx.check(R, "extractor-error-only-converted", okm, dm, (hb, g["switch_bb"]))
    reach = hb.reachable(g["err"]) if g["err"] else set()
    ctx.check(R, "extractor-error-runs-no-handler", hbb not in reach and bool(g["err"]), "the Err/Break edge of the test reaches the handler call: %s" % (hbb in reach), (hb, g["switch_bb"]))
    # the error edge returns the extractor's error (converted), not a fresh one
    ctors = [bb for bb, t in hb.live_calls(ANY_CTOR)] + [b for b, _, s in hb.aggregates(r"^error::HttpError$")]
    ctx.check(R, "generic-handler-builds-no-error", not ctors, "HttpError constructor calls / literals in the generic handler: %d" % len(ctors), hb)
    # (a handler call moved into a private helper is inlined here by the engine; its arguments then travel through the helper's
    # parameters / captured environment, which the slices follow field by field)
    ps = hb.slice(ht["args"][2])
    badp = callee_allow(ps, chain)
    lits = [a for a in ps.atoms if a[0] in ("lit", "const")]
    ctx.check(R, "handler-params-are-the-extracted-value", bool(ps.calls(TOP_FROM_REQUEST)) and not badp and not lits,
              "params argument: derives from from_request's result=%s, other callees=%s, constants=%d" % (bool(ps.calls(TOP_FROM_REQUEST)), sorted(set(b[0] for b in badp)), len(lits)), (hb, hbb))
    rs = hb.slice(ht["args"][1])
    pr = upvar_params(ds, hb, rs)
    ctx.check(R, "handler-gets-the-same-rqctx", pr == set(rq) and not callee_allow(rs, PLUMBING),
              "rqctx argument of the handler call comes from handle_request params %s (want %s)" % (sorted(pr or []), rq), (hb, hbb))
    hs = hb.slice(ht["args"][0])
    ctx.check(R, "handler-is-the-registered-function", hs.reads_field("handler") and upvar_params(ds, hb, hs) == {1} and not callee_allow(hs, PLUMBING),
              "receiver of the handler call is self.handler: %s" % hs.reads_field("handler"), (hb, hbb))


# ------------------------------------------------------------------------------------------------ R2
CHAIN_OK = PLUMBING + [MEMBER_FROM_REQUEST, r"futures::future::maybe_done$", r"futures::future::poll_fn$", r"futures_util::future::(maybe_done|poll_fn)"]
JOIN_BODY_OK = PLUMBING + [r"MaybeDone::<Fut>::(output_mut|take_output)$", r"Option::<T>::unwrap$", r"Result::<T, E>::(is_err|err|ok)$", r"Poll::<T>::is_pending$"]


def _flag_cleared_blocks(fn, site):
    """Blocks that assign `false` to a bool flag whose `true` edge dominates `site`
    (the flag's only definitions are literal true/false assignments)."""
    out = set()
    for sbb, st in fn.switches():
        info = fn.switch_on(sbb)
        if info["kind"] != "bool":
            continue
        tb, fb = fn.bool_edges(sbb)
        if tb is None or not fn.edge_dominates(sbb, tb, site):
            continue
        l = operand_local(st["discr"])
        for _ in range(3):
            dd = fn.defs().get(l, [])
            if len(dd) == 1 and dd[0][1] == "assign" and dd[0][2]["rv"]["rv"] == "use" and operand_local(dd[0][2]["rv"]["op"]) is not None:
                l = operand_local(dd[0][2]["rv"]["op"])
            else:
                break
        dd = fn.defs().get(l, [])
        vals = []
        for bb, kind, node in dd:
            v = const_int(node["rv"]["op"]) if kind == "assign" and node["rv"]["rv"] == "use" and not node["pl"]["p"] else None
            vals.append((bb, v))
        if dd and all(v in (0, 1) for _, v in vals):
            out |= set(bb for bb, v in vals if v == 0)
    return out


def _check_try_join(ctx, R, key, body, cl, members):
    """cl: closure passed to poll_fn inside `body`.  Its Ok(..) must be dominated by the
    not-is_err edge of every captured member future; each captured field is one member call."""
    ds = ctx.dsn
    n = len(members)
    par, st = closure_site(ds, cl)
    caps = len(st["rv"]["ops"]) if st else -1
    # captured field k  ->  member call block in the parent
    fld_member = {}
    for k in range(max(caps, 0)):
        p, ps = upvar_origin(ds, cl, k)
        blocks = set(b for _, b, _ in ps.calls(MEMBER_FROM_REQUEST)) if ps is not None else set()
        bad = callee_allow(ps, CHAIN_OK) if ps is not None else [("?", 0)]
        if len(blocks) == 1 and not bad:
            fld_member[k] = list(blocks)[0]
    ok_caps = caps == n and sorted(fld_member.values()) == sorted(b for b, _ in members)
    ctx.check(R, key + ":join-captures-every-member", ok_caps,
              "the joined closure captures %d futures mapping to member calls %s (want one per member: %d)" % (caps, sorted(fld_member.values()), n), (body, 0))
    # is_err tests, one per field
    tests = {}
    for bb, t in cl.live_calls(r"Result::<T, E>::is_err$"):
        s = cl.slice(t["args"][0])
        fl = upvar_fields(s)
        if len(fl) == 1 and not callee_allow(s, JOIN_BODY_OK):
            for sbb, stt in cl.switches():
                if operand_local(stt["discr"]) == t["dest"]["l"]:
                    tests.setdefault(list(fl)[0], []).append((sbb, cl.bool_edges(sbb)))
    oks = [(b, s) for b, i, s in cl.aggregates(r"^std::result::Result$", "Ok") if b in cl.reachable(0)]
    good = bool(oks)
    detail = []
    for b, s in oks:
        # try_join! keeps an `all done` flag: Ok is built on the flag's true edge, and the flag is cleared on every
        # path that skipped a member's is_err test (member still pending).  Paths through a clearing block cannot
        # take the true edge, so they are excluded before asking for dominance.
        avoid = _flag_cleared_blocks(cl, b)
        for k in range(n):
            g = any(fb is not None and b not in cl.reachable(0, avoid=avoid, avoid_edges=[(sbb, fb)]) for sbb, (tb, fb) in tests.get(k, []))
            good = good and g
            detail.append("member %d: Ok %s guarded" % (k, "is" if g else "NOT"))
        # the Ok payload takes its i-th component from the i-th future
        sl = cl.slice(s["rv"]["ops"][0])
        good = good and upvar_fields(sl) == set(range(n)) and not callee_allow(sl, JOIN_BODY_OK)
    ctx.check(R, key + ":ok-only-if-no-member-erred", good and len(oks) == 1,
              "%d Ok(..) in the joined closure; %s" % (len(oks), "; ".join(detail)), (cl, oks[0][0]) if oks else cl)
    # every Err returned is a member's own error
    errs = [(b, s) for b, i, s in cl.aggregates(r"^std::result::Result$", "Err") if b in cl.reachable(0)]
    goode = len(errs) >= n
    for b, s in errs:
        sl = cl.slice(s["rv"]["ops"][0])
        goode = goode and len(upvar_fields(sl)) == 1 and not callee_allow(sl, JOIN_BODY_OK) and not [a for a in sl.atoms if a[0] in ("lit", "const")]
    ctx.check(R, key + ":errors-are-member-errors", goode, "%d Err(..) sites, each carrying exactly one member's error unchanged: %s" % (len(errs), goode), cl)


def r2_tuples(ctx):
    R = ctx.rule("C10.R2", "each tuple impl of RequestExtractor calls one member from_request per position with this invocation's rqctx/request, and the Result it returns "
                 "derives from every member's result through error-preserving operations only (no member error is dropped or replaced)", floor=21)
    ds = ctx.dsn
    impls = impl_fns(ds, r"^extractor::common::RequestExtractor$", "from_request")
    ctx.check(R, "tuple-impls", len(impls) >= 4, "RequestExtractor is implemented for %s" % [i["self"] for i, _ in impls], None, nontrivial=False)
    for i, top in impls:
        n = tuple_arity(i["self"])
        key = "arity-%s" % n
        if n is None:
            ctx.check(R, "non-tuple-impl:%s" % i["self"], False, "RequestExtractor implemented for a non-tuple type", top)
            continue
        body = ds.body_of(top)
        fns = [body] + ds.descendants(body)
        members = []
        for g in fns:
            for bb, t in g.live_calls(MEMBER_FROM_REQUEST):
                members.append((g, bb, t))
        in_body = [(bb, t) for g, bb, t in members if g is body]
        ctx.check(R, key + ":one-call-per-member", len(members) == n and len(in_body) == n,
                  "%d member from_request calls for a %d-tuple" % (len(members), n), top)
        if n == 0:
            # () : returns Ok(()) unconditionally, nothing to refuse
            oks = [b for b, _, s in body.aggregates(r"^std::result::Result$", "Ok") if b in body.reachable(0)]
            ctx.check(R, key + ":unit-always-ok", len(oks) >= 1 and not body.live_calls(ANY_CTOR), "() extracts nothing and cannot fail", top, nontrivial=False)
            continue
        names = {nm: [p["l"] for p in pls if not p["p"]] for nm, pls in top.names.items()}
        rq, rqst = set(names.get("rqctx", [1])), set(names.get("request", [2]))
        nexcl = 0
        for bb, t in in_body:
            a0 = upvar_params(ds, body, body.slice(t["args"][0]))
            ok = a0 == rq and not callee_allow(body.slice(t["args"][0]), PLUMBING)
            d = "rqctx <- params %s" % sorted(a0 or [])
            if len(t["args"]) > 1:
                nexcl += 1
                a1 = upvar_params(ds, body, body.slice(t["args"][1]))
                ok = ok and a1 == rqst and not callee_allow(body.slice(t["args"][1]), PLUMBING)
                d += ", request <- params %s" % sorted(a1 or [])
            ctx.check(R, key + ":member-sees-this-request:%s" % t["callee"].split("::")[-2], ok, d, (body, bb))
        ctx.check(R, key + ":one-exclusive-member", nexcl == 1, "%d members take the request itself" % nexcl, top)
        # the returned value derives from every member through allowed operations
        rs = body.slice({"l": 0, "p": []})
        reached = set(b for _, b, _ in rs.calls(MEMBER_FROM_REQUEST))
        bad = callee_allow(rs, CHAIN_OK)
        lits = [a for a in rs.atoms if a[0] in ("lit", "const") and a[1] not in ("null",) and not (a[0] == "lit" and a[1] in ('{"zst": true}', "null"))]
        ctx.check(R, key + ":result-derives-from-every-member", reached == set(bb for bb, _ in in_body) and not bad,
                  "returned Result reaches %d of %d member results; callees off the error-preserving list: %s" % (len(reached), n, sorted(set(b[0] for b in bad))), top)
        joins = [(bb, t) for bb, t in body.live_calls(r"future::poll_fn$")]
        if joins:
            for bb, t in joins:
                cls = closure_args_of_call(body, t)
                if len(cls) != 1:
                    ctx.lost(R, key + ": closure passed to poll_fn")
                    continue
                _check_try_join(ctx, R, key, body, cls[0][0], in_body)
        else:
            # sequential form: every member result is tested (`?` / match) and the Ok edge dominates every Ok(tuple)
            oks = [(b, s) for b, _, s in body.aggregates(r"^std::result::Result$", "Ok") if b in body.reachable(0)]
            good = bool(oks)
            for mbb, mt in in_body:
                gs = result_guards(body, mbb, MEMBER_FROM_REQUEST, CHAIN_OK)
                good = good and any(all(body.edge_dominates(g["switch_bb"], g["ok"], b) for b, _ in oks) for g in gs)
            ctx.check(R, key + ":ok-only-if-no-member-erred", good, "Ok(tuple) dominated by the Ok/Continue edge of a test of every member result: %s" % good, top)


# ------------------------------------------------------------------------------------------------ R3
def r3_error_class(ctx):
    R = ctx.rule("C10.R3", "every HttpError built in the extraction region comes from for_bad_request / for_client_error* (status typed ClientErrorStatusCode, evaluated 4xx); "
                 "never for_internal_error, for_unavail, for_not_found or a struct literal", floor=15)
    ds = ctx.ds
    info = extraction_region(ctx, R)
    reg = info["region"]
    ctx.check(R, "region-size", len(reg) >= 100 and info["from_request_impls"] >= 12 and info["serde_side_fns"] >= 30,
              "region: %d functions from %d from_request impls, %d serde deserializer-side fns" % (len(reg), info["from_request_impls"], info["serde_side_fns"]), None, nontrivial=False)
    s400 = status_const_of_ctor(ds, "for_bad_request")
    ctx.check(R, "for_bad_request-is-400", s400 == {400}, "status constants in for_bad_request: %s" % sorted(s400 or []), ds.one(r"^error::HttpError::for_bad_request$"))
    n = 0
    for fid in sorted(reg):
        f = ds.F[fid]
        for bb, t in f.live_calls(ANY_CTOR):
            n += 1
            c = t["callee"]
            ok = bool(re.search(CLIENT_CTORS, c))
            detail = c
            if ok and not c.endswith("for_bad_request"):
                # status operand: an evaluated 4xx constant, or the caller's own ClientErrorStatusCode parameter
                st = t["args"][1]
                v = st.get("val", {}).get("int") if st.get("k") == "const" and st.get("val") else None
                if v is None:
                    sl = f.slice(st)
                    vals = [a for a in sl.atoms if a[0] == "const"]
                    ints = []
                    for a in vals:
                        try:
                            d = json.loads(a[2])
                            if isinstance(d, dict) and "int" in d:
                                ints.append(d["int"])
                        except Exception:
                            pass
                    ptypes = [f.local_ty(p) for p in sl.params()]
                    ok = (bool(ints) and all(400 <= x < 500 for x in ints) and not ptypes) or (not ints and ptypes and all("ClientErrorStatusCode" in x for x in ptypes))
                    detail += " status=%s params=%s" % (ints, ptypes)
                else:
                    ok = 400 <= v < 500
                    detail += " status=%s" % v
            ctx.check(R, "ctor-call:%s->%s" % (norm_id(fid), c.split("::")[-1]), ok, "HttpError constructor in the extraction region: %s" % detail, (f, bb))
        for b, i, st in f.aggregates(r"^error::HttpError$"):
            if b not in f.reachable(0):
                continue
            n += 1
            # a struct literal is only acceptable inside a constructor whose status parameter is ClientErrorStatusCode
            sl = f.slice(st["rv"]["ops"][0]) if st["rv"]["ops"] else None
            fields = ds.adt_fields("error::HttpError") or []
            idx = [k for k, fd in enumerate(fields) if fd.get("name") == "status_code"]
            ok = False
            detail = "no status_code field found"
            if idx and idx[0] < len(st["rv"]["ops"]):
                ss = f.slice(st["rv"]["ops"][idx[0]])
                ptypes = [f.local_ty(p) for p in ss.params()]
                consts = [a for a in ss.atoms if a[0] in ("const", "lit")]
                ok = bool(ptypes) and all("ClientErrorStatusCode" in x for x in ptypes) and not consts and f.raw["kind"] != "Closure"
                detail = "status_code <- params typed %s, constants %d" % (ptypes, len(consts))
            ctx.check(R, "literal:%s" % norm_id(fid), ok, "HttpError struct literal in the extraction region: %s" % detail, (f, b))
    ctx.notes["httperror_sites_in_region"] = n
    # the two content-type failure sites exist and are client errors
    lb = ds.one(r"^extractor::body::http_request_load_body$")
    if lb is None:
        ctx.lost(R, "http_request_load_body")
        return
    body = ds.body_of(lb)
    fm = body.live_calls(r"ApiEndpointBodyContentType::from_mime_type$")
    okm = False
    how = "no test of from_mime_type's Result found"
    for bb, t in fm:
        # whatever the idiom (`.map_err(..)?`, match + early return, let-else): the Err case of from_mime_type's Result
        # produces for_bad_request and nothing else, and does not go on to decode the body
        sp = result_split(body, t["dest"]["l"])
        if sp is None:
            continue
        names = http_error_ctors_on_error_path(body, sp)
        decodes = set(b for b, _ in body.live_calls(JSON_PARSER + "|" + URL_PARSER))
        on = decodes & (body.reachable(sp["err"]) if sp["err"] is not None else set())
        okm = names == {"error::HttpError::for_bad_request"} and not on
        how = "Err case (%s) builds %s; body parsers reachable from it: %d" % ("/".join(sp["via"]), sorted(names), len(on))
    ctx.check(R, "unknown-mime-type-is-400", okm and len(fm) == 1, "from_mime_type's Err is answered with for_bad_request: %s (%s)" % (okm, how), body)


# ------------------------------------------------------------------------------------------------ R4
def _full_range_index(f, bb):
    """The Index call in block bb is `x[..]` on a core sequence type (Index<RangeFull> for [T] / [T; N] / str / String / Vec<T>)."""
    t = f.blocks[bb]["term"]
    ga = t.get("gargs") or []
    return t.get("t") == "call" and re.search(r"ops::Index::index$", t.get("callee") or "") is not None and len(ga) == 2 and ga[1] == "std::ops::RangeFull" \
        and re.match(r"^(\[.*\]|str|std::string::String|std::vec::Vec<.*>)$", ga[0]) is not None


def r4_panic_census(ctx):
    R = ctx.rule("C10.R4", "every potential panic site in the extraction region (explicit panics, unwrap/expect, indexing, listed panicking APIs, MIR Assert terminators) "
                 "is on tables/c10_panics.txt with a reason; key = (enclosing named function, kind, callee-or-assert-kind) with multiplicity", floor=8)
    ds = ctx.ds
    info = extraction_region(ctx, R)
    table, bad = load_panic_table()
    if table is None:
        ctx.lost(R, "tables/c10_panics.txt")
        return
    for b in bad:
        ctx.check(R, "table-format:%s" % b, False, b, None, nontrivial=False)
    seen = {}
    where = {}
    for fid in sorted(info["region"]):
        f = ds.F[fid]
        foreign_body = f.raw["span"].startswith("/")
        owners = census_owners(ds, f)
        for kind, what, exp, bb in panic_sites(f):
            if kind == "index" and _full_range_index(f, bb):
                continue    # `x[..]`: the full range of a slice / array / str / String / Vec selects everything and cannot be out of bounds
            for o in owners:
                k = (norm_id(o), "foreign-macro" if (foreign_body and exp) else kind, what)
                seen[k] = seen.get(k, 0) + 1
                where.setdefault(k, (f, bb))
    nfn = len(info["region"])
    for k in sorted(seen):
        fid, kind, what = k
        have = seen[k]
        ent = table.get(k)
        if ent is None:
            ok, detail = False, "%d site(s), not on the table" % have
        else:
            cnt, reason = ent
            if cnt is None and kind != "foreign-macro":
                ok, detail = False, "`*` multiplicity is only accepted for foreign-macro bodies"
            else:
                ok = cnt is None or have <= cnt
                detail = "%d site(s), table allows %s — %s" % (have, "any" if cnt is None else cnt, reason)
        ctx.check(R, "panic-site:%s|%s|%s" % k, ok, "potential panic before the handler runs: %s %s in %s: %s" % (kind, what, fid, detail), where[k])
    stale = [k for k in table if k not in seen]
    ctx.notes["panic_census"] = {"region_functions": nfn, "distinct_keys": len(seen), "sites": sum(seen.values()), "stale_table_lines": ["|".join(k) for k in stale]}


# ------------------------------------------------------------------------------------------------ R5
JSON_PARSER = r"serde_json::(Deserializer::<.*>::from_slice|from_slice|de::from_slice|from_reader|from_str)$"
URL_PARSER = r"form_urlencoded::parse$|serde_urlencoded::(from_bytes|from_str|from_reader)$"


def r5_content_type_gate(ctx):
    """The content-type gate as a decision table, read off path conditions (lib_c10.path_states) on the normalised view:
    every path through http_request_load_body carries what it learnt about the two content types — from switches on
    their discriminants (a tuple match, nested matches, a match on a borrow, `matches!` guards, if-let), from eq / ne
    tests between them or against a constant variant (also through `!`, named flags, `mem::discriminant`) — which
    parser sites it went through and whether it returns Ok or Err.  A cell (expected, requested) is compatible with a
    path when no fact of the path excludes it.  How the tests are nested, ordered, merged or spread over (inlined)
    helpers, and whether the refusal is `return Err(..)` or an Err value consumed by a later `.map` / `?`, is irrelevant."""
    R = ctx.rule("C10.R5", "for every pair (endpoint's expected content type, request's content type) a TypedBody is built only for (Json,Json) via the JSON parser and "
                 "(UrlEncoded,UrlEncoded) via the urlencoded parser; every other pair returns an error", floor=21)
    ds = ctx.dsn
    top = ctx.need_fn(ds, R, r"^extractor::body::http_request_load_body$")
    f = ds.body_of(top)
    CT = "api_description::ApiEndpointBodyContentType"
    adt = ds.adts.get(CT)
    if not adt:
        ctx.lost(R, "enum ApiEndpointBodyContentType")
        return
    variants = [v["name"] for v in adt["variants"]]
    ctx.check(R, "variants", set(variants) >= {"Json", "UrlEncoded"} and len(variants) == 4, "ApiEndpointBodyContentType variants: %s" % variants, None, nontrivial=False)

    def role(pl_or_op):
        sl = f.slice(pl_or_op)
        e = sl.reads_field("body_content_type")
        r = sl.has_call(r"ApiEndpointBodyContentType::from_mime_type$")
        if e and not r:
            return "expected"
        if r and not e:
            return "requested"
        if not e and not r and not sl.callees and not sl.params():
            vs = set(a[2] for a in sl.atoms if a[0] == "agg" and a[1] == CT)
            if len(vs) == 1 and not [a for a in sl.atoms if a[0] == "agg" and a[1] != CT]:
                return ("variant", list(vs)[0])
        return None

    # what each switch / comparison says about the two content types
    switch_facts, atom_facts = {}, {}
    for sbb, st in f.switches():
        info = f.switch_on(sbb)
        if info["kind"] == "discr" and info.get("adt") == CT:
            ro = role(info["place"])
            if ro in ("expected", "requested"):
                switch_facts[sbb] = [(ro, edge_variant_sets(f, sbb, info))]
    for cbb, ct in f.live_calls(r"cmp::PartialEq::(eq|ne)$"):
        if len(ct["args"]) != 2:
            continue
        ra, rb = role(ct["args"][0]), role(ct["args"][1])
        yes, no = frozenset(["yes"]), frozenset(["no"])
        if {ra, rb} == {"expected", "requested"}:
            tv, fv, dim = yes, no, "same"
        elif isinstance(ra, str) and isinstance(rb, tuple) or isinstance(rb, str) and isinstance(ra, tuple):
            dim, var = (ra, rb[1]) if isinstance(ra, str) else (rb, ra[1])
            tv, fv = frozenset([var]), frozenset(variants) - {var}
        else:
            continue
        atom_facts[cbb] = (dim, fv, tv) if ct["callee"].endswith("::ne") else (dim, tv, fv)
    ngates = len(switch_facts) + len(atom_facts)
    ctx.check(R, "gate-found", any(d == "expected" for v in switch_facts.values() for d, _ in v) or any(v[0] in ("same", "expected") for v in atom_facts.values()),
              "%d switches/comparisons on the expected/requested content-type discriminants" % ngates, f)
    json_sites = set(bb for bb, t in f.live_calls(JSON_PARSER))
    url_sites = set(bb for bb, t in f.live_calls(URL_PARSER))
    typed = set(b for b, i, s in f.aggregates(r"^extractor::body::TypedBody$") if b in f.reachable(0))
    ctx.check(R, "sites-found", len(json_sites) == 1 and len(url_sites) == 1 and len(typed) >= 1,
              "JSON parser sites %d, urlencoded parser sites %d, TypedBody literals %d" % (len(json_sites), len(url_sites), len(typed)), f)
    # parsers consume the body bytes
    for nm, sites in (("json", json_sites), ("urlencoded", url_sites)):
        for bb in sites:
            t = f.blocks[bb]["term"]
            sl = f.slice(t["args"][0])
            ctx.check(R, "parser-input-is-the-body:%s" % nm, sl.has_call(r"StreamingBody::into_bytes_mut$"), "parser argument derives from the buffered request body", (f, bb))
    marks = {}
    for bb in json_sites:
        marks[bb] = "json"
    for bb in url_sites:
        marks[bb] = "urlencoded"
    for bb in typed:
        marks.setdefault(bb, "typed-body")
    states = path_states(f, 0, switch_facts=switch_facts, atom_facts=atom_facts, marks=marks)
    if states is None:
        ctx.lost(R, "path conditions of http_request_load_body (state budget exceeded)")
        return
    ctx.notes["content_type_gate"] = {"path_classes": len(states), "fact_sources": ngates}
    for en in variants:
        for rn in variants:
            cell = {"expected": en, "requested": rn, "same": "yes" if en == rn else "no"}
            here = [s for s in states if compatible(s["facts"], cell)]
            gj = any("json" in s["marks"] for s in here)
            gu = any("urlencoded" in s["marks"] for s in here)
            accepted = [s for s in here if s["kind"] == "return" and s["result"] != "Err"]
            gok = bool(accepted)
            wj = en == rn == "Json"
            wu = en == rn == "UrlEncoded"
            wok = wj or wu
            ok = (gj, gu, gok) == (wj, wu, wok)
            detail = "code: json-parser=%s urlencoded-parser=%s returns-Ok=%s; spec: %s %s %s" % (gj, gu, gok, wj, wu, wok)
            if ok and wok:
                want = {"json" if wj else "urlencoded", "typed-body"}
                stray = [s for s in accepted if not want <= s["marks"]]
                ok = not stray
                detail += "; every Ok return went through the %s parser and a TypedBody literal: %s" % ("JSON" if wj else "urlencoded", not stray)
            site = f
            if not ok and gok and not wok:
                site = (f, accepted[0]["bb"])
            ctx.check(R, "cell:expected=%s,requested=%s" % (en, rn), ok, detail, site)


def r6_one_step_decode(ctx):
    """Added after adversary change C10-B (JSON body parsed into serde_json::Value first, which keeps only the
    last of a repeated key, then mapped onto the type: the derived `duplicate field` refusal can no longer fire)."""
    R = ctx.rule("C10.R6", "a typed body is decoded in ONE step from the raw body bytes straight into the endpoint's declared type: the deserializer handed to the typed decode is a "
                 "serde_json / serde_urlencoded deserializer over the body bytes, never an intermediate dynamically typed value (serde_json::Value, a map) that has already merged duplicate keys", floor=4)
    top = ctx.need_fn(ctx.ds, R, r"^extractor::body::http_request_load_body$")
    f = ctx.ds.body_of(top)
    import re as _re
    # the typed decodes are found by data flow, not by the name of a generic parameter: every decode call whose result
    # flows into the payload of a TypedBody literal (in the body or in a closure it maps over the decode result)
    DECODE = r"serde_path_to_error::deserialize$|^serde_json::from_(slice|str|reader)$|^serde_json::from_value$|serde::Deserialize::deserialize$|^serde_urlencoded::from_(bytes|str|reader)$"
    payloads = [f.slice(st["rv"]["ops"][0]) for b, i, st in f.aggregates(r"^extractor::body::TypedBody$") if b in f.reachable(0)]
    for h in ctx.ds.children(f):
        if any(True for _ in h.aggregates(r"^extractor::body::TypedBody$")):
            payloads += [f.slice(t["args"][0]) for bb, t in f.live_calls(r"Result::<T, E>::map$") if any(g is h for g, _ in closure_args_of_call(f, t))]
    if not payloads:
        ctx.lost(R, "TypedBody literal fed by http_request_load_body")
    seen_bb = set()
    decodes = []
    for sl in payloads:
        for c, bb, t in sl.calls(DECODE):
            if bb not in seen_bb and bb in f.reachable(0):
                seen_bb.add(bb)
                decodes.append((bb, t))
    ctx.check(R, "typed-decode-sites", len(decodes) == 2, "decode calls feeding the TypedBody payload: %d (want one JSON and one url-encoded, each a single step)" % len(decodes), f)
    allowed_src = {
        "json": r"^&('\{erased\} |'[a-z_]+ )?mut serde_json::Deserializer<serde_json::de::(SliceRead|StrRead)<",
        "urlencoded": r"^serde_urlencoded::Deserializer<",
    }
    for bb, t in decodes:
        callee = t["callee"]
        if callee.endswith("serde_path_to_error::deserialize") or callee.endswith("Deserialize::deserialize"):
            # the type of the deserializer actually handed to the decode
            al = operand_local(t["args"][0]) if t["args"] else None
            dty = f.local_ty(al) if al is not None else "?"
            kind = "json" if "serde_json" in dty else ("urlencoded" if "serde_urlencoded" in dty else "other")
            ok = kind in allowed_src and bool(_re.search(allowed_src[kind], dty))
            ctx.check(R, "decoder-source:%s" % (kind if ok else "other"), ok,
                      "typed decode reads from `%s` (%s)" % (dty, "a byte-level deserializer" if ok else "an intermediate value: duplicate keys / repeated fields were already merged before the declared type saw them"), (f, bb))
            if ok:
                s = f.slice(t["args"][0])
                src_ok = s.has_call(r"serde_json::Deserializer::<.*>::from_(slice|str)$|serde_urlencoded::Deserializer::<'de>::new$") and s.has_call(r"StreamingBody::into_bytes_mut$|into_bytes_mut")
                ctx.check(R, "decoder-over-body-bytes:%s" % kind, src_ok, "the deserializer is built over this request's body bytes: %s" % src_ok, (f, bb))
        elif "from_value" in callee:
            ctx.check(R, "decoder-source:other", False, "typed decode via serde_json::from_value: the body went through a serde_json::Value first", (f, bb))
        else:
            s = f.slice(t["args"][0])
            ctx.check(R, "decoder-source:direct", s.has_call(r"into_bytes_mut"), "direct %s over the body bytes" % callee, (f, bb))
    vals = [ty for ty in f.raw["locals"] if _re.search(r"serde_json::Value|serde_json::Map<", ty)]
    ctx.check(R, "no-dynamic-json-value", not vals, "locals of a dynamically typed JSON value in http_request_load_body: %s" % (sorted(set(vals))[:3] or "none"), f)


def r7_numeric_range(ctx):
    """Out-of-range numbers are refused because each deserialize_<T> parses the text as exactly T (no wider parse
    followed by a narrowing cast): the primitive table of C09.R2, re-evaluated here because its violation is a C10
    violation too (seeds C10-A, C09-A)."""
    from . import c09
    from .lib_c01 import Renamed
    c09.r2_primitive_table(Renamed(ctx, "C10.R7", "an out-of-range or ill-typed scalar is a parse error of the declared type, never a silently narrowed value"))



def r8_registration_guard_is_total(ctx):
    """The panic census (R4) allow-lists from_map's `unimplemented!` stubs because registration refuses every parameter type
    that could reach them; that guard is C02.R5b (the scalar check covers every alternative), re-evaluated here because
    its violation is a C10 violation too (seed C10-C: oneOf checked with `any` instead of `all`)."""
    from . import c02
    from .lib_c01 import Renamed
    c02.r5b_scalar_check_is_total(Renamed(ctx, "C10.R8", "no accepted path/query parameter type can reach a decoder stub that panics"))


def r9_unreadable_content_type_is_refused(ctx):
    """Added after adversary change C10-D (`hv.to_str().ok()` + `unwrap_or(JSON)`: a Content-Type header with non-ASCII bytes
    was treated as absent, i.e. as JSON, and the handler ran)."""
    from .lib import result_split, http_error_ctors_on_error_path
    R = ctx.rule("C10.R9", "the JSON default applies only when the Content-Type header is absent: an unreadable header value (to_str() fails) is refused with for_bad_request, never discarded", floor=3)
    top = ctx.need_fn(ctx.ds, R, r"^extractor::body::http_request_load_body$")
    f = ctx.ds.body_of(top)
    fns = [f] + ctx.ds.descendants(f)
    sites = [(g, bb, t) for g in fns for bb, t in g.live_calls(r"http::HeaderValue::to_str$")]
    ctx.check(R, "to_str-sites", len(sites) == 1, "HeaderValue::to_str call sites on the body path: %d" % len(sites), f)
    for g, bb, t in sites:
        dest = t["dest"]["l"]
        discarded = [c for bb2, t2 in g.live_calls(r"Result::<T, E>::(ok|unwrap_or|unwrap_or_default|unwrap_or_else|is_ok|is_err)$") if (t2["args"] and g.slice(t2["args"][0]).touches_local(dest)) for c in [t2["callee"]]]
        ctx.check(R, "to_str-error-not-discarded", not discarded, "the Result of to_str() is consumed by %s" % (discarded or "no error-discarding combinator"), (g, bb))
        # where does its Err go?  in the closure form: map_err(closure -> for_bad_request) inside Option::map, then `?` in the parent
        ret = g.slice({"l": 0, "p": []}) if g is not f else None
        names = set()
        sp = result_split(g, dest)
        if sp:
            names |= http_error_ctors_on_error_path(g, sp)
        for mbb, mt in g.live_calls(r"Result::<T, E>::map_err$"):
            if g.slice(mt["args"][0]).touches_local(dest):
                from .lib import closure_args_of_call
                for h, node in closure_args_of_call(g, mt):
                    names |= set(c for c in h.slice({"l": 0, "p": []}).callee_names() if c.startswith("error::HttpError::for_"))
        ctx.check(R, "to_str-error-is-400", names == {"error::HttpError::for_bad_request"}, "constructors producing the error of an unreadable header: %s" % (sorted(names) or "none"), (g, bb))
    # the JSON default constant is used only as the absent-header default (Option::unwrap_or / None arm), not for Err
    dflt = [(bb, t) for bb, t in f.live_calls(r"Option::<T>::(unwrap_or|unwrap_or_else|map_or|map_or_else)$") if any(a[0] == "const" and a[1].endswith("CONTENT_TYPE_JSON") for a in f.slice(t["args"][1 if not t["callee"].endswith(("map_or", "map_or_else")) else 1]).atoms)]
    ok = False
    for bb, t in dflt:
        rs = f.slice(t["args"][0])
        ok = rs.has_call(r"http::HeaderMap::<T>::get$") and not rs.has_call(r"Result::<T, E>::ok$|Option::<T>::and_then$|Option::<T>::filter$")
    ctx.check(R, "json-default-only-when-absent", ok or not dflt and bool(f.const_uses(r"CONTENT_TYPE_JSON$")),
              "the JSON default is the `None` case of headers.get(CONTENT_TYPE) with nothing (and_then / ok / filter) turning a present header into None: %s" % ok, f)



def r_frame_errors_are_errors(ctx):
    """C11.R7 (a failed body frame always becomes a for_bad_request error item), re-evaluated here because its violation is a
    violation of this property too (seed C18-D)."""
    from . import c11
    from .lib_c01 import Renamed
    c11.r7_frame_errors_are_errors(Renamed(ctx, "C10.R10", "a body with broken framing is refused with a 4xx before the handler runs"))


def r11_undecodable_path_is_refused(ctx):
    """`a path variable that cannot be decoded ... gets a 400 and the handler never runs`: the percent-decoding of a path segment is strict
    (decode_utf8, whose failure is the 400), not lossy.  This is C03.R1, re-evaluated here (adversary change C10-I: `decode_utf8_lossy`
    routed `/users/%ff` with U+FFFD in place of the bytes the client sent)."""
    from . import c03
    from .lib_c01 import Renamed
    c03.r1_decode_once(Renamed(ctx, "C10.R11", "a path segment whose percent-escapes do not spell UTF-8 is refused (strict decoding, whose error is the 400), never repaired"))


def r12_present_page_token_is_decoded(ctx):
    """`a query string that cannot be decoded into the endpoint's declared type gets a 400`: a `page_token` parameter that is present is
    decoded as a token, whatever its text; only an absent one selects the first page.  This is C14.R4, re-evaluated here (adversary
    change C10-J: an empty `page_token=` was filtered out before the test and silently restarted the scan)."""
    from . import c14
    from .lib_c01 import Renamed
    c14.r4_token_wins(Renamed(ctx, "C10.R12", "a page_token parameter that is present is decoded as a token (and refused if it is not one); only its absence selects the first page"), rid="C10.R12")


def r13_every_named_parameter_is_type_checked(ctx):
    """`an undecodable path variable or query string gets a 4xx, never a panic`: the flat-string decoder has no error path for non-scalar
    members (its stubs panic), so registration must have refused them -- for EVERY endpoint, published or not.  These are the parameter
    clauses of C02.R5, re-evaluated here (adversary change C10-K: validate_named_parameters returned Ok at once for unpublished endpoints,
    so `Path<(u32, u32)>` on a hidden endpoint panicked the connection task at request time)."""
    from . import c02
    from .lib_c01 import Renamed
    c02.r5_parameter_rules(Renamed(ctx, "C10.R13", "registration accepts an endpoint only after every path / query parameter passed the scalar (or string-array, for wildcards) type check, whatever the endpoint's visibility"))


RULES = [("C10.R13", r13_every_named_parameter_is_type_checked), ("C10.R12", r12_present_page_token_is_decoded), ("C10.R11", r11_undecodable_path_is_refused), ("C10.R10", r_frame_errors_are_errors), ("C10.R9", r9_unreadable_content_type_is_refused), ("C10.R8", r8_registration_guard_is_total), ("C10.R7", r7_numeric_range), ("C10.R6", r6_one_step_decode), ("C10.R1", r1_short_circuit), ("C10.R2", r2_tuples), ("C10.R3", r3_error_class), ("C10.R4", r4_panic_census), ("C10.R5", r5_content_type_gate)]

_LOAD_BODY_HV = """            hv.to_str().map_err(|e| {
                HttpError::for_bad_request(
                    None,
                    format!("invalid content type: {}", e),
                )
            })"""

_GENERIC_NOW = """        let funcparams = RequestExtractor::from_request(&rqctx, request)
            .await
            .map_err(<HandlerType::Error>::from)?;
        let future = self.handler.handle_request(rqctx, funcparams);
        future.await
    }
}
"""
_GENERIC_HELPER = """        let extracted: Result<FuncParams, HttpError> =
            RequestExtractor::from_request(&rqctx, request).await;
        let handler_args = match extracted {
            Ok(args) => args,
            Err(extract_error) => {
                let handler_error = <HandlerType::Error>::from(extract_error);
                return Err(HandlerError::from(handler_error));
            }
        };
        self.invoke_handler(rqctx, handler_args).await
    }
}
"""
_PUBLIC_IFACE = """
// Public interfaces
"""
_HELPER = """
impl<Context, HandlerType, FuncParams, ResponseType>
    HttpRouteHandler<Context, HandlerType, FuncParams, ResponseType>
where
    Context: ServerContext,
    HandlerType: HttpHandlerFunc<Context, FuncParams, ResponseType>,
    FuncParams: RequestExtractor + 'static,
    ResponseType: HttpResponse + Send + Sync + 'static,
{
    async fn invoke_handler(
        &self,
        rqctx: RequestContext<Context>,
        handler_args: FuncParams,
    ) -> Result<Response<Body>, HandlerError> {
        self.handler.handle_request(rqctx, handler_args).await
    }
}
"""

_DECODE_ARMS = """        (Json, Json) => {
            let jd = &mut serde_json::Deserializer::from_slice(&body);
            serde_path_to_error::deserialize(jd).map_err(|e| {
                HttpError::for_bad_request(
                    None,
                    format!("unable to parse JSON body: {}", e),
                )
            })?
        }
        (UrlEncoded, UrlEncoded) => {
            let ud = serde_urlencoded::Deserializer::new(
                form_urlencoded::parse(&body),
            );
            serde_path_to_error::deserialize(ud).map_err(|e| {
                HttpError::for_bad_request(
                    None,
                    format!("unable to parse URL-encoded body: {}", e),
                )
            })?
        }
"""
_DECODE_ARMS_HELPERS = """        (Json, Json) => decode_json_body(&body)?,
        (UrlEncoded, UrlEncoded) => decode_urlencoded_body(&body)?,
"""
_LOAD_BODY_DOC = """/// Given an HTTP request, attempt to read the body, parse it according
/// to the content type"""
_DECODE_HELPERS = """fn decode_json_body<T: DeserializeOwned>(raw: &[u8]) -> Result<T, HttpError> {
    let jd = &mut serde_json::Deserializer::from_slice(raw);
    match serde_path_to_error::deserialize(jd) {
        Ok(value) => Ok(value),
        Err(e) => Err(HttpError::for_bad_request(
            None,
            format!("unable to parse JSON body: {}", e),
        )),
    }
}

fn decode_urlencoded_body<T: DeserializeOwned>(
    raw: &[u8],
) -> Result<T, HttpError> {
    let pairs = form_urlencoded::parse(raw);
    let ud = serde_urlencoded::Deserializer::new(pairs);
    serde_path_to_error::deserialize(ud).map_err(|e| {
        HttpError::for_bad_request(
            None,
            format!("unable to parse URL-encoded body: {}", e),
        )
    })
}

"""
# shared with c09.SELFTEST: the same refactoring must be silent under both properties
DECODE_HELPERS_VARIANT = {"name": "decode-arms-in-generic-helpers", "kind": "benign",
                          "edits": [("dropshot/src/extractor/body.rs", _DECODE_ARMS, _DECODE_ARMS_HELPERS), ("dropshot/src/extractor/body.rs", _LOAD_BODY_DOC, _DECODE_HELPERS + _LOAD_BODY_DOC)],
                          "why": "behaviour-preserving: the two decode arms move into private generic helpers (one with match instead of map_err); the decoded type is now the "
                                 "helpers' own type parameter and the 400 is built next to the Ok value in the inlined body"}

_B = "dropshot/src/extractor/body.rs"
# the gate spelled as a match on a borrow of the expected type with `matches!` guards on the requested one
_GATE_GUARDS = [
    (_B, "    let content = match (expected_content_type, body_content_type) {\n        (Json, Json) => {",
     "    let content = match &expected_content_type {\n        Json if matches!(body_content_type, Json) => {"),
    (_B, "        (UrlEncoded, UrlEncoded) => {", "        UrlEncoded if matches!(body_content_type, UrlEncoded) => {"),
    (_B, "        (expected, requested) => {\n            return Err(HttpError::for_bad_request(",
     "        expected => {\n            let requested = &body_content_type;\n            return Err(HttpError::for_bad_request("),
]
# the three arms evaluate to a Result (the refusal is an Err *value*, not an early return) that is mapped afterwards
_GATE_RESULT_VALUE = [
    (_B, "            })?\n        }\n        (UrlEncoded, UrlEncoded) => {", "            })\n        }\n        (UrlEncoded, UrlEncoded) => {"),
    (_B, "            })?\n        }\n        (expected, requested) => {\n            return Err(HttpError::for_bad_request(",
     "            })\n        }\n        (expected, requested) => {\n            Err(HttpError::for_bad_request("),
]
_GATE_RESULT_TAIL = "            ))\n        }\n    };\n    Ok(TypedBody { inner: content })"

SELFTEST = [
    {"name": "path-error-500", "kind": "mutant",
     "edits": [("dropshot/src/http_util.rs",
                "        HttpError::for_bad_request(\n            None,\n            format!(\"bad parameter in URL path: {}\", message),\n        )",
                "        HttpError::for_internal_error(\n            format!(\"bad parameter in URL path: {}\", message),\n        )")],
     "expect": ["C10.R3"], "why": "an ill-typed path variable becomes a 500 instead of a 4xx"},
    {"name": "content-type-unwrap", "kind": "mutant",
     "edits": [("dropshot/src/extractor/body.rs", _LOAD_BODY_HV, "            Ok::<&str, HttpError>(hv.to_str().unwrap())")],
     "expect": ["C10.R4"], "why": "a non-ASCII Content-Type header panics instead of being refused with a 400"},
    {"name": "tuple-swallows-member-error", "kind": "mutant",
     "edits": [("dropshot/src/extractor/common.rs", "        Ok((X::from_request(rqctx, request).await?,))",
                "        match X::from_request(rqctx, request).await {\n            Ok(x) => Ok((x,)),\n            Err(_) => Err(HttpError::for_unavail(None, String::from(\"extractor failed\"))),\n        }")],
     "expect": ["C10.R2", "C10.R3"], "why": "the member extractor's 4xx is dropped and replaced by a 503"},
    {"name": "json-parsed-for-any-expected-type", "kind": "mutant",
     "edits": [("dropshot/src/extractor/body.rs", "        (Json, Json) => {", "        (_, Json) => {")],
     "expect": ["C10.R5"], "why": "a JSON body is accepted by an endpoint that declared another content type"},
    {"name": "urlencoded-arm-uses-json-parser", "kind": "mutant",
     "edits": [("dropshot/src/extractor/body.rs",
                "            let ud = serde_urlencoded::Deserializer::new(\n                form_urlencoded::parse(&body),\n            );\n            serde_path_to_error::deserialize(ud).map_err(|e| {",
                "            let ud = &mut serde_json::Deserializer::from_slice(&body);\n            serde_path_to_error::deserialize(ud).map_err(|e| {")],
     "expect": ["C10.R5"], "why": "a well-formed urlencoded body is refused / a JSON body accepted under the urlencoded content type"},
    {"name": "extractor-error-rebuilt-as-500", "kind": "mutant",
     "edits": [("dropshot/src/handler.rs", "            .map_err(<HandlerType::Error>::from)?;",
                "            .map_err(|e: HttpError| HttpError::for_internal_error(e.internal_message))\n            .map_err(<HandlerType::Error>::from)?;")],
     "expect": ["C10.R1", "C10.R3"], "why": "every extractor failure reaches the client as a 500"},
    {"name": "page-token-too-large-panics", "kind": "mutant",
     "edits": [("dropshot/src/pagination.rs",
                "        return Err(String::from(\n            \"failed to parse pagination token: too large\",\n        ));",
                "        panic!(\"failed to parse pagination token: too large\");")],
     "expect": ["C10.R4"], "why": "an over-long page token panics instead of getting a 400"},
    {"name": "mime-slice-off-by-one", "kind": "mutant",
     "edits": [("dropshot/src/extractor/body.rs", "content_type[..end].trim_end()", "content_type[..end + 1].trim_end()")],
     "expect": ["C10.R4"], "why": "a Content-Type without parameters slices past the end and panics (new overflow/bounds site)"},
    {"name": "handler-call-in-async-helper", "kind": "benign",
     "edits": [("dropshot/src/handler.rs", _GENERIC_NOW, _GENERIC_HELPER), ("dropshot/src/handler.rs", _PUBLIC_IFACE, _HELPER + _PUBLIC_IFACE)],
     "why": "behaviour-preserving: `?` spelled as match + early return and the handler call moved into a private async helper (not inlinable: its body is a coroutine)"},
    {"name": "path-error-closure-as-match-and-helper", "kind": "benign",
     "edits": [("dropshot/src/http_util.rs", "    from_map(path_params).map_err(|message| {", "    let decoded: Result<T, String> = from_map(path_params);\n    match decoded {\n        Ok(params) => Ok(params),\n        Err(reason) => Err(path_params_error(&reason)),\n    }\n}\n\nfn path_params_error(message: &str) -> HttpError {\n    {"),
               ("dropshot/src/http_util.rs", "            format!(\"bad parameter in URL path: {}\", message),\n        )\n    })\n}", "            format!(\"bad parameter in URL path: {}\", message),\n        )\n    }\n}")],
     "why": "behaviour-preserving: the map_err closure (with its reviewed assert!) becomes a match arm calling a private helper; the census key stays with the enclosing function"},
    {"name": "mime-lookup-match-early-return", "kind": "benign",
     "edits": [("dropshot/src/extractor/body.rs", "        ApiEndpointBodyContentType::from_mime_type(&mime_type)\n            .map_err(|e| HttpError::for_bad_request(None, e))?;",
                "        match ApiEndpointBodyContentType::from_mime_type(&mime_type) {\n            Ok(known) => known,\n            Err(unknown) => {\n                return Err(HttpError::for_bad_request(None, unknown));\n            }\n        };")],
     "why": "behaviour-preserving: `.map_err(..)?` spelled as match with early return"},
    DECODE_HELPERS_VARIANT,
    {"name": "unit-tuple-match-instead-of-try", "kind": "benign",
     "edits": [("dropshot/src/extractor/common.rs", "        Ok((X::from_request(rqctx, request).await?,))",
                "        match X::from_request(rqctx, request).await {\n            Ok(x) => Ok((x,)),\n            Err(e) => Err(e),\n        }")],
     "why": "behaviour-preserving: `?` spelled as a match that forwards the member's own error"},
    {"name": "generic-handler-match-and-rename", "kind": "benign",
     "edits": [("dropshot/src/handler.rs",
                "        let funcparams = RequestExtractor::from_request(&rqctx, request)\n            .await\n            .map_err(<HandlerType::Error>::from)?;\n        let future = self.handler.handle_request(rqctx, funcparams);",
                "        let extracted = RequestExtractor::from_request(&rqctx, request).await;\n        let params = match extracted {\n            Ok(p) => p,\n            Err(e) => return Err(HandlerError::from(<HandlerType::Error>::from(e))),\n        };\n        let future = self.handler.handle_request(rqctx, params);")],
     "why": "behaviour-preserving: `?` + map_err spelled as an explicit match, locals renamed"},
    {"name": "body-fallthrough-renamed", "kind": "benign",
     "edits": [("dropshot/src/extractor/body.rs", "let end = content_type.find(';').unwrap_or_else(|| content_type.len());",
                "let end = content_type.find(';').unwrap_or(content_type.len());"),
               ("dropshot/src/extractor/body.rs", "        (expected, requested) => {\n            return Err(HttpError::for_bad_request(",
                "        (want, got) => {\n            let (expected, requested) = (want, got);\n            return Err(HttpError::for_bad_request(")],
     "why": "behaviour-preserving: fall-through arm bindings renamed; unwrap_or for unwrap_or_else"},
    {"name": "gate-as-if-else", "kind": "benign",
     "edits": [("dropshot/src/extractor/body.rs", "    let content = match (expected_content_type, body_content_type) {\n        (Json, Json) => {",
                "    if std::mem::discriminant(&expected_content_type) != std::mem::discriminant(&body_content_type) {\n        return Err(HttpError::for_bad_request(\n            None,\n            format!(\n                \"expected content type \\\"{}\\\", got \\\"{}\\\"\",\n                expected_content_type.mime_type(),\n                body_content_type.mime_type()\n            ),\n        ));\n    }\n    let content = match (expected_content_type, body_content_type) {\n        (Json, Json) => {")],
     "why": "behaviour-preserving: the mismatch is refused by an explicit discriminant != test before the match"},
    {"name": "query-error-helper-extracted", "kind": "benign",
     "edits": [("dropshot/src/extractor/query.rs",
                "        Err(e) => Err(HttpError::for_bad_request(\n            None,\n            format!(\"unable to parse query string: {}\", e),\n        )),",
                "        Err(e) => Err(query_parse_error(e)),"),
               ("dropshot/src/extractor/query.rs", "// The `SharedExtractor` implementation for Query<QueryType> describes how to",
                "fn query_parse_error(e: impl std::fmt::Display) -> HttpError {\n    HttpError::for_bad_request(\n        None,\n        format!(\"unable to parse query string: {}\", e),\n    )\n}\n\n// The `SharedExtractor` implementation for Query<QueryType> describes how to")],
     "why": "behaviour-preserving: the error construction extracted into a helper function"},
    {"name": "gate-by-guards-on-a-borrow", "kind": "benign", "edits": _GATE_GUARDS,
     "why": "behaviour-preserving: the tuple match spelled as a match on `&expected` with `matches!(requested, ..)` guards — the same decision table"},
    {"name": "gate-guard-widened", "kind": "mutant",
     "edits": _GATE_GUARDS[:1] + [(_B, "        (UrlEncoded, UrlEncoded) => {", "        UrlEncoded if !matches!(body_content_type, Json) => {")] + _GATE_GUARDS[2:],
     "expect": ["C10.R5"], "why": "(guard idiom) an endpoint expecting urlencoded runs the urlencoded parser on octet-stream and multipart bodies"},
    {"name": "gate-arms-as-result-values", "kind": "benign",
     "edits": _GATE_RESULT_VALUE + [(_B, _GATE_RESULT_TAIL, "            ))\n        }\n    };\n    content.map(|inner| TypedBody { inner })")],
     "why": "behaviour-preserving: the arms evaluate to Result values (the refusal is an Err value) and the TypedBody is built by `.map` after the match"},
    {"name": "gate-refusal-recovered-after-the-match", "kind": "mutant",
     "edits": _GATE_RESULT_VALUE + [(_B, _GATE_RESULT_TAIL,
                                     "            ))\n        }\n    };\n    content\n        .or_else(|_| serde_json::from_slice(&body).map_err(|e| HttpError::for_bad_request(None, e.to_string())))\n"
                                     "        .map(|inner| TypedBody { inner })")],
     "expect": ["C10.R5"], "why": "(Result-value idiom) the refusal of a mismatched content type is recovered by `.or_else` into a JSON decode, so every pair can reach the handler"},
    {"name": "unit-tuple-by-map", "kind": "benign",
     "edits": [("dropshot/src/extractor/common.rs", "        Ok((X::from_request(rqctx, request).await?,))", "        X::from_request(rqctx, request).await.map(|extracted| (extracted,))")],
     "why": "behaviour-preserving: `Ok((x?,))` spelled `x.map(|v| (v,))` — the member's error is passed through unchanged"},
    {"name": "query-error-via-map-err", "kind": "benign",
     "edits": [("dropshot/src/extractor/query.rs",
                "    match serde_urlencoded::from_str(raw_query_string) {\n        Ok(q) => Ok(Query { inner: q }),\n        Err(e) => Err(HttpError::for_bad_request(\n            None,\n            format!(\"unable to parse query string: {}\", e),\n        )),\n    }",
                "    let q = serde_urlencoded::from_str(raw_query_string).map_err(|e| {\n        HttpError::for_client_error(\n            None,\n            crate::ClientErrorStatusCode::BAD_REQUEST,\n            format!(\"unable to parse query string: {}\", e),\n        )\n    })?;\n    Ok(Query { inner: q })")],
     "why": "behaviour-preserving: match spelled as map_err + `?`, for_bad_request spelled as for_client_error(BAD_REQUEST)"},
]

LEVEL_TEXT += ' Also (R6): typed bodies are decoded in one step from the raw bytes straight into the declared type (never through serde_json::Value, which merges duplicate keys); (R7 = C09.R2): each scalar is parsed as exactly its declared type, so out-of-range numbers are parse errors.'

LEVEL_TEXT += " Also (R8 = C02.R5b): registration's scalar check covers every schema alternative, which keeps the decoder's panicking stubs unreachable; (R9): an unreadable Content-Type header is refused (400), the JSON default applies only when the header is absent. Also (R11 = C03.R1): a path segment whose escapes are not UTF-8 is refused by the strict decode; (R12 = C14.R4): a page_token parameter that is present is decoded as a token, only its absence selects the first page. Also (R13 = C02.R5): registration accepts an endpoint only after every path / query parameter passed the scalar type check, whatever its visibility."
