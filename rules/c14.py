"""C14 — page tokens round-trip, malformed tokens are refused, limits are clamped."""
import json
import re

from . import absint as A
from .engine import comparison_of, normalise_le
from .lib import PLUMBING, callee_allow, callers, closure_of_operand, lit_str, status_const_of_ctor, try_edges, operand_local

LEVEL = "other"
TECHNIQUE = ("static analysis: sibling agreement of the token encoder/decoder (engine constant, JSON type, version variant, normalised size predicate), value-preserving chains, "
             "arm table of deserialize_whichpage, panic census, and exhaustive abstract interpretation of page_limit over all weak orders of {limit, max, default}")
LEVEL_TEXT = ("Decided on the MIR of the current tree: serialize_page_token and deserialize_page_token use the same base64 engine constant, serde_json on the same SerializedToken<_> type "
              "and the same version variant; the issuer's size test and the acceptor's size test are normalised to `len <= K` on their accept edges, measure the byte length of the same string "
              "(after encode / before decode), and the issuer's largest accepted length is not larger than the acceptor's, so no issued token is refused for size, while the acceptor's test "
              "dominates decoding (over-long tokens are refused before any parsing); the decoded selector is the page_start field of the parsed token and nothing else; every failure of the "
              "decoder is an Err(String) that deserialize_whichpage maps with serde::de::Error::custom and propagates, the query loader turns a deserialisation error into for_bad_request "
              "(evaluated 400) and the decoder region contains no panic site; with a page_token present only the token is consulted (from_map on the raw parameters is reachable only on the "
              "None arm); page_limit is interpreted exhaustively: Some(l) -> min(l, max), None -> default, on a field of type Option<NonZeroU32> that only page_limit reads. "
              "Not decided: that serde_json/base64 invert each other for every selector value, serde's refusal of non-numeric/zero text for NonZeroU32.")
LEVEL_NOTE = ("Trusts rustc MIR construction and const evaluation, the extractor, engine slices/dominators, the absint interpreter, and the library semantics named in the rules "
              "(base64::Engine::{encode,decode}, serde_json::{to_vec,from_slice}, str::len = byte length, Option::{map,unwrap_or}, cmp::min, BTreeMap::get).")
EXPLANATION = ("SIBLINGS-AGREE over the two token functions (constants, generic arguments, normalised comparison), CHAIN slices with short allow-lists for the encoded and decoded values, "
               "DOM (edge dominance of the accept edge of the size test over decode / Ok), TABLE of the Some/None arms of deserialize_whichpage, CENSUS of panic sites and of readers of "
               "PaginationParams.limit, SHAPE of the limit field, DECIDE (absint) of RequestContext::page_limit over 16 cells.")
TRUSTED = ["rustc nightly MIR + const evaluation", "mirfacts extractor", "rules/engine.py slices and dominators", "rules/absint.py interpreter",
           "base64::Engine encode/decode, serde_json to_vec/from_slice, serde derive for NonZeroU32 and single-variant enums", "std Option::map/unwrap_or, cmp::min, str::len"]

SER = r"^pagination::serialize_page_token$"
DE = r"^pagination::deserialize_page_token$"
WHICH = r"^pagination::deserialize_whichpage$"
TOKEN_ADT = "pagination::SerializedToken"
VERSION_ADT = "pagination::PaginationVersion"
PARAMS_ADT = "pagination::PaginationParams"

BYTE_LEN = r"^(core::str::<impl str>::len|std::string::String::len|core::slice::<impl \[T\]>::len|std::vec::Vec::<T, A>::len|alloc::string::String::len)$"
JSON_OUT = r"^serde_json::(to_vec|to_string)$"
JSON_IN = r"^serde_json::(from_slice|from_str)$"
B64_ENC = r"^base64::Engine::encode$"
B64_DEC = r"^base64::Engine::decode$"
AS_BYTES = [r"str::<impl str>::as_bytes$", r"string::String::as_bytes$", r"string::String::as_str$", r"Vec::<T, A>::as_slice$"]
PANICS = r"panic|::unwrap$|::expect$|::unwrap_err$|::expect_err$|unwrap_unchecked|ops::Index::index$|ops::IndexMut::index_mut$|process::(exit|abort)$|unreachable"

# WHO-READS table for PaginationParams.limit: function id -> reason
LIMIT_READERS = {
    "handler::RequestContext::<Context>::page_limit": "the clamp itself (decided by C14.R5 DECIDE)",
    "<pagination::PaginationParams<ScanParams, PageSelector> as std::fmt::Debug>::fmt": "derived Debug prints the field; no page size is derived from it",
}


# ------------------------------------------------------------------------------------------------ helpers
def _const_atoms(sl):
    return [a for a in sl.atoms if a[0] in ("const", "lit")]


def _pure_int_const(sl):
    """The slice is one integer constant and nothing else: (path-or-None, value) else None."""
    if sl.params() or sl.callees:
        return None
    cs = _const_atoms(sl)
    others = [a for a in sl.atoms if a[0] not in ("const", "lit")]
    if len(cs) != 1 or others:
        return None
    a = cs[0]
    try:
        v = json.loads(a[2] if a[0] == "const" else a[1])
    except Exception:
        return None
    if not isinstance(v, dict) or "int" not in v:
        return None
    return (a[1] if a[0] == "const" else None, v["int"])


def size_bounds(f):
    """Bool switches of f that compare a byte length with a pure integer constant.
    Each: dict(bb, accept, reject, incl_max, const_path, const_val, len_term, len_slice)."""
    out = []
    reach = f.reachable(0)
    for sbb, t in f.switches():
        if sbb not in reach:
            continue
        c = comparison_of(f, sbb)
        if not c:
            continue
        sa, sb = f.slice(c["a"]), f.slice(c["b"])
        for len_op, len_sl, k_op, k_sl in ((c["a"], sa, c["b"], sb), (c["b"], sb, c["a"], sa)):
            k = _pure_int_const(k_sl)
            if k is None:
                continue
            lens = [(cn, bb, tt) for cn, bb, tt in len_sl.callees if re.search(r"::len$|::count$", cn)]
            if not lens:
                continue
            for rel, x, y, edge in normalise_le(c):
                if x is len_op and y is k_op and rel in ("le", "lt"):
                    acc = c[edge]
                    rej = c["false" if edge == "true" else "true"]
                    out.append({"bb": sbb, "accept": acc, "reject": rej, "incl_max": k[1] if rel == "le" else k[1] - 1,
                                "const_path": k[0], "const_val": k[1], "rel": rel, "lens": lens, "len_slice": len_sl})
    return out


def _ok_returns(f):
    reach = f.reachable(0)
    return [(bb, st) for bb, i, st in f.aggregates(r"^std::result::Result$", "Ok") if st["pl"]["l"] == 0 and not st["pl"]["p"] and bb in reach]


def _engine_paths(f, term):
    sl = f.slice(term["args"][0])
    return sorted(set(a[1] for a in sl.atoms if a[0] == "const")), sl


def _field_index(ctx, adt, name):
    for i, fl in enumerate(ctx.ds.adts[adt]["variants"][0]["fields"]):
        if fl["name"] == name:
            return i
    return None


def _one_call(ctx, R, f, rx, what):
    cs = f.live_calls(rx)
    if len(cs) != 1:
        ctx.lost(R, "%s in %s (%d call sites)" % (what, f.id, len(cs)))
        return None
    return cs[0]


# ------------------------------------------------------------------------------------------------ R1
def r1_codec(ctx, rid="C14.R1"):
    R = ctx.rule(rid, "serialize_page_token and deserialize_page_token are inverse pipelines: same base64 engine constant, serde_json on the same SerializedToken<_> type, "
                 "same version variant; the token is base64(json(SerializedToken{v, page_start: the argument})) and the decoder returns exactly the parsed page_start", floor=11)
    fs = ctx.need_fn(ctx.ds, R, SER)
    fd = ctx.need_fn(ctx.ds, R, DE)
    enc = _one_call(ctx, R, fs, B64_ENC, "base64 Engine::encode")
    dec = _one_call(ctx, R, fd, B64_DEC, "base64 Engine::decode")
    jout = _one_call(ctx, R, fs, JSON_OUT, "serde_json::to_vec")
    jin = _one_call(ctx, R, fd, JSON_IN, "serde_json::from_slice")
    if not (enc and dec and jout and jin):
        return
    # engine
    pe, _ = _engine_paths(fs, enc[1])
    pd, _ = _engine_paths(fd, dec[1])
    ctx.check(R, "same-base64-engine", len(pe) == 1 and pe == pd, "encoder engine constant %s, decoder engine constant %s" % (pe, pd), (fd, dec[0]))
    # JSON type
    te = (jout[1].get("gargs") or [None])[-1]
    td = (jin[1].get("gargs") or [None])[-1]
    ctx.check(R, "same-json-type", te is not None and te == td and te.startswith(TOKEN_ADT + "<"),
              "serde_json serialises %s and parses %s" % (te, td), (fd, jin[0]))
    # encoder chain: Ok(x) <- encode(json) <- to_vec(&SerializedToken{v, page_start: param})
    oks = _ok_returns(fs)
    okc = bool(oks)
    for bb, st in oks:
        sl = fs.slice(st["rv"]["ops"][0])
        bad = callee_allow(sl, PLUMBING + [B64_ENC, JSON_OUT, r"Result::<T, E>::map_err$"])
        okc = okc and any(b == enc[0] for _, b, _ in sl.calls(B64_ENC)) and not bad
    ctx.check(R, "issued-token-is-the-encoding", okc, "every Ok(..) of the encoder is the Engine::encode result, untransformed (%d Ok sites)" % len(oks), fs)
    s_data = fs.slice(enc[1]["args"][1])
    bad = callee_allow(s_data, PLUMBING + AS_BYTES + [JSON_OUT, r"Result::<T, E>::map_err$", r"string::String::into_bytes$"])
    ctx.check(R, "encoded-bytes-are-the-json", any(b == jout[0] for _, b, _ in s_data.calls(JSON_OUT)) and not bad,
              "Engine::encode's data argument derives from serde_json::to_vec via %s" % ([b[0] for b in bad] or "`?`/map_err only"), (fs, enc[0]))
    aggs = [(bb, st) for bb, i, st in fs.aggregates("^" + re.escape(TOKEN_ADT) + "$") if bb in fs.reachable(0)]
    vi, pi = _field_index(ctx, TOKEN_ADT, "v"), _field_index(ctx, TOKEN_ADT, "page_start")
    written = None
    if len(aggs) != 1 or vi is None or pi is None:
        ctx.lost(R, "the single SerializedToken{v, page_start} aggregate in the encoder")
    else:
        abb, ast = aggs[0]
        s_json = fs.slice(jout[1]["args"][0])
        dest = ast["pl"]["l"]
        ctx.check(R, "json-input-is-the-token-struct", s_json.touches_local(dest) and not s_json.callees,
                  "serde_json::to_vec's argument is a reference to the SerializedToken aggregate", (fs, jout[0]))
        sp = fs.slice(ast["rv"]["ops"][pi])
        ctx.check(R, "page_start-is-the-argument", sp.params() == [1] and not sp.callees and not _const_atoms(sp),
                  "SerializedToken.page_start slices to params %s, callees %s" % (sp.params(), sp.callee_names()), (fs, abb))
        sv = fs.slice(ast["rv"]["ops"][vi])
        vs = sorted(set(a[2] for a in sv.atoms if a[0] == "agg" and a[1] == VERSION_ADT))
        written = vs[0] if len(vs) == 1 else None
        ctx.check(R, "version-written", written is not None and not sv.params() and not sv.callees, "SerializedToken.v is the constant variant %s" % vs, (fs, abb))
    # decoder chain
    s_in = fd.slice(dec[1]["args"][1])
    bad = callee_allow(s_in, PLUMBING + AS_BYTES)
    ctx.check(R, "decoded-text-is-the-argument", s_in.params() == [1] and not bad,
              "Engine::decode's input slices to params %s via %s" % (s_in.params(), [b[0] for b in bad] or "as_bytes only"), (fd, dec[0]))
    s_j = fd.slice(jin[1]["args"][0])
    bad = callee_allow(s_j, PLUMBING + AS_BYTES + [B64_DEC, r"Result::<T, E>::map_err$"])
    ctx.check(R, "json-parses-the-decoded-bytes", any(b == dec[0] for _, b, _ in s_j.calls(B64_DEC)) and not bad,
              "serde_json::from_slice's input derives from Engine::decode via %s" % ([b[0] for b in bad] or "`?`/map_err/deref only"), (fd, jin[0]))
    oks = _ok_returns(fd)
    okd = bool(oks)
    for bb, st in oks:
        sl = fd.slice(st["rv"]["ops"][0], stop_at_calls=JSON_IN)
        bad = callee_allow(sl, PLUMBING + [JSON_IN, r"Result::<T, E>::map_err$"])
        okd = okd and any(b == jin[0] for _, b, _ in sl.calls(JSON_IN)) and sl.reads_field("page_start") and not bad and not _const_atoms(sl)
    ctx.check(R, "selector-is-parsed-page_start", okd, "every Ok(..) of the decoder is the page_start field of the from_slice result, untransformed (%d Ok sites)" % len(oks), fd)
    # version acceptance
    nvar = len(ctx.ds.adts[VERSION_ADT]["variants"])
    accepted = []
    for sbb, t in fd.switches():
        if sbb not in fd.reachable(0):
            continue
        c = comparison_of(fd, sbb)
        if c:
            sa, sb = fd.slice(c["a"]), fd.slice(c["b"])
            for val, const in ((sa, sb), (sb, sa)):
                cv = sorted(set(a[2] for a in const.atoms if a[0] == "agg" and a[1] == VERSION_ADT))
                if val.reads_field("v") and val.has_call(JSON_IN) and len(cv) == 1 and not const.callees and not const.params():
                    for rel, x, y, edge in normalise_le(c):
                        if rel == "eq":
                            accepted.append((sbb, c[edge], cv[0]))
        else:
            info = fd.switch_on(sbb)
            if info["kind"] == "discr" and info.get("adt") == VERSION_ADT:
                pl = info["place"]
                if any(isinstance(e, dict) and e.get("n") == "v" for e in pl["p"]):
                    for val, name in info["variants"].items():
                        accepted.append((sbb, fd.switch_target(sbb, val), name))
    oks_bb = [bb for bb, _ in _ok_returns(fd)]
    guards = [(sbb, tgt, name) for sbb, tgt, name in accepted if oks_bb and all(fd.edge_dominates(sbb, tgt, ob) for ob in oks_bb)]
    if guards:
        names = sorted(set(n for _, _, n in guards))
        ctx.check(R, "version-accepted-is-version-written", names == [written],
                  "decoder's Ok is dominated by `v == %s`; encoder writes %s" % (names, written), (fd, guards[0][0]))
    elif nvar == 1:
        der = [i for i in ctx.ds.impls if "Deserialize" in i["trait"] and i["self"].startswith(VERSION_ADT)]
        ctx.check(R, "version-accepted-is-version-written", bool(der) and written == ctx.ds.adts[VERSION_ADT]["variants"][0]["name"],
                  "PaginationVersion has the single variant %s (written by the encoder); any other text is refused by its derived Deserialize impl (%d impl)" % (written, len(der)), fd, nontrivial=False)
    else:
        ctx.check(R, "version-accepted-is-version-written", False,
                  "PaginationVersion has %d variants but no `v == <variant>` edge dominates the decoder's Ok" % nvar, fd)


# ------------------------------------------------------------------------------------------------ R2
def r2_bound(ctx, rid="C14.R2"):
    R = ctx.rule(rid, "issuer and acceptor bound the byte length of the same string (after encode / before decode) with normalised predicates `len <= K`; the issuer's largest "
                 "accepted length does not exceed the acceptor's; the accept edges dominate Ok(token) / decoding", floor=7)
    fs = ctx.need_fn(ctx.ds, R, SER)
    fd = ctx.need_fn(ctx.ds, R, DE)
    enc = _one_call(ctx, R, fs, B64_ENC, "base64 Engine::encode")
    dec = _one_call(ctx, R, fd, B64_DEC, "base64 Engine::decode")
    if not (enc and dec):
        return
    # issuer: bound on len(encode result)
    bs = [b for b in size_bounds(fs) if any(bb == enc[0] for _, bb, _ in b["len_slice"].calls(B64_ENC))]
    bd = [b for b in size_bounds(fd) if b["len_slice"].params() == [1]]
    if len(bs) != 1:
        ctx.lost(R, "the issuer's size test on the encoded token (found %d)" % len(bs))
    if len(bd) != 1:
        ctx.lost(R, "the acceptor's size test on the token text (found %d)" % len(bd))
    if len(bs) != 1 or len(bd) != 1:
        return
    bs, bd = bs[0], bd[0]
    for who, f, b in (("issuer", fs, bs), ("acceptor", fd, bd)):
        names = sorted(set(cn for cn, _, _ in b["lens"]))
        bad = callee_allow(b["len_slice"], PLUMBING + AS_BYTES + [BYTE_LEN, B64_ENC, JSON_OUT, r"Result::<T, E>::map_err$"])
        ctx.check(R, "%s-measures-byte-length" % who, all(re.search(BYTE_LEN, n) for n in names) and not bad and ("binop", "Add") not in b["len_slice"].atoms
                  and not any(a[0] == "binop" for a in b["len_slice"].atoms),
                  "%s compares %s of %s with %s=%d (accepts len <= %d)" % (who, names, "the encoded string" if who == "issuer" else "the token text as received",
                                                                          b["const_path"] or "literal", b["const_val"], b["incl_max"]), (f, b["bb"]))
    ctx.check(R, "issued-length-always-accepted", bs["incl_max"] <= bd["incl_max"],
              "issuer accepts len <= %d (%s %s), acceptor accepts len <= %d (%s %s): %s" % (
                  bs["incl_max"], "<=" if bs["rel"] == "le" else "<", bs["const_path"] or bs["const_val"], bd["incl_max"], "<=" if bd["rel"] == "le" else "<", bd["const_path"] or bd["const_val"],
                  "every issued token passes the acceptor's size test" if bs["incl_max"] <= bd["incl_max"] else
                  "a token of length %d is issued and then refused as too large" % bs["incl_max"]), (fd, bd["bb"]))
    # dominance: issuer
    oks = _ok_returns(fs)
    ctx.check(R, "issuer-bound-dominates-Ok", bool(oks) and all(fs.edge_dominates(bs["bb"], bs["accept"], ob) for ob, _ in oks)
              and not any(ob in fs.reachable(bs["reject"]) for ob, _ in oks),
              "every Ok(token) is reached only through the `len <= %d` edge; the other edge reaches no Ok" % bs["incl_max"], (fs, bs["bb"]))
    # the measured string is the returned string
    same = all(any(bb == enc[0] for _, bb, _ in fs.slice(st["rv"]["ops"][0]).calls(B64_ENC)) for _, st in oks)
    ctx.check(R, "issuer-measures-what-it-returns", same, "the measured string and the returned token are the same Engine::encode result", fs)
    # dominance: acceptor
    parse_sites = [dec[0]] + [bb for bb, _ in fd.live_calls(JSON_IN)]
    rej = fd.reachable(bd["reject"])
    ctx.check(R, "acceptor-bound-dominates-decoding", all(fd.edge_dominates(bd["bb"], bd["accept"], p) for p in parse_sites)
              and not any(p in rej for p in parse_sites) and not any(ob in rej for ob, _ in _ok_returns(fd)),
              "base64/JSON parsing and Ok are reached only through the `len <= %d` edge; the over-long edge parses nothing and returns Err" % bd["incl_max"], (fd, bd["bb"]))
    errs = [bb for bb, i, st in fd.aggregates(r"^std::result::Result$", "Err") if st["pl"]["l"] == 0 and bb in rej]
    ctx.check(R, "over-long-is-Err", bool(errs) and fd.must_pass(errs, start=bd["reject"]), "the over-long edge always passes an Err(..) return value", (fd, bd["reject"]))
    ctx.notes["token_bound"] = {"issuer_max_len": bs["incl_max"], "acceptor_max_len": bd["incl_max"]}


# ------------------------------------------------------------------------------------------------ R3
def r3_failures(ctx, rid="C14.R3"):
    R = ctx.rule(rid, "every decoder failure is an Err(String) which deserialize_whichpage maps through serde::de::Error::custom and propagates; the query loader turns "
                 "the deserialisation error into for_bad_request (400); the decoder region contains no panic site", floor=10)
    fd = ctx.need_fn(ctx.ds, R, DE)
    fw = ctx.need_fn(ctx.ds, R, WHICH)
    ret = fd.local_ty(0)
    ctx.check(R, "decoder-error-type", bool(re.match(r"^std::result::Result<.*, std::string::String>$", ret)), "deserialize_page_token returns %s" % ret, fd, nontrivial=False)
    # census of panics
    for g in [fd] + ctx.ds.descendants(fd) + [fw] + ctx.ds.descendants(fw):
        reach = g.reachable(0)
        pan = [(bb, t["callee"]) for bb, t in g.live_calls(PANICS)]
        asserts = [b["bb"] for b in g.blocks if b["term"]["t"] == "assert" and not b["cleanup"] and b["bb"] in reach]
        ctx.check(R, "no-panic-site:%s" % g.id, not pan and not asserts, "panic-capable calls %s, checked-arithmetic/bounds asserts %d" % ([p[1] for p in pan], len(asserts)), g)
    # only caller
    cs = callers(ctx.ds, DE)
    ctx.check(R, "decoder-called-only-by-whichpage", [f.id for f, _, _ in cs] == [fw.id], "callers of deserialize_page_token: %s" % [f.id for f, _, _ in cs], fw)
    if len(cs) != 1 or cs[0][0] is not fw:
        return
    _, cbb, ct = cs[0]
    # map_err(custom) + `?`
    tries = []
    for tbb, tt in fw.live_calls(r"ops::Try::branch$"):
        sl = fw.slice(tt["args"][0], stop_at_calls=DE)
        if any(b == cbb for _, b, _ in sl.calls(DE)):
            tries.append((tbb, tt, sl))
    if len(tries) != 1:
        ctx.lost(R, "`?` on the decoder's result in deserialize_whichpage (%d)" % len(tries))
        return
    tbb, tt, sl = tries[0]
    bad = callee_allow(sl, PLUMBING + [DE, r"Result::<T, E>::map_err$"])
    custom = any(a[0] == "fnitem" and a[1].endswith("de::Error::custom") for a in sl.atoms)
    if not custom:
        for c, mbb, mt in sl.calls(r"Result::<T, E>::map_err$"):
            for a in mt["args"][1:]:
                g, _n = closure_of_operand(fw, a)
                if g is not None and g.slice({"l": 0, "p": []}).has_call(r"de::Error::custom$"):
                    custom = True
    ctx.check(R, "token-error-becomes-serde-error", custom and not bad, "decoder result -> map_err(serde::de::Error::custom)=%s -> `?`; other callees %s" % (custom, [b[0] for b in bad]), (fw, tbb))
    te = try_edges(fw, operand_local(tt["args"][0]))
    if not te:
        ctx.lost(R, "switch of the `?` on the decoder's result")
        return
    pages = [bb for bb, i, st in fw.aggregates(r"^pagination::WhichPage$")]
    brk = fw.reachable(te["brk"])
    ctx.check(R, "token-error-propagates", not any(p in brk for p in pages) and not any(ob in brk for ob, _ in _ok_returns(fw)),
              "the Break edge of the `?` builds no WhichPage and no Ok", (fw, te["switch_bb"]))
    # the query loader
    ql = callers(ctx.ds, r"^serde_urlencoded::from_str$")
    ctx.check(R, "one-query-loader", len(ql) == 1, "callers of serde_urlencoded::from_str: %s" % [f.id for f, _, _ in ql], ql[0][0] if ql else None)
    for f, qbb, qt in ql:
        errs = [(bb, st) for bb, i, st in f.aggregates(r"^std::result::Result$", "Err") if st["pl"]["l"] == 0 and bb in f.reachable(0)]
        ok = bool(errs)
        for bb, st in errs:
            s = f.slice(st["rv"]["ops"][0])
            ok = ok and s.has_call(r"^error::HttpError::for_bad_request$") and not s.has_call(r"for_internal_error|for_unavail")
        nores = not f.live_calls(r"ops::FromResidual::from_residual$")
        st400 = status_const_of_ctor(ctx.ds, "for_bad_request")
        ctx.check(R, "query-error-is-400:%s" % f.id, ok and nores and st400 == {400},
                  "Err(..) sites %d all for_bad_request=%s, no other error exit=%s, for_bad_request status %s" % (len(errs), ok, nores, sorted(st400 or [])), (f, qbb))


# ------------------------------------------------------------------------------------------------ R4
def r4_token_wins(ctx, rid="C14.R4"):
    R = ctx.rule(rid, "deserialize_whichpage: on the Some arm of get(\"page_token\") only the token is consulted (deserialize_page_token of that value -> WhichPage::Next); "
                 "from_map(raw parameters) -> WhichPage::First happens only on the None arm", floor=7)
    fw = ctx.need_fn(ctx.ds, R, WHICH)
    gets = [(bb, t) for bb, t in fw.live_calls(r"BTreeMap::<K, V, A>::get$|HashMap::<K, V, S>::get$") if "page_token" in [lit_str_of(fw, t["args"][1])]]
    if len(gets) != 1:
        ctx.lost(R, "map.get(\"page_token\") in deserialize_whichpage (%d)" % len(gets))
        return
    gbb, gt = gets[0]
    sch = ctx.ds.adts.get("pagination::SchemaPaginationParams")
    names = [fl["name"] for fl in sch["variants"][0]["fields"]] if sch else []
    ctx.check(R, "key-is-the-documented-parameter", "page_token" in names and "limit" in names, "schema struct documents query parameters %s; the lookup key is \"page_token\"" % names, (fw, gbb), nontrivial=False)
    sw = [(sbb, info) for sbb, info in ((sbb, fw.switch_on(sbb)) for sbb, _ in fw.switches())
          if info["kind"] == "discr" and info["place"]["l"] == gt["dest"]["l"] and not info["place"]["p"]]
    if len(sw) != 1:
        ctx.lost(R, "match on the result of get(\"page_token\") (%d switches)" % len(sw))
        return
    sbb, info = sw[0]
    vidx = {n: v for v, n in info["variants"].items()}
    some_t, none_t = fw.switch_target(sbb, vidx["Some"]), fw.switch_target(sbb, vidx["None"])
    some_r, none_r = fw.reachable(some_t), fw.reachable(none_t)
    dps = fw.live_calls(DE)
    fms = fw.live_calls(r"^from_map::from_map$")
    nexts = [(bb, st) for bb, i, st in fw.aggregates(r"^pagination::WhichPage$", "Next")]
    firsts = [(bb, st) for bb, i, st in fw.aggregates(r"^pagination::WhichPage$", "First")]
    ctx.check(R, "some-arm-decodes-the-token", len(dps) == 1 and all(fw.edge_dominates(sbb, some_t, bb) for bb, _ in dps),
              "deserialize_page_token call sites: %d, all on the Some edge" % len(dps), (fw, sbb))
    for bb, t in dps:
        s = fw.slice(t["args"][0], stop_at_calls=r"::get$")
        bad = callee_allow(s, PLUMBING + [r"::get$"])
        ctx.check(R, "decoder-input-is-the-token-value", any(b == gbb for _, b, _ in s.calls(r"::get$")) and not bad,
                  "deserialize_page_token's argument is the Some payload of get(\"page_token\") via %s" % ([b[0] for b in bad] or "deref only"), (fw, bb))
    ctx.check(R, "some-arm-ignores-scan-params", not any(bb in some_r for bb, _ in fms) and not any(bb in some_r for bb, _ in firsts),
              "from_map / WhichPage::First reachable on the Some edge: %s" % ([bb for bb, _ in fms if bb in some_r] != [] or [bb for bb, _ in firsts if bb in some_r] != []), (fw, some_t))
    ok_next = len(nexts) >= 1
    for bb, st in nexts:
        s = fw.slice(st["rv"]["ops"][0], stop_at_calls=DE)
        bad = callee_allow(s, PLUMBING + [DE, r"Result::<T, E>::map_err$"])
        ok_next = ok_next and s.has_call(DE) and not bad and fw.edge_dominates(sbb, some_t, bb)
    ctx.check(R, "next-is-the-decoded-selector", ok_next, "WhichPage::Next(..) sites %d: payload is the `?` payload of deserialize_page_token, on the Some edge" % len(nexts), fw)
    ok_first = len(firsts) >= 1 and len(fms) >= 1
    for bb, st in firsts:
        s = fw.slice(st["rv"]["ops"][0], stop_at_calls=r"^from_map::from_map$")
        bad = callee_allow(s, PLUMBING + [r"^from_map::from_map$", r"Result::<T, E>::map_err$"])
        ok_first = ok_first and s.has_call(r"^from_map::from_map$") and not bad and fw.edge_dominates(sbb, none_t, bb)
    ctx.check(R, "first-is-from_map-on-none-arm", ok_first and not any(bb in none_r for bb, _ in dps) and not any(bb in none_r for bb, _ in nexts),
              "WhichPage::First(..) sites %d: payload is from_map(raw params)?, only on the None edge; no token decoding on the None edge" % len(firsts), fw)
    # from_map reads the same map that was searched
    for bb, t in fms:
        a = fw.slice(t["args"][0], stop_at_calls=r"Deserialize::deserialize$")
        b = fw.slice(gt["args"][0], stop_at_calls=r"Deserialize::deserialize$")
        la = set(x for x in a.locals()) & set(x for x in b.locals())
        ctx.check(R, "one-raw-map", bool(la) and not callee_allow(a, PLUMBING + [r"Deserialize::deserialize$"]),
                  "from_map and get(\"page_token\") read the same deserialised parameter map", (fw, bb))


def lit_str_of(f, op):
    """String literal an operand evaluates to (through refs / copies), else None."""
    s = lit_str(op)
    if s is not None:
        return s
    sl = f.slice(op)
    if sl.callees or sl.params():
        return None
    vals = set()
    for a in sl.atoms:
        if a[0] in ("lit", "const"):
            try:
                v = json.loads(a[1] if a[0] == "lit" else a[2])
            except Exception:
                v = None
            if isinstance(v, dict) and "str" in v:
                vals.add(v["str"])
    return vals.pop() if len(vals) == 1 else None


# ------------------------------------------------------------------------------------------------ R5
def _mk_struct(ctx, adt, vals):
    fields = ctx.ds.adts[adt]["variants"][0]["fields"]
    return A.V_struct(adt, [vals.get(fl["name"], A.V_opaque(fl["name"])) for fl in fields])


def r5_limit(ctx, rid="C14.R5"):
    R = ctx.rule(rid, "PaginationParams.limit is a crate-private Option<NonZeroU32> read only by page_limit, and page_limit(Some(l)) = Ok(min(l, page_max_nitems)), "
                 "page_limit(None) = Ok(page_default_nitems) for every weak order of {l, max, default}", floor=22)
    adt = ctx.ds.adts.get(PARAMS_ADT)
    if not adt:
        ctx.lost(R, "ADT table of PaginationParams")
        return
    fl = [x for x in adt["variants"][0]["fields"] if x["name"] == "limit"]
    if len(fl) != 1:
        ctx.lost(R, "field PaginationParams.limit")
        return
    fl = fl[0]
    ctx.check(R, "limit-type", bool(re.match(r"^std::option::Option<std::num::NonZero<u(8|16|32|64|size)>>$", fl["ty"])),
              "limit: %s (zero and negative values are unrepresentable; serde refuses them and non-numeric text at extraction)" % fl["ty"], nontrivial=False)
    ctx.check(R, "limit-not-public", fl["vis"] != "Public", "visibility of limit: %s" % fl["vis"].split("(")[0], nontrivial=False)
    cfg = ctx.ds.adts.get("server::ServerConfig")
    tys = {x["name"]: x["ty"] for x in cfg["variants"][0]["fields"]} if cfg else {}
    inner = re.sub(r"^std::option::Option<(.*)>$", r"\1", fl["ty"])
    ctx.check(R, "config-types", tys.get("page_max_nitems") == inner and tys.get("page_default_nitems") == inner,
              "ServerConfig.page_max_nitems: %s, page_default_nitems: %s" % (tys.get("page_max_nitems"), tys.get("page_default_nitems")), nontrivial=False)
    # who reads the field
    li = _field_index(ctx, PARAMS_ADT, "limit")
    readers = set()

    def walk(o, g):
        if isinstance(o, dict):
            if "l" in o and "p" in o and isinstance(o["p"], list):
                for e in o["p"]:
                    if isinstance(e, dict) and e.get("n") == "limit" and e.get("f") == li:
                        readers.add(g.id)
            for v in o.values():
                walk(v, g)
        elif isinstance(o, list):
            for v in o:
                walk(v, g)
    for g in ctx.ds.F.values():
        if any("pagination::PaginationParams<" in t for t in g.raw["locals"]):
            walk(g.blocks, g)
    for r in sorted(readers):
        ctx.check(R, "limit-reader:%s" % r, r in LIMIT_READERS, LIMIT_READERS.get(r, "a function outside the reviewed table reads PaginationParams.limit"), ctx.ds.F[r])
    f = ctx.need_fn(ctx.ds, R, r"^handler::RequestContext::<Context>::page_limit$")
    ctx.check(R, "page_limit-reads-limit", f.id in readers, "page_limit reads pag_params.limit", f)
    summ = {"std::num::NonZero::<T>::get": lambda it, argv, t: it.deref_all(argv[0])}

    def run(order, limit):
        it = A.Interp(ctx.ds, order, summaries=summ, sym_types=(r"^std::num::NonZero<u\d+>$", r"^u\d+$", r"^usize$"))
        config = _mk_struct(ctx, "server::ServerConfig", {"page_max_nitems": A.V_sym("max"), "page_default_nitems": A.V_sym("default")})
        state = _mk_struct(ctx, "server::DropshotState", {"config": config})
        rq = _mk_struct(ctx, "handler::RequestContext", {"server": state})
        pp = _mk_struct(ctx, PARAMS_ADT, {"limit": limit})
        return A.strip(it.call_fn(f, [A.V_ref(A.Cell(rq)), A.V_ref(A.Cell(pp))])), it
    for order in A.weak_orders(["l", "max", "default"]):
        key = "page_limit(Some(l)) under %s" % A.order_str(order)
        try:
            got, it = run(order, A.V_some(A.V_sym("l")))
            ok = got[0] == "enum" and got[1] == "Ok" and len(got[2]) == 1 and got[2][0][0] == "sym" and got[2][0][1] in ("l", "max") \
                and order[got[2][0][1]] == min(order["l"], order["max"])
            ctx.check(R, key, ok, "code=%s spec=Ok(min(l,max)) (%s)" % (A.show(_unstrip(got)), it.cmp_log), f)
        except A.LeavesFragment as e:
            ctx.check(R, key, False, "interpreter aborted: %s" % e, f)
    for order in A.weak_orders(["max", "default"]):
        key = "page_limit(None) under %s" % A.order_str(order)
        try:
            got, it = run(order, A.V_none())
            ctx.check(R, key, got == ("enum", "Ok", (("sym", "default"),)), "code=%s spec=Ok(default)" % A.show(_unstrip(got)), f)
        except A.LeavesFragment as e:
            ctx.check(R, key, False, "interpreter aborted: %s" % e, f)
    ctx.assume("NonZeroU32's Ord is the numeric order of its value; serde's Deserialize for NonZeroU32 refuses 0, negative and non-numeric text")


def _unstrip(v):
    """strip() output back into a showable value."""
    if isinstance(v, tuple) and v and v[0] == "enum":
        return ("enum", "", 0, v[1], [_unstrip(x) for x in v[2]])
    if isinstance(v, tuple) and v and v[0] == "struct":
        return ("struct", v[1], [_unstrip(x) for x in v[2]])
    if isinstance(v, tuple) and v and v[0] == "tuple":
        return ("tuple", [_unstrip(x) for x in v[1]])
    return v


RULES = [("C14.R1", r1_codec), ("C14.R2", r2_bound), ("C14.R3", r3_failures), ("C14.R4", r4_token_wins), ("C14.R5", r5_limit)]

PG = "dropshot/src/pagination.rs"
HD = "dropshot/src/handler.rs"
_DEC_BOUND = "if token_str.len() > MAX_TOKEN_LENGTH {"
_ENC_BOUND = "if token_bytes.len() > MAX_TOKEN_LENGTH {"
_CLAMP = ".map(|limit| min(limit, server_config.page_max_nitems))"
_SOME_ARM = """        Some(page_token) => {
            let page_start = deserialize_page_token(&page_token)"""

SELFTEST = [
    {"name": "dec-rejects-ge-max", "kind": "mutant", "edits": [(PG, _DEC_BOUND, "if token_str.len() >= MAX_TOKEN_LENGTH {")], "expect": ["C14.R2"],
     "why": "a 512-byte token is issued but refused (Appendix B)"},
    {"name": "enc-bound-1024", "kind": "mutant", "edits": [(PG, _ENC_BOUND, "if token_bytes.len() > 1024 {")], "expect": ["C14.R2"],
     "why": "tokens of 513..1024 bytes are issued and then refused"},
    {"name": "dec-no-bound", "kind": "mutant", "edits": [(PG, _DEC_BOUND, "if false {")], "expect": ["C14.R2"],
     "why": "over-long tokens are parsed instead of refused"},
    {"name": "dec-standard-engine", "kind": "mutant", "edits": [(PG, "    let json_bytes = URL_SAFE\n        .decode(", "    let json_bytes = base64::engine::general_purpose::STANDARD\n        .decode(")],
     "expect": ["C14.R1"], "why": "tokens containing '-' or '_' no longer decode (Appendix B)"},
    {"name": "dec-trims-token", "kind": "mutant", "edits": [(PG, ".decode(token_str.as_bytes())", ".decode(token_str.trim_end_matches('=').as_bytes())")],
     "expect": ["C14.R1"], "why": "issued tokens with padding are refused by the padded engine"},
    {"name": "some-arm-reads-scan-params", "kind": "mutant",
     "edits": [(PG, _SOME_ARM, "        Some(page_token) => {\n            let _scan: ScanParams = from_map(&raw_params).map_err(serde::de::Error::custom)?;\n            let page_start = deserialize_page_token(&page_token)")],
     "expect": ["C14.R4"], "why": "with a token present, missing/invalid scan parameters now fail the request (Appendix B)"},
    {"name": "clamp-max-for-min", "kind": "mutant", "edits": [(HD, _CLAMP, ".map(|limit| std::cmp::max(min(limit, limit), server_config.page_max_nitems))")],
     "expect": ["C14.R5"], "why": "client limit is raised to the maximum instead of capped (Appendix B)"},
    {"name": "limit-option-u32", "kind": "mutant",
     "edits": [(PG, "    pub(crate) limit: Option<NonZeroU32>,", "    pub(crate) limit: Option<u32>,"),
               (HD, "            .limit\n", "            .limit\n            .and_then(std::num::NonZeroU32::new)\n")],
     "expect": ["C14.R5"], "why": "limit=0 is accepted and treated as absent instead of refused (Appendix B)"},
    {"name": "dec-expect-on-base64", "kind": "mutant",
     "edits": [(PG, '        .map_err(|e| format!("failed to parse pagination token: {}", e))?;', '        .expect("valid base64");')],
     "expect": ["C14.R3"], "why": "a token that is not base64 panics the request task instead of a 400"},
    {"name": "limit-public", "kind": "mutant", "edits": [(PG, "    pub(crate) limit: Option<NonZeroU32>,", "    pub limit: Option<NonZeroU32>,")],
     "expect": ["C14.R5"], "why": "consumers can read the unclamped limit"},
    {"name": "bound-commuted", "kind": "benign", "edits": [(PG, _DEC_BOUND, "if MAX_TOKEN_LENGTH < token_str.len() {"), (PG, _ENC_BOUND, "if !(token_bytes.len() <= MAX_TOKEN_LENGTH) {")],
     "why": "behaviour-preserving: same predicate spelled `K < len` and `!(len <= K)`"},
    {"name": "bound-via-local", "kind": "benign", "edits": [(PG, _DEC_BOUND, "let n = token_str.as_bytes().len();\n    let too_long = n > MAX_TOKEN_LENGTH;\n    if too_long {")],
     "why": "behaviour-preserving: byte length through as_bytes() and locals, comparison result bound to a local before the branch"},
    {"name": "enc-stricter-bound", "kind": "benign", "edits": [(PG, _ENC_BOUND, "if token_bytes.len() >= MAX_TOKEN_LENGTH {")],
     "why": "not identical behaviour but property-preserving: the issuer is stricter than the acceptor, every issued token is still accepted"},
    {"name": "whichpage-if-let", "kind": "benign",
     "edits": [(PG, '    match raw_params.get("page_token") {\n        Some(page_token) => {', '    let tok = raw_params.get("page_token");\n    match tok {\n        Some(page_token) => {')],
     "why": "behaviour-preserving: scrutinee bound to a local first"},
    {"name": "clamp-as-match", "kind": "benign",
     "edits": [(HD, _CLAMP, ".map(|requested| if requested > server_config.page_max_nitems { server_config.page_max_nitems } else { requested })")],
     "why": "behaviour-preserving: min spelled as a comparison, local renamed"},
    {"name": "rename-locals", "kind": "benign",
     "edits": [(PG, "    let json_bytes = URL_SAFE\n        .decode(", "    let raw = URL_SAFE\n        .decode("), (PG, "serde_json::from_slice(&json_bytes)", "serde_json::from_slice(&raw)")],
     "why": "behaviour-preserving: local renamed"},
    {"name": "enc-to-string", "kind": "benign",
     "edits": [(PG, "serde_json::to_vec(&serialized_token)", "serde_json::to_string(&serialized_token)")],
     "why": "behaviour-preserving: JSON text as String instead of Vec<u8> (same bytes)"},
]
