"""C14 — page tokens round-trip, malformed tokens are refused, limits are clamped."""
import json
import re

from . import absint as A
from .engine import comparison_of, normalise_le
from . import lib_c14 as L
from .lib import PLUMBING, callers, closure_of_operand, lit_str, result_split, status_const_of_ctor

LEVEL = "other"
TECHNIQUE = ("static analysis: sibling agreement of the token encoder/decoder (engine constant, JSON type, version variant, normalised size predicate), variant-aware value origins "
             "(Ok payloads followed through `?` / match / map_err / extracted helpers), path facts that know which variant a Result holds, forward flow of the decoder's error, "
             "arm table of deserialize_whichpage, panic census, and exhaustive abstract interpretation of page_limit over all weak orders of {limit, max, default}")
LEVEL_TEXT = ("Decided on the normalised MIR of the current tree (private helpers extracted by refactorings are inlined first; Option/Result combinators — map, map_err, and_then, map_or, ok_or.. — "
              "are switches on the receiver with the closure / fn-item body spliced in, so `a.map_err(f)?; b` and `a.map_err(f).and_then(|x| b)` are one program): serialize_page_token and deserialize_page_token use the same base64 "
              "engine constant, serde_json on the same SerializedToken<_> type and the same version variant (written as a literal or a named constant); the Ok payload of the encoder "
              "originates from Engine::encode of the Ok payload of serde_json::to_vec of SerializedToken{v, page_start: the argument}, with no `&mut` borrow on the way; the issuer's size test "
              "and the acceptor's size test are normalised to `len <= K` on their accept edges, measure the byte length of the same string (after encode / before decode), and the "
              "issuer's largest accepted length is not larger than the acceptor's, so no issued token is refused for size, while every feasible path to decoding takes the acceptor's "
              "accept edge (over-long tokens are refused before any parsing) — whether the test is an early return, an if/else expression or a `check(..)?` helper; the decoded selector "
              "is the page_start field of the parsed token and nothing else; every failure of the decoder is an Err(String) whose payload flows, through `?` / match / map_err in any "
              "combination, into exactly one serde::de::Error::custom and from there to the return of deserialize_whichpage on every path of the error edge; every Err the query loader can "
              "return is built by for_bad_request (evaluated 400) and a parse failure never becomes Ok; the decoder region contains no panic site outside debug_assert!; with a page_token "
              "present only the token is consulted (from_map on the raw parameters and WhichPage::First are unreachable after the Some edge of the lookup's test); page_limit is interpreted "
              "exhaustively: Some(l) -> min(l, max), None -> default, on a field of type Option<NonZeroU32> that only page_limit reads. "
              "Not decided: that serde_json/base64 invert each other for every selector value, serde's refusal of non-numeric/zero text for NonZeroU32.")
LEVEL_NOTE = ("Trusts rustc MIR construction and const evaluation, the extractor, engine slices/dominators/helper inlining/combinator desugaring/jump threading, rules/lib_c14.py (variant-aware origins, feasible paths, error flow), "
              "the absint interpreter, and the library semantics named in the rules (base64::Engine::{encode,decode}, serde_json::{to_vec,from_slice}, str::len = byte length, "
              "Result::{map,map_err}, the `?` operator, Option::{map,unwrap_or}, cmp::min, BTreeMap::get).")
EXPLANATION = ("SIBLINGS-AGREE over the two token functions (constants, generic arguments, normalised comparison), ORIGIN traces (lib_c14.trace: projection- and variant-sensitive backward "
               "value flow, so `x?`, `match x {Ok(v) => v, Err(e) => return Err(..)}`, `x.map_err(f)?` and helper extraction give the same origins) for the encoded and decoded values, "
               "FEASIBLE-PATH dominance (lib_c14.Feas: reachability consistent in the variant of Result/Option locals) of the accept edge of the size test over decode / Ok, forward ERROR FLOW "
               "of the decoder's Err payload to serde::de::Error::custom and the return place, TABLE of the Some/None edges of the lookup in deserialize_whichpage, CENSUS of panic sites "
               "(per function incl. closures, debug_assert! regions excluded) and of readers of PaginationParams.limit, SHAPE of the limit field, DECIDE (absint) of RequestContext::page_limit over 16 cells.")
TRUSTED = ["rustc nightly MIR + const evaluation", "mirfacts extractor", "rules/engine.py slices, dominators, helper inlining, combinator desugaring, jump threading", "rules/lib_c14.py origins / feasible paths / error flow", "rules/absint.py interpreter",
           "base64::Engine encode/decode, serde_json to_vec/from_slice, serde derive for NonZeroU32 and single-variant enums", "std Option::map/unwrap_or, Result::map/map_err, `?`, cmp::min, str::len"]

SER = r"^pagination::serialize_page_token$"
DE = r"^pagination::deserialize_page_token$"
WHICH = r"^pagination::deserialize_whichpage$"
TOKEN_ADT = "pagination::SerializedToken"
VERSION_ADT = "pagination::PaginationVersion"
PARAMS_ADT = "pagination::PaginationParams"

BYTE_LEN = r"^(core::str::<impl str>::len|std::string::String::len|core::slice::<impl \[T\]>::len|std::vec::Vec::<T, A>::len|alloc::string::String::len)$"
JSON_OUT = r"^serde_json::(to_vec|to_string)$"
JSON_IN = r"^serde_json::(from_slice|from_str)$"
B64_ENC = r"^base64::Engine::encode$"
B64_DEC = r"^base64::Engine::decode$"
AS_BYTES = [r"str::<impl str>::as_bytes$", r"string::String::as_bytes$", r"string::String::as_str$", r"Vec::<T, A>::as_slice$"]
PANICS = r"panic|::unwrap$|::expect$|::unwrap_err$|::expect_err$|unwrap_unchecked|ops::Index::index$|ops::IndexMut::index_mut$|process::(exit|abort)$|unreachable"

# WHO-READS table for PaginationParams.limit: function id -> reason
LIMIT_READERS = {
    "handler::RequestContext::<Context>::page_limit": "the clamp itself (decided by C14.R5 DECIDE)",
    "<pagination::PaginationParams<ScanParams, PageSelector> as std::fmt::Debug>::fmt": "derived Debug prints the field; no page size is derived from it",
}


# ------------------------------------------------------------------------------------------------ helpers
VIEWS = AS_BYTES + [r"string::String::into_bytes$"]       # same bytes, other type
STR_VIEWS = [r"string::String::as_str$", r"str::<impl str>::as_ref$"]


def _pure_int_const(sl):
    """The slice is one integer constant and nothing else: (path-or-None, value) else None."""
    if sl.params() or sl.callees:
        return None
    cs = [a for a in sl.atoms if a[0] in ("const", "lit")]
    others = [a for a in sl.atoms if a[0] not in ("const", "lit")]
    if len(cs) != 1 or others:
        return None
    a = cs[0]
    try:
        v = json.loads(a[2] if a[0] == "const" else a[1])
    except Exception:
        return None
    if not isinstance(v, dict) or "int" not in v:
        return None
    return (a[1] if a[0] == "const" else None, v["int"])


def size_bounds(f):
    """Bool switches of f (outside debug_assert! regions) that compare a length with a pure integer constant.
    Each: dict(bb, accept, reject, incl_max, const_path, const_val, rel, len_op, len_slice)."""
    out = []
    reach = f.reachable(0) - f.debug_only_blocks()
    for sbb, t in f.switches():
        if sbb not in reach:
            continue
        c = comparison_of(f, sbb)
        if not c:
            continue
        sa, sb = f.slice(c["a"]), f.slice(c["b"])
        for len_op, len_sl, k_op, k_sl in ((c["a"], sa, c["b"], sb), (c["b"], sb, c["a"], sa)):
            k = _pure_int_const(k_sl)
            if k is None:
                continue
            if not any(re.search(r"::len$|::count$", cn) for cn, bb, tt in len_sl.callees):
                continue
            for rel, x, y, edge in normalise_le(c):
                if x is len_op and y is k_op and rel in ("le", "lt"):
                    acc = c[edge]
                    rej = c["false" if edge == "true" else "true"]
                    out.append({"bb": sbb, "accept": acc, "reject": rej, "incl_max": k[1] if rel == "le" else k[1] - 1,
                                "const_path": k[0], "const_val": k[1], "rel": rel, "len_op": len_op, "len_slice": len_sl})
    return out


def _measured(f, b):
    """What does the bounded quantity measure?  (origins of the compared value, origins of the receiver of every
    length call among them) — variant-aware, so the error side of a `?`/match never counts."""
    lo, _ = L.trace(f, b["len_op"], PLUMBING)
    so = []
    for o in lo:
        if o.kind == "call" and o.node["args"]:
            so += L.trace(f, o.node["args"][0], PLUMBING + VIEWS)[0]
    return lo, so


def _chain(f, start, through=()):
    """(origins, text) of a value; the text names `&mut` borrows taken on the way (in-place mutation the trace cannot see)."""
    o, st = L.trace(f, start, through)
    mb = L.mut_borrows(f, st.locals)
    return o, not mb, L.describe(o) + (" (mutably borrowed on the way at %d place(s))" % len(mb) if mb else "")


def _err_sites(f):
    """Blocks that write a certain Err to the return place: `Err(..)` aggregates reaching _0 and `?` residual conversions."""
    o, _ = L.trace(f, (0, (("dc", "Err"),)))
    reach = f.reachable(0)
    return sorted(set(x.bb for x in o if x.bb in reach and (x.kind == "agg" or (x.kind == "call" and L.FROM_RESIDUAL.search(x.node.get("callee") or "")))))


def _engine_paths(f, term):
    sl = f.slice(term["args"][0])
    return sorted(set(a[1] for a in sl.atoms if a[0] == "const")), sl


def _field_index(ctx, adt, name):
    for i, fl in enumerate(ctx.ds.adts[adt]["variants"][0]["fields"]):
        if fl["name"] == name:
            return i
    return None


def _one_call(ctx, R, f, rx, what):
    cs = f.live_calls(rx)
    if len(cs) != 1:
        ctx.lost(R, "%s in %s (%d call sites)" % (what, f.id, len(cs)))
        return None
    return cs[0]


def _version_variants(ctx, origins):
    """Variant names of PaginationVersion a value can hold, from its origins: an aggregate `PaginationVersion::V1`, or a
    named constant of that type (its evaluated value: a zero-sized value of a single-variant enum is that variant, an
    integer is the variant index of a field-less enum).  None if any origin is something else."""
    adt = ctx.ds.adts[VERSION_ADT]
    names = set()
    for o in origins:
        if o.proj:
            return None
        if o.kind == "agg" and o.info.get("adt") == VERSION_ADT:
            names.add(o.info["variant"])
        elif o.kind == "const" and o.info.get("ty") == VERSION_ADT:
            v = o.info.get("val") or {}
            if v.get("variant") and v.get("adt") == VERSION_ADT:
                names.add(v["variant"])
            elif v.get("zst") and len(adt["variants"]) == 1:
                names.add(adt["variants"][0]["name"])
            elif "int" in v and all(not x["fields"] for x in adt["variants"]) and v["int"] < len(adt["variants"]):
                names.add(adt["variants"][v["int"]]["name"])
            else:
                return None
        else:
            return None
    return sorted(names)


def _is_parsed_field(o, jin_bb, field):
    """origin = field `field` of the Ok payload of the serde_json parse at jin_bb"""
    return o.is_call(JSON_IN, jin_bb) and len(o.proj) == 3 and L._same(o.proj[:2], L.OK_0) and o.proj[2][0] == "f" and o.proj[2][2] == field


# ------------------------------------------------------------------------------------------------ R1
def r1_codec(ctx, rid="C14.R1"):
    R = ctx.rule(rid, "serialize_page_token and deserialize_page_token are inverse pipelines: same base64 engine constant, serde_json on the same SerializedToken<_> type, "
                 "same version variant; the token is base64(json(SerializedToken{v, page_start: the argument})) and the decoder returns exactly the parsed page_start", floor=11)
    fs = ctx.need_fn(ctx.dsn, R, SER)
    fd = ctx.need_fn(ctx.dsn, R, DE)
    enc = _one_call(ctx, R, fs, B64_ENC, "base64 Engine::encode")
    dec = _one_call(ctx, R, fd, B64_DEC, "base64 Engine::decode")
    jout = _one_call(ctx, R, fs, JSON_OUT, "serde_json::to_vec")
    jin = _one_call(ctx, R, fd, JSON_IN, "serde_json::from_slice")
    if not (enc and dec and jout and jin):
        return
    # engine
    pe, _ = _engine_paths(fs, enc[1])
    pd, _ = _engine_paths(fd, dec[1])
    ctx.check(R, "same-base64-engine", len(pe) == 1 and pe == pd, "encoder engine constant %s, decoder engine constant %s" % (pe, pd), (fd, dec[0]))
    # JSON type
    te = (jout[1].get("gargs") or [None])[-1]
    td = (jin[1].get("gargs") or [None])[-1]
    ctx.check(R, "same-json-type", te is not None and te == td and te.startswith(TOKEN_ADT + "<"),
              "serde_json serialises %s and parses %s" % (te, td), (fd, jin[0]))
    # encoder chain: Ok payload <- encode(json bytes) <- Ok payload of to_vec(&SerializedToken{v, page_start: param})
    o, pure, txt = _chain(fs, (0, L.OK_0))
    ctx.check(R, "issued-token-is-the-encoding", L.only_call(o, B64_ENC, enc[0], ()) and pure,
              "the Ok payload returned by the encoder originates from %s (must be the Engine::encode result, untransformed)" % txt, fs)
    o, pure, txt = _chain(fs, enc[1]["args"][1], PLUMBING + VIEWS)
    ctx.check(R, "encoded-bytes-are-the-json", L.only_call(o, JSON_OUT, jout[0], L.OK_0) and pure,
              "Engine::encode's data argument originates from %s (must be the Ok payload of serde_json::to_vec)" % txt, (fs, enc[0]))
    o, pure, txt = _chain(fs, jout[1]["args"][0], PLUMBING)
    vi, pi = _field_index(ctx, TOKEN_ADT, "v"), _field_index(ctx, TOKEN_ADT, "page_start")
    tok = o[0] if len(o) == 1 and o[0].kind == "agg" and o[0].info.get("adt") == TOKEN_ADT and not o[0].proj else None
    written = None
    ctx.check(R, "json-input-is-the-token-struct", tok is not None and pure, "serde_json::to_vec's argument originates from %s (must be one SerializedToken{..} aggregate)" % txt, (fs, jout[0]))
    if tok is None or vi is None or pi is None:
        ctx.lost(R, "the SerializedToken{v, page_start} aggregate serialised by the encoder")
    else:
        sp, _ = L.trace(fs, tok.info["fields"][pi], PLUMBING)
        ctx.check(R, "page_start-is-the-argument", L.only_param(sp, 1), "SerializedToken.page_start originates from %s" % L.describe(sp), (fs, tok.bb))
        sv, _ = L.trace(fs, tok.info["fields"][vi])
        vs = _version_variants(ctx, sv)
        written = vs[0] if vs and len(vs) == 1 else None
        ctx.check(R, "version-written", written is not None, "SerializedToken.v originates from %s = variant %s" % (L.describe(sv), vs), (fs, tok.bb))
    # decoder chain
    o, pure, txt = _chain(fd, dec[1]["args"][1], PLUMBING + AS_BYTES)
    ctx.check(R, "decoded-text-is-the-argument", L.only_param(o, 1) and pure, "Engine::decode's input originates from %s (must be the token text, untransformed)" % txt, (fd, dec[0]))
    o, pure, txt = _chain(fd, jin[1]["args"][0], PLUMBING + AS_BYTES)
    ctx.check(R, "json-parses-the-decoded-bytes", L.only_call(o, B64_DEC, dec[0], L.OK_0) and pure,
              "serde_json::from_slice's input originates from %s (must be the Ok payload of Engine::decode)" % txt, (fd, jin[0]))
    o, pure, txt = _chain(fd, (0, L.OK_0))
    ctx.check(R, "selector-is-parsed-page_start", len(o) == 1 and _is_parsed_field(o[0], jin[0], "page_start") and pure,
              "the Ok payload returned by the decoder originates from %s (must be the page_start field of the parsed token)" % txt, fd)
    # version acceptance
    nvar = len(ctx.ds.adts[VERSION_ADT]["variants"])
    feas = L.Feas(fd)
    accepted = []
    reach = fd.reachable(0) - fd.debug_only_blocks()
    for sbb, t in fd.switches():
        if sbb not in reach:
            continue
        c = comparison_of(fd, sbb)
        if c:
            oa, ob = L.trace(fd, c["a"], PLUMBING)[0], L.trace(fd, c["b"], PLUMBING)[0]
            for val, const in ((oa, ob), (ob, oa)):
                cv = _version_variants(ctx, const)
                if len(val) == 1 and _is_parsed_field(val[0], jin[0], "v") and cv and len(cv) == 1:
                    for rel, x, y, edge in normalise_le(c):
                        if rel == "eq":
                            accepted.append((sbb, c[edge], cv[0]))
        else:
            info = fd.switch_on(sbb)
            if info["kind"] == "discr" and info.get("adt") == VERSION_ADT:
                val = L.trace(fd, info["place"], PLUMBING)[0]
                if len(val) == 1 and _is_parsed_field(val[0], jin[0], "v"):
                    for v, name in info["variants"].items():
                        accepted.append((sbb, fd.switch_target(sbb, v), name))
    oks_bb = L.ok_sites(fd)
    guards = [(sbb, tgt, name) for sbb, tgt, name in accepted if oks_bb and all(feas.edge_dominates(sbb, tgt, ob) for ob in oks_bb)]
    if guards:
        names = sorted(set(n for _, _, n in guards))
        ctx.check(R, "version-accepted-is-version-written", names == [written],
                  "every Ok of the decoder is reached only through `v == %s`; encoder writes %s" % (names, written), (fd, guards[0][0]))
    elif nvar == 1:
        der = [i for i in ctx.ds.impls if "Deserialize" in i["trait"] and i["self"].startswith(VERSION_ADT)]
        ctx.check(R, "version-accepted-is-version-written", bool(der) and written == ctx.ds.adts[VERSION_ADT]["variants"][0]["name"],
                  "PaginationVersion has the single variant %s (written by the encoder); any other text is refused by its derived Deserialize impl (%d impl)" % (written, len(der)), fd, nontrivial=False)
    else:
        ctx.check(R, "version-accepted-is-version-written", False,
                  "PaginationVersion has %d variants but no `v == <variant>` test guards the decoder's Ok" % nvar, fd)


# ------------------------------------------------------------------------------------------------ R2
def r2_bound(ctx, rid="C14.R2"):
    R = ctx.rule(rid, "issuer and acceptor bound the byte length of the same string (after encode / before decode) with normalised predicates `len <= K`; the issuer's largest "
                 "accepted length does not exceed the acceptor's; the accept edges dominate Ok(token) / decoding", floor=7)
    fs = ctx.need_fn(ctx.dsn, R, SER)
    fd = ctx.need_fn(ctx.dsn, R, DE)
    enc = _one_call(ctx, R, fs, B64_ENC, "base64 Engine::encode")
    dec = _one_call(ctx, R, fd, B64_DEC, "base64 Engine::decode")
    if not (enc and dec):
        return
    # issuer: bound on len(encode result); acceptor: bound on len(token text)
    bs = [b for b in size_bounds(fs) if any(bb == enc[0] for _, bb, _ in b["len_slice"].calls(B64_ENC))]
    bd = [b for b in size_bounds(fd) if 1 in b["len_slice"].params()]
    if len(bs) != 1:
        ctx.lost(R, "the issuer's size test on the encoded token (found %d)" % len(bs))
    if len(bd) != 1:
        ctx.lost(R, "the acceptor's size test on the token text (found %d)" % len(bd))
    if len(bs) != 1 or len(bd) != 1:
        return
    bs, bd = bs[0], bd[0]
    for who, f, b in (("issuer", fs, bs), ("acceptor", fd, bd)):
        lo, so = _measured(f, b)
        is_len = bool(lo) and all(o.kind == "call" and not o.proj and re.search(BYTE_LEN, o.node.get("callee") or "") for o in lo)
        of_str = L.only_call(so, B64_ENC, enc[0], ()) if who == "issuer" else L.only_param(so, 1)
        ctx.check(R, "%s-measures-byte-length" % who, is_len and of_str,
                  "%s compares %s of %s with %s=%d (accepts len <= %d); must be the byte length of %s" % (
                      who, L.describe(lo), L.describe(so), b["const_path"] or "literal", b["const_val"], b["incl_max"],
                      "the encoded string" if who == "issuer" else "the token text as received"), (f, b["bb"]))
    ctx.check(R, "issued-length-always-accepted", bs["incl_max"] <= bd["incl_max"],
              "issuer accepts len <= %d (%s %s), acceptor accepts len <= %d (%s %s): %s" % (
                  bs["incl_max"], "<=" if bs["rel"] == "le" else "<", bs["const_path"] or bs["const_val"], bd["incl_max"], "<=" if bd["rel"] == "le" else "<", bd["const_path"] or bd["const_val"],
                  "every issued token passes the acceptor's size test" if bs["incl_max"] <= bd["incl_max"] else
                  "a token of length %d is issued and then refused as too large" % bs["incl_max"]), (fd, bd["bb"]))
    # dominance: issuer (path facts know the variant of Result locals, so `check(..)?` guards as well as an early return)
    feas_s, feas_d = L.Feas(fs), L.Feas(fd)
    oks = L.ok_sites(fs)
    rej_s = feas_s.after_edge(bs["bb"], bs["reject"])
    ctx.check(R, "issuer-bound-dominates-Ok", bool(oks) and all(feas_s.edge_dominates(bs["bb"], bs["accept"], ob) for ob in oks) and not any(ob in rej_s for ob in oks),
              "every Ok(token) is reached only through the `len <= %d` edge; the other edge reaches no Ok" % bs["incl_max"], (fs, bs["bb"]))
    # the measured string is the returned string
    o, _ = L.ok_payload(fs)
    ctx.check(R, "issuer-measures-what-it-returns", L.only_call(o, B64_ENC, enc[0], ()), "the measured string and the returned token are the same Engine::encode result (returned: %s)" % L.describe(o), fs)
    # dominance: acceptor
    parse_sites = [dec[0]] + [bb for bb, _ in fd.live_calls(JSON_IN)]
    rej = feas_d.after_edge(bd["bb"], bd["reject"])
    okd = L.ok_sites(fd)
    ctx.check(R, "acceptor-bound-dominates-decoding", all(feas_d.edge_dominates(bd["bb"], bd["accept"], p) for p in parse_sites)
              and not any(p in rej for p in parse_sites) and not any(ob in rej for ob in okd),
              "base64/JSON parsing and Ok are reached only through the `len <= %d` edge; the over-long edge parses nothing and returns Err" % bd["incl_max"], (fd, bd["bb"]))
    errs = _err_sites(fd)
    ctx.check(R, "over-long-is-Err", bool(errs) and feas_d.must_pass_after(bd["bb"], bd["reject"], errs), "the over-long edge always passes an Err(..) return value", (fd, bd["reject"]))
    ctx.notes["token_bound"] = {"issuer_max_len": bs["incl_max"], "acceptor_max_len": bd["incl_max"]}


# ------------------------------------------------------------------------------------------------ R3
def _is_custom(ctx, tr):
    if tr[0] == "fn":
        return tr[1].endswith("de::Error::custom")
    if tr[0] == "closure":
        g = ctx.dsn.F.get(tr[1])
        if g is None:
            return False
        o, _ = L.trace(g, (0, ()), PLUMBING)
        return bool(o) and all(x.is_call(r"de::Error::custom$") for x in o)
    return False


def r3_failures(ctx, rid="C14.R3"):
    R = ctx.rule(rid, "every decoder failure is an Err(String) which deserialize_whichpage maps through serde::de::Error::custom and propagates; the query loader turns "
                 "the deserialisation error into for_bad_request (400); the decoder region contains no panic site", floor=8)
    fd = ctx.need_fn(ctx.dsn, R, DE)
    fw = ctx.need_fn(ctx.dsn, R, WHICH)
    ret = fd.local_ty(0)
    ctx.check(R, "decoder-error-type", bool(re.match(r"^std::result::Result<.*, std::string::String>$", ret)), "deserialize_page_token returns %s" % ret, fd, nontrivial=False)
    # census of panics: one instance per function, covering its closures (debug_assert! regions are not in the shipped build)
    for root in (fd, fw):
        pan, asserts, n = [], 0, 0
        for g in [root] + ctx.dsn.descendants(root):
            n += 1
            reach = g.reachable(0) - g.debug_only_blocks()
            pan += [t["callee"] for bb, t in g.calls(PANICS) if bb in reach]
            asserts += len([b["bb"] for b in g.blocks if b["term"]["t"] == "assert" and not b["cleanup"] and b["bb"] in reach])
        ctx.check(R, "no-panic-site:%s" % root.id, not pan and not asserts, "%d bodies (function + closures): panic-capable calls %s, checked-arithmetic/bounds asserts %d" % (n, pan, asserts), root)
    # only caller
    cs = callers(ctx.dsn, DE)
    ctx.check(R, "decoder-called-only-by-whichpage", [f.id for f, _, _ in cs] == [fw.id], "callers of deserialize_page_token: %s" % [f.id for f, _, _ in cs], fw)
    if len(cs) != 1 or cs[0][0] is not fw:
        return
    _, cbb, ct = cs[0]
    # forward flow of the decoder's Err payload: `.map_err(custom)?`, `?` then map_err, `match { Err(m) => Err(custom(m)) }` are the same flow
    ends = L.err_flow(fw, ct["dest"]["l"])
    returned = [e for e in ends if e["kind"] == "returned"]
    unknown = [e for e in ends if e["kind"] != "returned"]
    passthrough = re.compile(r"convert::(From::from|Into::into)$")

    def fine(e):
        cust = [t for t in e["transforms"] if _is_custom(ctx, t)]
        rest = [t for t in e["transforms"] if not _is_custom(ctx, t) and t != ("from",) and not (t[0] == "fn" and passthrough.search(t[1]))]
        return len(cust) == 1 and not rest

    def show(e):
        return "[%s]" % ", ".join("?" if t == ("from",) else t[1].split("::")[-1] for t in e["transforms"])
    ctx.check(R, "token-error-becomes-serde-error", bool(returned) and not unknown and all(fine(e) for e in returned),
              "the decoder's Err(String) is returned after %s; other uses of it: %s (must be exactly serde::de::Error::custom)" % (
                  [show(e) for e in returned] or "nothing", [e["detail"] for e in unknown] or "none"), (fw, cbb))
    sites = [e["bb"] for e in returned if e["bb"] is not None]
    # where the decoder's Result -- or the Result it was moved / wrapped and transposed into (`Some(r).transpose()?`) -- is split
    split = None
    for l in [ct["dest"]["l"]] + [x for x in ends.results if x != ct["dest"]["l"]]:
        split = result_split(fw, l)
        if split:
            break
    feas = L.Feas(fw)
    oks = L.ok_sites(fw)
    if split:
        after = feas.after_edge(split["switch_bb"], split["err"])
        prop = bool(sites) and feas.must_pass_after(split["switch_bb"], split["err"], sites) and not any(ob in after for ob in oks)
        where = (fw, split["switch_bb"])
        how = "the Err edge of the %s on the decoder's result" % split["via"][-1]
    else:
        prop = bool(sites) and ct.get("to") is not None and fw.must_pass(sites, start=ct["to"])
        where = (fw, cbb)
        how = "the decoder's result is never split: it"
    ctx.check(R, "token-error-propagates", prop, "%s always reaches the return of the mapped error and builds no Ok / WhichPage" % how, where)
    # the query loader
    # (normalised view: `.map_err(f)?`, `match .. { Err(e) => return Err(f(e)) }` and a helper called from either are one program)
    ql = callers(ctx.dsn, r"^serde_urlencoded::(from_str|from_bytes)$")
    ctx.check(R, "one-query-loader", len(ql) == 1, "callers of serde_urlencoded::from_str|from_bytes: %s" % [f.id for f, _, _ in ql], ql[0][0] if ql else None)
    st400 = status_const_of_ctor(ctx.ds, "for_bad_request")
    for f, qbb, qt in ql:
        # every Err the loader can return is built by for_bad_request: `Err(for_bad_request(..))` in a match arm,
        # `.map_err(|e| for_bad_request(..))`, or a helper called from either (helpers are inlined)
        ctors, _ = _error_ctors(ctx, f)
        # ... and a parse failure is never turned into Ok
        split = result_split(f, qt["dest"]["l"])
        if split:
            feas = L.Feas(f)
            after = feas.after_edge(split["switch_bb"], split["err"])
            kept = not any(ob in after for ob in L.ok_sites(f))
        else:
            ends = L.err_flow(f, qt["dest"]["l"])
            kept = bool(ends) and all(e["kind"] == "returned" for e in ends)
        ctx.check(R, "query-error-is-400:%s" % f.id, ctors == ["error::HttpError::for_bad_request"] and kept and st400 == {400},
                  "every Err(..) of the loader is built by %s; a parse failure always returns Err=%s; for_bad_request status %s" % (ctors or "nothing", kept, sorted(st400 or [])), (f, qbb))


def _error_ctors(ctx, f):
    """Names of the functions that build the Err payloads f can return (through map_err closures / fn items)."""
    errs, _ = L.trace(f, (0, L.ERR_0), PLUMBING)
    names = set()
    for o in errs:
        if o.is_call(r"Result::<T, E>::map_err$", None, L.ERR_0) and len(o.node["args"]) > 1:
            a = o.node["args"][1]
            if a.get("k") == "const" and a.get("fn"):
                names.add(a["fn"])
                continue
            g, _n = closure_of_operand(f, a)
            if g is None:
                names.add("<opaque error mapper>")
                continue
            ro, _ = L.trace(g, (0, ()), PLUMBING)
            for x in ro:
                names.add(x.node.get("callee") or "<indirect>" if x.kind == "call" and not x.proj else x.describe())
            if not ro:
                names.add("<nothing>")
        elif o.kind == "call" and not o.proj:
            names.add(o.node.get("callee") or "<indirect>")
        else:
            names.add(o.describe())
    return sorted(names), errs


# ------------------------------------------------------------------------------------------------ R4
def r4_token_wins(ctx, rid="C14.R4"):
    R = ctx.rule(rid, "deserialize_whichpage: on the Some arm of get(\"page_token\") only the token is consulted (deserialize_page_token of that value -> WhichPage::Next); "
                 "from_map(raw parameters) -> WhichPage::First happens only on the None arm", floor=7)
    fw = ctx.need_fn(ctx.dsn, R, WHICH)
    gets = [(bb, t) for bb, t in fw.live_calls(r"BTreeMap::<K, V, A>::get$|HashMap::<K, V, S>::get$") if "page_token" in [lit_str_of(fw, t["args"][1])]]
    if len(gets) != 1:
        ctx.lost(R, "map.get(\"page_token\") in deserialize_whichpage (%d)" % len(gets))
        return
    gbb, gt = gets[0]
    sch = ctx.ds.adts.get("pagination::SchemaPaginationParams")
    names = [fl["name"] for fl in sch["variants"][0]["fields"]] if sch else []
    ctx.check(R, "key-is-the-documented-parameter", "page_token" in names and "limit" in names, "schema struct documents query parameters %s; the lookup key is \"page_token\"" % names, (fw, gbb), nontrivial=False)
    # the test(s) of the presence of the key, in any spelling (match / if let / let-else / is_some), directly on the lookup
    # result or on an Option that is Some exactly when it is (`get(k).map(decode).transpose()?` matched afterwards)
    feas = L.Feas(fw)
    tests = L.presence_tests(fw, feas, lambda o: o.is_call(r"::get$", gbb, ()), PLUMBING)
    if not tests:
        ctx.lost(R, "the Some/None test of the result of get(\"page_token\") (0 tests)")
        return
    sbb, some_t, none_t = tests[0]
    some_r = set().union(*[feas.after_edge(s, st_) for s, st_, nt_ in tests])

    def on_some(bb):
        return any(feas.edge_dominates(s, st_, bb) for s, st_, nt_ in tests)

    def on_none(bb):
        return any(feas.edge_dominates(s, nt_, bb) for s, st_, nt_ in tests)
    dps = fw.live_calls(DE)
    fms = fw.live_calls(r"^from_map::from_map$")
    pages, _ = L.ok_payload(fw)
    nexts = [o for o in pages if o.kind == "agg" and o.info.get("adt") == "pagination::WhichPage" and o.info.get("variant") == "Next" and not o.proj]
    firsts = [o for o in pages if o.kind == "agg" and o.info.get("adt") == "pagination::WhichPage" and o.info.get("variant") == "First" and not o.proj]
    others = [o for o in pages if o not in nexts and o not in firsts]
    ctx.check(R, "some-arm-decodes-the-token", len(dps) == 1 and all(on_some(bb) for bb, _ in dps),
              "deserialize_page_token call sites: %d, all on the Some edge" % len(dps), (fw, sbb))
    for bb, t in dps:
        o, _ = L.trace(fw, t["args"][0], PLUMBING + STR_VIEWS)
        ctx.check(R, "decoder-input-is-the-token-value", L.only_call(o, r"::get$", gbb, L.SOME_0),
                  "deserialize_page_token's argument originates from %s (must be the Some payload of get(\"page_token\"))" % L.describe(o), (fw, bb))
    # with a token present nothing else is consulted: a from_map call / a First page either sits where some test of the
    # presence has taken its None edge, or (from_map only) cannot execute after any Some edge
    bad_fm = [bb for bb, _ in fms if not on_none(bb) and bb in some_r]
    bad_first = [o.bb for o in firsts if not on_none(o.bb)]
    ctx.check(R, "some-arm-ignores-scan-params", not bad_fm and not bad_first,
              "from_map / WhichPage::First reachable on the Some edge: %s" % (bad_fm != [] or bad_first != []), (fw, some_t))
    ok_next = len(nexts) >= 1 and not others
    for o in nexts:
        po, _ = L.trace(fw, o.info["fields"][0], PLUMBING)
        ok_next = ok_next and len(dps) == 1 and L.only_call(po, DE, dps[0][0], L.OK_0) and on_some(o.bb)
    ctx.check(R, "next-is-the-decoded-selector", ok_next, "returned pages: %s; WhichPage::Next(..) sites %d: payload is the Ok payload of deserialize_page_token, on the Some edge" % (L.describe(pages), len(nexts)), fw)
    ok_first = len(firsts) >= 1 and len(fms) >= 1 and not others
    for o in firsts:
        po, _ = L.trace(fw, o.info["fields"][0], PLUMBING)
        ok_first = ok_first and len(po) == 1 and po[0].is_call(r"^from_map::from_map$", None, L.OK_0) and po[0].bb in [bb for bb, _ in fms] and on_none(o.bb)
    ctx.check(R, "first-is-from_map-on-none-arm", ok_first and all(on_some(bb) for bb, _ in dps) and all(on_some(o.bb) for o in nexts),
              "WhichPage::First(..) sites %d: payload is the Ok payload of from_map(raw params), only on the None edge; no token decoding on the None edge" % len(firsts), fw)
    # from_map reads the same map that was searched
    b, _ = L.trace(fw, gt["args"][0], PLUMBING)
    for bb, t in fms:
        a, _ = L.trace(fw, t["args"][0], PLUMBING)
        same = len(a) == 1 and len(b) == 1 and a[0].is_call(r"Deserialize::deserialize$", None, L.OK_0) and b[0].is_call(r"Deserialize::deserialize$", a[0].bb, L.OK_0)
        ctx.check(R, "one-raw-map", same, "from_map reads %s, get(\"page_token\") searches %s (must be the same deserialised parameter map)" % (L.describe(a), L.describe(b)), (fw, bb))


def lit_str_of(f, op):
    """String literal an operand evaluates to (through refs / copies), else None."""
    s = lit_str(op)
    if s is not None:
        return s
    sl = f.slice(op)
    if sl.callees or sl.params():
        return None
    vals = set()
    for a in sl.atoms:
        if a[0] in ("lit", "const"):
            try:
                v = json.loads(a[1] if a[0] == "lit" else a[2])
            except Exception:
                v = None
            if isinstance(v, dict) and "str" in v:
                vals.add(v["str"])
    return vals.pop() if len(vals) == 1 else None


# ------------------------------------------------------------------------------------------------ R5
def _mk_struct(ctx, adt, vals):
    fields = ctx.ds.adts[adt]["variants"][0]["fields"]
    return A.V_struct(adt, [vals.get(fl["name"], A.V_opaque(fl["name"])) for fl in fields])


def r5_limit(ctx, rid="C14.R5"):
    R = ctx.rule(rid, "PaginationParams.limit is a crate-private Option<NonZeroU32> read only by page_limit, and page_limit(Some(l)) = Ok(min(l, page_max_nitems)), "
                 "page_limit(None) = Ok(page_default_nitems) for every weak order of {l, max, default}", floor=22)
    adt = ctx.ds.adts.get(PARAMS_ADT)
    if not adt:
        ctx.lost(R, "ADT table of PaginationParams")
        return
    fl = [x for x in adt["variants"][0]["fields"] if x["name"] == "limit"]
    if len(fl) != 1:
        ctx.lost(R, "field PaginationParams.limit")
        return
    fl = fl[0]
    ctx.check(R, "limit-type", bool(re.match(r"^std::option::Option<std::num::NonZero<u(8|16|32|64|size)>>$", fl["ty"])),
              "limit: %s (zero and negative values are unrepresentable; serde refuses them and non-numeric text at extraction)" % fl["ty"], nontrivial=False)
    ctx.check(R, "limit-not-public", fl["vis"] != "Public", "visibility of limit: %s" % fl["vis"].split("(")[0], nontrivial=False)
    cfg = ctx.ds.adts.get("server::ServerConfig")
    tys = {x["name"]: x["ty"] for x in cfg["variants"][0]["fields"]} if cfg else {}
    inner = re.sub(r"^std::option::Option<(.*)>$", r"\1", fl["ty"])
    ctx.check(R, "config-types", tys.get("page_max_nitems") == inner and tys.get("page_default_nitems") == inner,
              "ServerConfig.page_max_nitems: %s, page_default_nitems: %s" % (tys.get("page_max_nitems"), tys.get("page_default_nitems")), nontrivial=False)
    # who reads the field
    li = _field_index(ctx, PARAMS_ADT, "limit")
    readers = set()

    def walk(o, g):
        if isinstance(o, dict):
            if "l" in o and "p" in o and isinstance(o["p"], list):
                for e in o["p"]:
                    if isinstance(e, dict) and e.get("n") == "limit" and e.get("f") == li:
                        readers.add(g.id)
            for v in o.values():
                walk(v, g)
        elif isinstance(o, list):
            for v in o:
                walk(v, g)
    for g in ctx.ds.F.values():
        if any("pagination::PaginationParams<" in t for t in g.raw["locals"]):
            walk(g.blocks, g)
    for r in sorted(readers):
        ctx.check(R, "limit-reader:%s" % r, r in LIMIT_READERS, LIMIT_READERS.get(r, "a function outside the reviewed table reads PaginationParams.limit"), ctx.ds.F[r])
    f = ctx.need_fn(ctx.ds, R, r"^handler::RequestContext::<Context>::page_limit$")
    ctx.check(R, "page_limit-reads-limit", f.id in readers, "page_limit reads pag_params.limit", f)
    summ = {"std::num::NonZero::<T>::get": lambda it, argv, t: it.deref_all(argv[0])}

    # logging and formatting do not take part in the computation: their callees are opaque, and a branch on an opaque
    # value (the log-level test of a slog macro) is explored both ways
    LOGGING = [r"^slog::", r"<slog::", r"^core::fmt::", r"^std::fmt::", r"^alloc::fmt::"]

    def run(order, limit, ch=()):
        it = A.Interp(ctx.ds, order, summaries=summ, opaque_callees=LOGGING, sym_types=(r"^std::num::NonZero<u\d+>$", r"^u\d+$", r"^usize$"), choices=ch)
        config = _mk_struct(ctx, "server::ServerConfig", {"page_max_nitems": A.V_sym("max"), "page_default_nitems": A.V_sym("default")})
        state = _mk_struct(ctx, "server::DropshotState", {"config": config})
        rq = _mk_struct(ctx, "handler::RequestContext", {"server": state, "log": A.V_opaque("log")})
        pp = _mk_struct(ctx, PARAMS_ADT, {"limit": limit})
        try:
            return it, A.strip(it.call_fn(f, [A.V_ref(A.Cell(rq)), A.V_ref(A.Cell(pp))]))
        except A.LeavesFragment as e:
            return it, "interpreter aborted: %s" % e

    def outcomes(order, limit):
        last = []
        def go(ch):
            it, res = run(order, limit, ch)
            last[:] = [it]
            return it, res
        try:
            return A.explore(go), last[0]
        except A.LeavesFragment as e:
            return ["interpreter aborted: %s" % e], (last[0] if last else None)

    def is_min(got, order):
        return isinstance(got, tuple) and got[0] == "enum" and got[1] == "Ok" and len(got[2]) == 1 and got[2][0][0] == "sym" and got[2][0][1] in ("l", "max") \
            and order[got[2][0][1]] == min(order["l"], order["max"])
    for order in A.weak_orders(["l", "max", "default"]):
        key = "page_limit(Some(l)) under %s" % A.order_str(order)
        gots, it = outcomes(order, A.V_some(A.V_sym("l")))
        ok = bool(gots) and all(is_min(g, order) for g in gots)
        shown = [A.show(_unstrip(g)) if isinstance(g, tuple) else g for g in gots]
        ctx.check(R, key, ok, "code=%s on %d path(s) spec=Ok(min(l,max)) (%s)" % (sorted(set(shown)), len(gots), it.cmp_log if it else ""), f)
    for order in A.weak_orders(["max", "default"]):
        key = "page_limit(None) under %s" % A.order_str(order)
        gots, it = outcomes(order, A.V_none())
        shown = [A.show(_unstrip(g)) if isinstance(g, tuple) else g for g in gots]
        ctx.check(R, key, bool(gots) and all(g == ("enum", "Ok", (("sym", "default"),)) for g in gots), "code=%s on %d path(s) spec=Ok(default)" % (sorted(set(shown)), len(gots)), f)
    ctx.assume("NonZeroU32's Ord is the numeric order of its value; serde's Deserialize for NonZeroU32 refuses 0, negative and non-numeric text")


def _unstrip(v):
    """strip() output back into a showable value."""
    if isinstance(v, tuple) and v and v[0] == "enum":
        return ("enum", "", 0, v[1], [_unstrip(x) for x in v[2]])
    if isinstance(v, tuple) and v and v[0] == "struct":
        return ("struct", v[1], [_unstrip(x) for x in v[2]])
    if isinstance(v, tuple) and v and v[0] == "tuple":
        return ("tuple", [_unstrip(x) for x in v[1]])
    return v


_INT_BITS = {"u8": 8, "i8": 8, "u16": 16, "i16": 16, "u32": 32, "i32": 32, "u64": 64, "i64": 64, "u128": 128, "i128": 128, "usize": 64, "isize": 64, "bool": 1, "char": 32}


def r6_no_lossy_cast(ctx, rid="C14.R6"):
    """Added after adversary change C14-F: `limit` was parsed as u64 "to clamp instead of refusing" and narrowed with `as u32`, so
    limit=4294967297 produced pages of one item."""
    R = ctx.rule(rid, "no numeric value of the pagination path (limit, token length, version) is narrowed or re-signed by an `as` cast: every integer cast in pagination.rs, its "
                 "serde helpers and RequestContext::page_limit is value-preserving (to a type at least as wide with the same signedness, or from bool/unsigned into a wider type)", floor=1)
    fns = [f for f in ctx.ds.F.values() if re.search(r"^<*pagination::|^handler::RequestContext::<Context>::page_limit", f.id)]
    ctx.check(R, "pagination-functions", len(fns) >= 20, "functions examined: %d" % len(fns), None, nontrivial=False)
    for f in fns:
        for bb, i, st in f.stmts():
            rv = st["rv"]
            if rv["rv"] != "cast" or "IntToInt" not in rv.get("kind", "") or bb not in f.reachable(0):
                continue
            op = rv["op"]
            src = (f.local_ty(op["pl"]["l"]) if op.get("pl") and not op["pl"]["p"] else op.get("ty")) or "?"
            dst = rv.get("ty") or "?"
            sb, db = _INT_BITS.get(src), _INT_BITS.get(dst)
            signed = lambda t: t.startswith("i")
            ok = sb is not None and db is not None and ((signed(src) == signed(dst) and db >= sb) or (not signed(src) and db > sb))
            ctx.check(R, "cast:%s:%s->%s" % (f.id, src, dst), ok, "`as` cast from %s to %s %s" % (src, dst, "preserves the value" if ok else "can change the value (truncation / sign change)"), (f, bb))


def r7_envelope_fields_required(ctx, rid="C14.R7"):
    """Added after adversary change C14-H: `#[serde(default)]` on the token's version field (with V1 as the default) made a token without any
    version acceptable."""
    R = ctx.rule(rid, "a token that lacks a part of its envelope is refused: the derived deserialiser of SerializedToken reports every field of the struct (the version and the page start) "
                 "as missing when absent, and falls back to no default", floor=3)
    adt = ctx.ds.adts.get("pagination::SerializedToken")
    fields = [fl["name"] for fl in adt["variants"][0]["fields"]] if adt else []
    ctx.check(R, "envelope-fields", "v" in fields and "page_start" in fields, "fields of SerializedToken: %s" % fields, None, nontrivial=False)
    vms = [f for f in ctx.ds.F.values() if re.search(r"impl .*Deserialize<'de> for pagination::SerializedToken<.*::visit_map$", f.id)]
    if len(vms) != 1:
        ctx.lost(R, "the derived Visitor::visit_map of SerializedToken (%d found)" % len(vms))
        return
    vm = vms[0]
    reported = []
    for g in [vm] + ctx.ds.descendants(vm):
        for bb, t in g.live_calls(r"_serde::__private::de::missing_field$"):
            for a in t["args"]:
                v = (a.get("val") or {}).get("str") if a.get("k") == "const" else None
                if v is not None:
                    reported.append(v)
    for name in fields:
        ctx.check(R, "absent-%s-is-an-error" % name, name in reported, "visit_map reports a missing `%s` through serde's missing_field: %s" % (name, name in reported), vm)
    defaults = [t["callee"] for g in [vm] + ctx.ds.descendants(vm) for bb, t in g.live_calls(r"default::Default::default$")]
    ctx.check(R, "no-default-for-absent-fields", not defaults, "Default::default calls in the derived visit_map: %d" % len(defaults), vm)


RULES = [("C14.R1", r1_codec), ("C14.R2", r2_bound), ("C14.R3", r3_failures), ("C14.R4", r4_token_wins), ("C14.R5", r5_limit), ("C14.R6", r6_no_lossy_cast), ("C14.R7", r7_envelope_fields_required)]

PG = "dropshot/src/pagination.rs"
HD = "dropshot/src/handler.rs"
_DEC_BOUND = "if token_str.len() > MAX_TOKEN_LENGTH {"
_ENC_BOUND = "if token_bytes.len() > MAX_TOKEN_LENGTH {"
_DEC_DOC = "/// Deserialize a token from the given string into the consumer's page selector\n"
_LEN_HELPER = """fn check_token_length(token: &str) -> Result<(), String> {
    if token.len() > MAX_TOKEN_LENGTH {
        return Err(String::from("failed to parse pagination token: too large"));
    }
    Ok(())
}

"""
_CLAMP = ".map(|limit| min(limit, server_config.page_max_nitems))"
_SOME_ARM = """        Some(page_token) => {
            let page_start = deserialize_page_token(&page_token)"""

_WHICH_BODY = """    match raw_params.get("page_token") {
        Some(page_token) => {
            let page_start = deserialize_page_token(&page_token)
                .map_err(serde::de::Error::custom)?;
            Ok(WhichPage::Next(page_start))
        }
        None => {
            let scan_params =
                from_map(&raw_params).map_err(serde::de::Error::custom)?;
            Ok(WhichPage::First(scan_params))
        }
    }
}
"""
_TWO_STEP = """    let resume_from: Option<PageSelector> = raw_params
        .get("page_token")
        .map(|token| deserialize_page_token(token))
        .transpose()
        %s
    %smatch resume_from {
        Some(page_start) => Ok(WhichPage::Next(page_start)),
        None => from_map(&raw_params).map(WhichPage::First).map_err(serde::de::Error::custom),
    }
}
"""

SELFTEST = [
    {"name": "whichpage-two-step-transpose", "kind": "benign", "edits": [(PG, _WHICH_BODY, _TWO_STEP % (".map_err(serde::de::Error::custom)?;", ""))],
     "why": "behaviour-preserving: first `get(k).map(decode).transpose().map_err(custom)?` yields an Option<PageSelector>, then a match on that Option; the second test is Some exactly when the key is present "
            "(lib_c14.presence_tests), so from_map still happens only without a token"},
    {"name": "whichpage-two-step-reads-scan-params", "kind": "mutant", "expect": ["C14.R4"],
     "edits": [(PG, _WHICH_BODY, _TWO_STEP % (".map_err(serde::de::Error::custom)?;", "let _scan: ScanParams = from_map(&raw_params).map_err(serde::de::Error::custom)?;\n    "))],
     "why": "twin of whichpage-two-step-transpose: the scan parameters are parsed (and their errors returned) between the two steps, also when a token is present"},
    {"name": "whichpage-two-step-error-falls-back", "kind": "mutant", "expect": ["C14.R3", "C14.R4"],
     "edits": [(PG, _WHICH_BODY, _TWO_STEP % (".unwrap_or(None);", ""))],
     "why": "twin of whichpage-two-step-transpose: a malformed token becomes `no token` and the scan silently restarts from the first page"},
    {"name": "dec-rejects-ge-max", "kind": "mutant", "edits": [(PG, _DEC_BOUND, "if token_str.len() >= MAX_TOKEN_LENGTH {")], "expect": ["C14.R2"],
     "why": "a 512-byte token is issued but refused (Appendix B)"},
    {"name": "enc-bound-1024", "kind": "mutant", "edits": [(PG, _ENC_BOUND, "if token_bytes.len() > 1024 {")], "expect": ["C14.R2"],
     "why": "tokens of 513..1024 bytes are issued and then refused"},
    {"name": "dec-no-bound", "kind": "mutant", "edits": [(PG, _DEC_BOUND, "if false {")], "expect": ["C14.R2"],
     "why": "over-long tokens are parsed instead of refused"},
    {"name": "dec-standard-engine", "kind": "mutant", "edits": [(PG, "    let json_bytes = URL_SAFE\n        .decode(", "    let json_bytes = base64::engine::general_purpose::STANDARD\n        .decode(")],
     "expect": ["C14.R1"], "why": "tokens containing '-' or '_' no longer decode (Appendix B)"},
    {"name": "dec-trims-token", "kind": "mutant", "edits": [(PG, ".decode(token_str.as_bytes())", ".decode(token_str.trim_end_matches('=').as_bytes())")],
     "expect": ["C14.R1"], "why": "issued tokens with padding are refused by the padded engine"},
    {"name": "some-arm-reads-scan-params", "kind": "mutant",
     "edits": [(PG, _SOME_ARM, "        Some(page_token) => {\n            let _scan: ScanParams = from_map(&raw_params).map_err(serde::de::Error::custom)?;\n            let page_start = deserialize_page_token(&page_token)")],
     "expect": ["C14.R4"], "why": "with a token present, missing/invalid scan parameters now fail the request (Appendix B)"},
    {"name": "clamp-max-for-min", "kind": "mutant", "edits": [(HD, _CLAMP, ".map(|limit| std::cmp::max(min(limit, limit), server_config.page_max_nitems))")],
     "expect": ["C14.R5"], "why": "client limit is raised to the maximum instead of capped (Appendix B)"},
    {"name": "limit-option-u32", "kind": "mutant",
     "edits": [(PG, "    pub(crate) limit: Option<NonZeroU32>,", "    pub(crate) limit: Option<u32>,"),
               (HD, "            .limit\n", "            .limit\n            .and_then(std::num::NonZeroU32::new)\n")],
     "expect": ["C14.R5"], "why": "limit=0 is accepted and treated as absent instead of refused (Appendix B)"},
    {"name": "dec-expect-on-base64", "kind": "mutant",
     "edits": [(PG, '        .map_err(|e| format!("failed to parse pagination token: {}", e))?;', '        .expect("valid base64");')],
     "expect": ["C14.R3"], "why": "a token that is not base64 panics the request task instead of a 400"},
    {"name": "limit-public", "kind": "mutant", "edits": [(PG, "    pub(crate) limit: Option<NonZeroU32>,", "    pub limit: Option<NonZeroU32>,")],
     "expect": ["C14.R5"], "why": "consumers can read the unclamped limit"},
    {"name": "dec-bound-helper-result-ignored", "kind": "mutant",
     "edits": [(PG, _DEC_BOUND + "\n        return Err(String::from(\n            \"failed to parse pagination token: too large\",\n        ));\n    }\n", "let _ = check_token_length(token_str);\n"),
               (PG, _DEC_DOC, _LEN_HELPER + _DEC_DOC)],
     "expect": ["C14.R2"], "why": "the size check moved into a Result-returning helper whose result is dropped: over-long tokens are parsed (twin of the benign dec-bound-in-result-helper)"},
    {"name": "whichpage-token-error-falls-back", "kind": "mutant",
     "edits": [(PG, _SOME_ARM + "\n                .map_err(serde::de::Error::custom)?;\n            Ok(WhichPage::Next(page_start))",
                """        Some(page_token) => {
            match deserialize_page_token(&page_token) {
                Ok(page_start) => Ok(WhichPage::Next(page_start)),
                Err(_) => from_map(&raw_params).map(WhichPage::First).map_err(serde::de::Error::custom),
            }""")],
     "expect": ["C14.R3", "C14.R4"], "why": "a malformed token is no longer refused: the request silently restarts the scan from the first page"},
    {"name": "dec-bound-in-result-helper", "kind": "benign",
     "edits": [(PG, _DEC_BOUND + "\n        return Err(String::from(\n            \"failed to parse pagination token: too large\",\n        ));\n    }\n", "check_token_length(token_str)?;\n"),
               (PG, _DEC_DOC, _LEN_HELPER + _DEC_DOC)],
     "why": "behaviour-preserving: the early-return size check extracted into `fn check_token_length(..) -> Result<(), String>` and applied with `?` "
            "(the helper is inlined; path facts know which variant the helper's Result holds)"},
    {"name": "whichpage-match-and-chains", "kind": "benign",
     "edits": [(PG, _SOME_ARM + "\n                .map_err(serde::de::Error::custom)?;\n            Ok(WhichPage::Next(page_start))",
                """        Some(page_token) => {
            match deserialize_page_token(page_token.as_str()) {
                Ok(page_start) => Ok(WhichPage::Next(page_start)),
                Err(message) => Err(serde::de::Error::custom(message)),
            }"""),
               (PG, "            let scan_params =\n                from_map(&raw_params).map_err(serde::de::Error::custom)?;\n            Ok(WhichPage::First(scan_params))",
                "            from_map(&raw_params).map(WhichPage::First).map_err(serde::de::Error::custom)")],
     "why": "behaviour-preserving: `.map_err(custom)?` + Ok(..) written as an explicit match / as a `.map(Ctor).map_err(custom)` chain"},
    {"name": "enc-match-and-debug-assert", "kind": "benign",
     "edits": [(PG, """            serde_json::to_vec(&serialized_token).map_err(|e| {
                HttpError::for_internal_error(format!(
                    "failed to serialize token: {}",
                    e
                ))
            })?;""", """            match serde_json::to_vec(&serialized_token) {
                Ok(bytes) => bytes,
                Err(e) => {
                    return Err(HttpError::for_internal_error(format!(
                        "failed to serialize token: {}",
                        e
                    )));
                }
            };"""),
               (PG, "    Ok(token_bytes)\n}", "    debug_assert!(token_bytes.len() <= MAX_TOKEN_LENGTH);\n    Ok(token_bytes)\n}")],
     "why": "behaviour-preserving: `.map_err(..)?` written as match + return Err, and a debug_assert! restating the bound (not in release builds)"},
    {"name": "bound-commuted", "kind": "benign", "edits": [(PG, _DEC_BOUND, "if MAX_TOKEN_LENGTH < token_str.len() {"), (PG, _ENC_BOUND, "if !(token_bytes.len() <= MAX_TOKEN_LENGTH) {")],
     "why": "behaviour-preserving: same predicate spelled `K < len` and `!(len <= K)`"},
    {"name": "bound-via-local", "kind": "benign", "edits": [(PG, _DEC_BOUND, "let n = token_str.as_bytes().len();\n    let too_long = n > MAX_TOKEN_LENGTH;\n    if too_long {")],
     "why": "behaviour-preserving: byte length through as_bytes() and locals, comparison result bound to a local before the branch"},
    {"name": "enc-stricter-bound", "kind": "benign", "edits": [(PG, _ENC_BOUND, "if token_bytes.len() >= MAX_TOKEN_LENGTH {")],
     "why": "not identical behaviour but property-preserving: the issuer is stricter than the acceptor, every issued token is still accepted"},
    {"name": "whichpage-if-let", "kind": "benign",
     "edits": [(PG, '    match raw_params.get("page_token") {\n        Some(page_token) => {', '    let tok = raw_params.get("page_token");\n    match tok {\n        Some(page_token) => {')],
     "why": "behaviour-preserving: scrutinee bound to a local first"},
    {"name": "clamp-as-match", "kind": "benign",
     "edits": [(HD, _CLAMP, ".map(|requested| if requested > server_config.page_max_nitems { server_config.page_max_nitems } else { requested })")],
     "why": "behaviour-preserving: min spelled as a comparison, local renamed"},
    {"name": "rename-locals", "kind": "benign",
     "edits": [(PG, "    let json_bytes = URL_SAFE\n        .decode(", "    let raw = URL_SAFE\n        .decode("), (PG, "serde_json::from_slice(&json_bytes)", "serde_json::from_slice(&raw)")],
     "why": "behaviour-preserving: local renamed"},
    {"name": "enc-to-string", "kind": "benign",
     "edits": [(PG, "serde_json::to_vec(&serialized_token)", "serde_json::to_string(&serialized_token)")],
     "why": "behaviour-preserving: JSON text as String instead of Vec<u8> (same bytes)"},
    {"name": "dec-version-method-and-and_then", "kind": "benign",
     "edits": [(PG, """    if deserialized.v != PaginationVersion::V1 {
        return Err(format!(
            "failed to parse pagination token: unsupported version: {:?}",
            deserialized.v,
        ));
    }

    Ok(deserialized.page_start)
}
""", """    Ok(deserialized).and_then(SerializedToken::into_page_start)
}

impl PaginationVersion {
    fn is_supported(self) -> bool {
        self == PaginationVersion::V1
    }
}

impl<PageSelector> SerializedToken<PageSelector> {
    fn into_page_start(self) -> Result<PageSelector, String> {
        let SerializedToken { v: version, page_start } = self;
        if version.is_supported() {
            Ok(page_start)
        } else {
            Err(format!("failed to parse pagination token: unsupported version: {:?}", version))
        }
    }
}
"""),
               (PG, """        .map_err(|e| format!("failed to parse pagination token: {}", e))?;""",
                """        .map_err(|e| format!("failed to parse pagination token: {}", e))
        .and_then(|bytes| Ok(bytes))?;""")],
     "why": "behaviour-preserving: the version test moved into a consuming method applied with `and_then(fn item)`, the comparison into `PaginationVersion::is_supported`, "
            "an identity `and_then` step in the decode chain (normalised view: combinators are switches with the bodies spliced in, new helpers are inlined)"},
    {"name": "enc-length-check-helper-inverted", "kind": "benign",
     "edits": [(PG, """    if token_bytes.len() > MAX_TOKEN_LENGTH {
        return Err(HttpError::for_internal_error(format!(
            "serialized token is too large ({} bytes, max is {})",
            token_bytes.len(),
            MAX_TOKEN_LENGTH
        )));
    }

    Ok(token_bytes)
}
""", """    Ok(token_bytes).and_then(check_generated_token_length)
}

fn check_generated_token_length(token: String) -> Result<String, HttpError> {
    let token_length = token.len();
    if token_length <= MAX_TOKEN_LENGTH {
        return Ok(token);
    }
    Err(HttpError::for_internal_error(format!(
        "serialized token is too large ({} bytes, max is {})",
        token_length, MAX_TOKEN_LENGTH
    )))
}
""")],
     "why": "behaviour-preserving: the issuer's size test sunk into a helper applied with `and_then`, written as an inverted guard (`len <= MAX` returns Ok early)"},
    {"name": "whichpage-guard-clause-const-key", "kind": "benign",
     "edits": [(PG, """    match raw_params.get("page_token") {
        Some(page_token) => {
            let page_start = deserialize_page_token(&page_token)
                .map_err(serde::de::Error::custom)?;
            Ok(WhichPage::Next(page_start))
        }
        None => {
            let scan_params =
                from_map(&raw_params).map_err(serde::de::Error::custom)?;
            Ok(WhichPage::First(scan_params))
        }
    }
}
""", """    const PAGE_TOKEN_PARAM: &str = "page_token";
    let maybe_token = raw_params.get(PAGE_TOKEN_PARAM).map(String::as_str);
    if let Some(token) = maybe_token {
        return deserialize_page_token(token)
            .map(WhichPage::Next)
            .map_err(serde::de::Error::custom);
    }
    from_map(&raw_params)
        .map(WhichPage::First)
        .map_err(serde::de::Error::custom)
}
""")],
     "why": "behaviour-preserving: the lookup key as a named constant, the token bound as Option<&str> via `.map(String::as_str)`, a guard clause with early return, "
            "`.map(Variant).map_err(custom)` chains instead of `?` + Ok(..)"},
    {"name": "enc-helper-bound-1024", "kind": "mutant",
     "edits": [(PG, """    if token_bytes.len() > MAX_TOKEN_LENGTH {
        return Err(HttpError::for_internal_error(format!(
            "serialized token is too large ({} bytes, max is {})",
            token_bytes.len(),
            MAX_TOKEN_LENGTH
        )));
    }

    Ok(token_bytes)
}
""", """    Ok(token_bytes).and_then(check_generated_token_length)
}

fn check_generated_token_length(token: String) -> Result<String, HttpError> {
    let token_length = token.len();
    if token_length <= 1024 {
        return Ok(token);
    }
    Err(HttpError::for_internal_error(format!(
        "serialized token is too large ({} bytes, max is {})",
        token_length, MAX_TOKEN_LENGTH
    )))
}
""")],
     "expect": ["C14.R2"], "why": "twin of enc-length-check-helper-inverted with the wrong constant: tokens of 513..1024 bytes are issued and then refused"},
    {"name": "whichpage-guard-falls-through", "kind": "mutant",
     "edits": [(PG, """    match raw_params.get("page_token") {
        Some(page_token) => {
            let page_start = deserialize_page_token(&page_token)
                .map_err(serde::de::Error::custom)?;
            Ok(WhichPage::Next(page_start))
        }
        None => {
            let scan_params =
                from_map(&raw_params).map_err(serde::de::Error::custom)?;
            Ok(WhichPage::First(scan_params))
        }
    }
}
""", """    const PAGE_TOKEN_PARAM: &str = "page_token";
    let maybe_token = raw_params.get(PAGE_TOKEN_PARAM).map(String::as_str);
    if let Some(token) = maybe_token {
        if let Ok(page_start) = deserialize_page_token(token) {
            return Ok(WhichPage::Next(page_start));
        }
    }
    from_map(&raw_params)
        .map(WhichPage::First)
        .map_err(serde::de::Error::custom)
}
""")],
     "expect": ["C14.R3", "C14.R4"], "why": "twin of whichpage-guard-clause-const-key: a malformed token falls through to the first-page path instead of being refused"},
]
LEVEL_TEXT += (" R4 accepts any test of the presence of the token: the test of the lookup result or of an Option built as Some exactly on its Some edge and None exactly on its None edge "
               "(`get(k).map(decode).transpose()?` matched afterwards; lib_c14.presence_tests); from_map / First must sit behind a None edge of such a test, decoding / Next behind a Some edge.")
LEVEL_TEXT += " Also (R6): no integer of the pagination path is narrowed or re-signed by an `as` cast."
LEVEL_TEXT += " Also (R7): every field of the token envelope is required by the derived deserialiser (no serde default)."
