"""C03 — request paths are normalised once; unsafe paths never reach a handler."""
from .lib_c01 import VALUE_PRESERVING, sources
from .lib import (ITER_PLUMBING, PLUMBING, callee_allow, callers, closure_args_of_call, const_int, element_sources, http_error_ctors_on_error_path,
                  lit_strs, operand_local, result_split, status_const_of_ctor)

LEVEL = "other"
TECHNIQUE = "static analysis: MIR data-flow slices and path-sensitive guard facts over input_path_to_segments / lookup_route (decode-after-split chain, dot-segment guards on the decoded value, 400-before-lookup)"
LEVEL_TEXT = ("Decides, on every path of the type-checked MIR of the current tree, the structural clauses of C03: the request path is split on '/' "
              "on the raw text, empty segments are filtered, each segment is percent-decoded exactly once (single call site, argument = an element of the split), "
              "UTF-8 failure propagates, every segment handed on is the decoded value and is reached only on paths where the *decoded* value was found different from "
              "'.' and '..', and in lookup_route the segment error becomes HttpError::for_bad_request (evaluated status 400) on an edge that excludes every handler selection. "
              "The rules are written over data flow and path facts, so iterator chains, explicit loops, `?` or `match`, `a || b` or nested ifs, and extracted helper functions are all accepted. "
              "It does not decide percent-encoding's or from_utf8's own correctness.")
LEVEL_NOTE = "Trusts rustc MIR construction, the fact extractor, percent_encoding::percent_decode_str/decode_utf8 and str::split semantics."
EXPLANATION = ("Static rules over MIR facts extracted from /repo's current source: who-calls census of percent-decoding, element-origin analysis (the decoded value is an element of "
               "split(path,'/')), backward slices (CHAIN) from every segment sink to decode_utf8, comparison sites against the constants \".\"/\"..\" with their "
               "operand slices, path-sensitive boolean facts at every segment sink, and the Ok/Err split of the segment result in lookup_route.")
TRUSTED = ["rustc nightly MIR construction + const evaluation", "mirfacts extractor", "rules/engine.py dominators, slices, bool_states_at",
           "percent_encoding::percent_decode_str / PercentDecode::decode_utf8", "core::str::split"]

DECODE = r"percent_encoding::percent_decode"
DECODE_UTF8 = r"PercentDecode.*decode_utf8$"
OWNED = [r"string::ToString::to_string$", r"Cow::<'_, B>::into_owned$", r"borrow::ToOwned::to_owned$", r"Result::<T, E>::map_err$", r"convert::From::from$"]


def _seg_fns(ctx, R):
    top = ctx.need_fn(ctx.dsn, R, r"^router::input_path_to_segments$")
    return top, [top] + ctx.dsn.descendants(top)


def _sinks(f):
    """Places where a finished segment leaves the decoding code: Ok(x) written to the return place of the
    per-segment closure, or Vec::push(v, x) in the loop form."""
    out = []
    reach = f.reachable(0)
    for b, i, st in f.aggregates(r"^std::result::Result$", "Ok"):
        if st["pl"]["l"] == 0 and b in reach and f.local_ty(operand_local(st["rv"]["ops"][0]) or 0) in ("std::string::String", "alloc::string::String"):
            out.append((b, st["rv"]["ops"][0], "Ok"))
    for b, t in f.live_calls(r"vec::Vec::<T, A>::push$|VecDeque::<T, A>::push_back$"):
        out.append((b, t["args"][1], "push"))
    return out


def r1_decode_once(ctx):
    R = ctx.rule("C03.R1", "percent-decoding has exactly one call site on the request path; its argument is an element of str::split(path,'/') with empty elements "
                 "filtered out and nothing in between; the decoded value goes through decode_utf8 whose Err propagates; every segment handed on is that decoded value", floor=7)
    top, fns = _seg_fns(ctx, R)
    sites = callers(ctx.dsn, DECODE)
    inside = [(f, bb, t) for f, bb, t in sites if f in fns]
    ctx.check(R, "decode-sites-in-input_path_to_segments", len(inside) == 1,
              "percent_decode* call sites inside input_path_to_segments: %d (want exactly 1: decode once)" % len(inside), top)
    for f, bb, t in sites:
        if f not in fns:
            ctx.check(R, "decode-site-elsewhere:%s" % f.id, False, "percent-decoding outside input_path_to_segments (%s)" % t.get("callee"), (f, bb))
    if len(inside) != 1:
        return
    f, bb, t = inside[0]
    arg = t["args"][0]
    sl = f.slice(arg)
    bad = callee_allow(sl, PLUMBING + ITER_PLUMBING + [r"str::<impl str>::split$", r"iter::Iterator::filter$"])
    ctx.check(R, "decode-arg-untransformed", not bad and not any(a[0] == "binop" for a in sl.atoms),
              "between the split element and percent_decode_str: %s" % ([b[0] for b in bad] or "no transformation"), (f, bb))
    srcs = element_sources(ctx.dsn, f, arg)
    ok_split = ok_path = ok_nodecode = False
    filt = False
    for g, it_op, how in srcs:
        rs = g.slice(it_op)
        for c, sbb, st in rs.calls(r"str::<impl str>::split$|str::<impl str>::split_terminator$"):
            if const_int(st["args"][1]) == 47:
                ok_split = True
                ps = g.slice(st["args"][0])
                if ps.params() == [1] and g is top and not callee_allow(ps, PLUMBING):
                    ok_path = True
        ok_nodecode = not rs.has_call(DECODE)
        for c, fbb, ft in rs.calls(r"iter::Iterator::filter$"):
            for h, node in closure_args_of_call(g, ft):
                hs = h.slice({"l": 0, "p": []})
                if hs.has_call(r"str::<impl str>::is_empty$") and ("unop", "Not") in hs.atoms:
                    filt = True
    ctx.check(R, "decoded-value-is-an-element-of-split(path,'/')", ok_split and ok_path and ok_nodecode,
              "element source(s) %s: split on '/'=%s, of the path parameter itself=%s, no decoding before the split=%s" % ([h for _, _, h in srcs], ok_split, ok_path, ok_nodecode), (f, bb))
    if not filt:
        # loop form: the decode is reached only when is_empty(element) was false
        atoms = []
        for ebb, et in f.live_calls(r"str::<impl str>::is_empty$"):
            es = f.slice(et["args"][0])
            if set(b for _, b, _ in es.calls(r"iter::Iterator::next$")) & set(b for _, b, _ in sl.calls(r"iter::Iterator::next$")) or (es.params() and es.params() == sl.params()):
                atoms.append(("call", ebb))
        filt = bool(atoms) and f.guarded_by(bb, atoms_false=atoms)[0]
    ctx.check(R, "empty-segments-filtered", filt, "empty elements are dropped before decoding (filter(!is_empty) or an is_empty guard on the same element): %s" % filt, (f, bb))
    du = f.live_calls(DECODE_UTF8)
    ok = len(du) == 1 and f.slice(du[0][1]["args"][0]).has_call(r"percent_decode_str")
    ctx.check(R, "decode_utf8-on-decoded", ok, "decode_utf8 call sites fed by percent_decode_str: %d" % len(du), f)
    sinks = _sinks(f)
    if ok:
        sp = result_split(f, du[0][1]["dest"]["l"])
        if sp is None:
            ctx.check(R, "utf8-error-propagates", False, "the Result of decode_utf8 is never split into Ok/Err (error ignored?)", (f, du[0][0]))
        else:
            err_reach = f.reachable(sp["err"])
            leaked = [b for b, op, k in sinks if b in err_reach and b not in f.reachable(sp["ok"], avoid=[sp["err"]]) or (b in err_reach and not f.loop_blocks())]
            # in a loop the error edge must leave the function (return) without reaching another sink in the same iteration
            direct = [b for b, op, k in sinks if b in f.reachable(sp["err"], avoid=[du[0][0]])]
            ctx.check(R, "utf8-error-propagates", not direct, "decode_utf8's Err case (%s) reaches no segment sink: %s" % ("/".join(sp["via"]), not direct), (f, sp["switch_bb"]))
    if not sinks:
        ctx.lost(R, "segment sink (Ok(segment) / push(segment)) in the decoding code")
    for b, op, kind in sinks:
        s4 = f.slice(op)
        bad4 = callee_allow(s4, PLUMBING + ITER_PLUMBING + OWNED + [r"percent_decode_str$", r"decode_utf8$", r"str::<impl str>::split$", r"iter::Iterator::filter$"])
        ctx.check(R, "segment-is-the-decoded-value:%s" % kind, s4.has_call(r"decode_utf8") and not bad4,
                  "%s(segment): slice contains decode_utf8=%s, other callees=%s" % (kind, s4.has_call(r"decode_utf8"), [x[0] for x in bad4]), (f, b))


def r2_dot_segments(ctx):
    R = ctx.rule("C03.R2", "every segment handed on is reached only on paths where the *decoded* value compared different from \".\" and from \"..\"", floor=2)
    top, fns = _seg_fns(ctx, R)
    found = {".": [], "..": []}
    for f in fns:
        for bb, t in f.live_calls(r"cmp::PartialEq::(eq|ne)$"):
            if len(t["args"]) != 2:
                continue
            sa, sb = f.slice(t["args"][0]), f.slice(t["args"][1])
            for lit_side, val_side in ((sa, sb), (sb, sa)):
                ls = lit_strs(lit_side)
                for dot in (".", ".."):
                    if ls == {dot}:
                        found[dot].append((f, bb, t, val_side))
    for dot in (".", ".."):
        if not found[dot]:
            ctx.lost(R, "comparison with the constant %r in input_path_to_segments" % dot)
            continue
        dec = [(f, bb) for f, bb, t, vs in found[dot] if vs.has_call(r"decode_utf8")]
        f0, bb0 = (dec or [(found[dot][0][0], found[dot][0][1])])[0]
        ctx.check(R, "dot-test-on-decoded:%r" % dot, bool(dec),
                  "%d comparison(s) with %r, %d of them on a value derived from the decode_utf8 result (a test on the raw text only lets the percent-encoded spelling %s through)"
                  % (len(found[dot]), dot, len(dec), "%2e" * len(dot)), (f0, bb0))
    n = 0
    for f in fns:
        for b, op, kind in _sinks(f):
            s4 = f.slice(op)
            if not s4.has_call(r"decode_utf8|percent_decode"):
                continue
            n += 1
            for dot in (".", ".."):
                guarded = False
                why = "no comparison of the decoded value with %r in this function" % dot
                for g, bb, t, vs in found[dot]:
                    if g is not f or not vs.has_call(r"decode_utf8"):
                        continue
                    atom = ("call", bb)
                    is_eq = t["callee"].endswith("::eq")
                    ok, cex = f.guarded_by_all(b, atoms_false=[atom] if is_eq else [], atoms_true=[] if is_eq else [atom])
                    if ok:
                        guarded = True
                    else:
                        why = "a path reaches the sink without `decoded != %r` having been established (facts on that path: %s)" % (dot, cex)
                ctx.check(R, "sink-guarded-by-not-%r:%s" % (dot, kind), guarded,
                          "%s(decoded segment) %s" % (kind, "is reached only when decoded != %r" % dot if guarded else "— " + why), (f, b))
    if n == 0:
        ctx.lost(R, "a sink of decoded segments")


def r3_400_before_lookup(ctx):
    R = ctx.rule("C03.R3", "in lookup_route the segment error becomes HttpError::for_bad_request (status 400) and the error case excludes every handler selection; the walk consumes exactly the validated segments", floor=5)
    lr = ctx.need_fn(ctx.dsn, R, r"^router::HttpRouter::<Context>::lookup_route$")
    cs = lr.live_calls(r"^router::input_path_to_segments$")
    allc = callers(ctx.dsn, r"^router::input_path_to_segments$")
    ctx.check(R, "single-caller", len(cs) == 1 and len(allc) == 1, "input_path_to_segments is called from %s" % sorted(set(f.id for f, _, _ in allc)), lr)
    if len(cs) != 1:
        return
    bb, t = cs[0]
    names = {n: [p["l"] for p in pls if not p["p"]] for n, pls in lr.names.items()}
    ps = lr.slice(t["args"][0])
    path_params = [l for l in names.get("path", [3]) if 1 <= l <= lr.argc] or [3]    # (an inlined helper may have a local of the same name)
    ctx.check(R, "arg-is-path-param", ps.params() == path_params and not callee_allow(ps, PLUMBING),
              "argument slices to params %s (path param is %s)" % (ps.params(), names.get("path")), (lr, bb))
    sp = result_split(lr, t["dest"]["l"])
    if sp is None:
        ctx.lost(R, "the Ok/Err split of input_path_to_segments' result in lookup_route")
        return
    ctors = http_error_ctors_on_error_path(lr, sp)
    st = status_const_of_ctor(ctx.dsn, "for_bad_request")
    ctx.check(R, "segment-error-is-400", ctors == {"error::HttpError::for_bad_request"} and st == {400},
              "error constructors on the segment-error path: %s; status constants in for_bad_request=%s" % (sorted(ctors) or "none", sorted(st or [])), (lr, sp["switch_bb"]))
    sites = lr.live_calls(r"^router::find_handler_matching_version$") + lr.live_calls(r"iter::Iterator::any$")
    if not lr.live_calls(r"^router::find_handler_matching_version$"):
        ctx.lost(R, "handler selection (find_handler_matching_version) in lookup_route")
    for sbb, stt in sites:
        dom = lr.edge_dominates(sp["switch_bb"], sp["ok"], sbb)
        ctx.check(R, "400-edge-dominates-selection:%s" % (stt["callee"].split("::")[-1]), dom,
                  "handler selection is%s dominated by the Ok case of the segment result" % ("" if dom else " NOT"), (lr, sbb))
    reach = lr.reachable(sp["err"]) - lr.reachable(sp["ok"]) if sp["ok"] in lr.reachable(sp["err"]) else lr.reachable(sp["err"])
    ctx.check(R, "error-edge-selects-nothing", not any(sbb in lr.reachable(sp["err"], avoid=[sp["ok"]]) for sbb, _ in sites),
              "the Err case of the segment result reaches no handler selection", (lr, sp["switch_bb"]))
    # the segments walked are the Ok payload (not a re-parse of the path)
    okw = False
    consumers = lr.live_calls(r"iter::IntoIterator::into_iter$|slice::<impl \[T\]>::iter$|vec::Vec::<T, A>::(into_iter|iter|drain)$|vec::IntoIter")
    for wbb, wt in consumers:
        srcs = sources(lr, wt["args"][0], VALUE_PRESERVING + [r"ops::Try::branch$"])
        if srcs and all(p.is_call(r"^router::input_path_to_segments$") and p.npath() == ["+", "0"] for p in srcs):
            okw = True
    ctx.check(R, "walk-consumes-validated-segments", okw, "the segment iterator walked by lookup_route is built from input_path_to_segments' Ok payload unmodified: %s" % okw, lr)


RULES = [("C03.R1", r1_decode_once), ("C03.R2", r2_dot_segments), ("C03.R3", r3_400_before_lookup)]

_RT = "dropshot/src/router.rs"
SELFTEST = [
    {"name": "prefix-f1", "kind": "mutant", "revert": "04396fe", "expect": ["C03.R2"], "why": "dot test on the raw segment only (pre-fix code)"},
    {"name": "decode-before-split", "kind": "mutant", "edits": [(_RT, "    path.0\n        .split('/')", "    percent_decode_str(&path.0).decode_utf8_lossy()\n        .split('/')")],
     "expect": ["C03.R1"], "why": "an encoded slash creates a segment boundary; segments are decoded twice"},
    {"name": "segment-error-404", "kind": "mutant", "edits": [(_RT, "            HttpError::for_bad_request(\n                None,\n                String::from(\"invalid path encoding\"),\n            )",
                                                              "            HttpError::for_not_found(\n                None,\n                String::from(\"invalid path encoding\"),\n            )")],
     "expect": ["C03.R3"], "why": "a bad segment is answered 404 instead of 400"},
    {"name": "empty-filter-dropped", "kind": "mutant", "edits": [(_RT, "        .filter(|segment| !segment.is_empty())\n", "")], "expect": ["C03.R1"], "why": "repeated slashes produce empty segments"},
    {"name": "dotdot-only", "kind": "mutant", "edits": [(_RT, "                \".\" | \"..\" => Err(", "                \"..\" => Err(")], "expect": ["C03.R2"], "why": "a '.' segment reaches handlers"},
    {"name": "lossy-utf8", "kind": "mutant", "edits": [(_RT, "            let decoded = percent_decode_str(segment)\n                .decode_utf8()\n                .map_err(|e| e.to_string())?;", "            let decoded = percent_decode_str(segment).decode_utf8_lossy();")],
     "expect": ["C03.R1"], "why": "invalid UTF-8 is replaced instead of refused"},
    {"name": "or-flag", "kind": "benign", "edits": [(_RT, "            match decoded.as_ref() {\n                \".\" | \"..\" => Err(\"dot-segments are not permitted\".to_string()),\n                _ => Ok(decoded.to_string()),\n            }",
                                                   "            let is_dot = decoded == \".\" || decoded == \"..\";\n            if is_dot {\n                Err(\"dot-segments are not permitted\".to_string())\n            } else {\n                Ok(decoded.into_owned())\n            }")],
     "why": "same test through a named boolean"},
]
