"""C03 — request paths are normalised once; unsafe paths never reach a handler."""
import re

from .lib_c01 import VALUE_PRESERVING, sources
from .lib import (ITER_PLUMBING, PLUMBING, callee_allow, callers, http_error_ctors_on_error_path, operand_local, result_split, status_const_of_ctor)
from .lib_c03 import DECODE, decode_region, element_origins, empties_dropped, entries_in, error_yields, feeds_output, membership_tests, output_unmodified, sinks, split_source

LEVEL = "other"
TECHNIQUE = ("static analysis: MIR data-flow slices and path-sensitive guard facts over input_path_to_segments / lookup_route, anchored by role "
             "(the per-segment step = the code holding the decoding call; decode-after-split chain, dot-segment membership tests on the decoded value, 400-before-lookup)")
LEVEL_TEXT = ("Decides, on every path of the type-checked MIR of the current tree, the structural clauses of C03: the request path is split on '/' "
              "on the raw text, empty segments are filtered, each segment is percent-decoded exactly once (single call site, argument = an element of the split), "
              "UTF-8 failure propagates, every segment handed on is the decoded value and is reached only on paths where the *decoded* value was found different from "
              "'.' and '..', and in lookup_route the segment error becomes HttpError::for_bad_request (evaluated status 400) on an edge that excludes every handler selection. "
              "The rules are written over data flow and path facts and anchor on roles, not on places: the per-segment step is whatever holds the single decoding call — a closure passed to map / filter_map, "
              "the closure of `(!piece.is_empty()).then(..)`, a loop body, or the `next` of a private iterator struct wrapping the Split that input_path_to_segments builds and collects; the dot-segment test is any "
              "membership test of the decoded value (==, !=, match, a const lookup table searched with contains / any, with the table's evaluated contents ⊇ {'.', '..'}); the handler selections are all call sites of "
              "find_handler_matching_version in the crate, wherever the second half of the lookup lives; the walk may be an iterator or a slice cursor over the validated Vec, and the raw path may go nowhere else. "
              "So iterator chains, explicit loops, `?` or `match`, `a || b` or nested ifs, and extracted helper functions are all accepted. "
              "It does not decide percent-encoding's or from_utf8's own correctness.")
LEVEL_NOTE = "Trusts rustc MIR construction, the fact extractor, percent_encoding::percent_decode_str/decode_utf8 and str::split semantics."
EXPLANATION = ("Static rules over MIR facts extracted from /repo's current source: who-calls census of percent-decoding, element-origin analysis (the decoded value is an element of "
               "split(path,'/'), followed through closure captures, adaptor item parameters, next/find and the field of a hand-written iterator), backward slices (CHAIN) from every "
               "segment sink to decode_utf8, membership tests of the decoded value against \".\"/\"..\" (comparisons and evaluated const tables) with their operand slices, "
               "path-sensitive boolean facts at every segment sink, and the Ok/Err split of the segment result in lookup_route with the entry points of every handler selection.")
TRUSTED = ["rustc nightly MIR construction + const evaluation", "mirfacts extractor", "rules/engine.py dominators, slices, bool_states_at",
           "percent_encoding::percent_decode_str / PercentDecode::decode_utf8", "core::str::split"]

DECODE_UTF8 = r"PercentDecode.*decode_utf8$"
OWNED = [r"string::ToString::to_string$", r"Cow::<'_, B>::into_owned$", r"borrow::ToOwned::to_owned$", r"Result::<T, E>::map_err$", r"convert::From::from$"]


def _seg_fns(ctx, R):
    """The decoding code: input_path_to_segments, its closures (helpers are inlined) and the `next` of every crate-local
    iterator struct it builds (lib_c03.decode_region)."""
    top = ctx.need_fn(ctx.dsn, R, r"^router::input_path_to_segments$")
    fns, carriers = decode_region(ctx.dsn, top)
    return top, fns, carriers


def r1_decode_once(ctx):
    R = ctx.rule("C03.R1", "percent-decoding has exactly one call site on the request path; its argument is an element of str::split(path,'/') with empty elements "
                 "filtered out and nothing in between; the decoded value goes through decode_utf8 whose Err propagates; every segment handed on is that decoded value", floor=8)
    top, fns, carriers = _seg_fns(ctx, R)
    sites = callers(ctx.dsn, DECODE)
    inside = [(f, bb, t) for f, bb, t in sites if f in fns]
    ctx.check(R, "decode-sites-in-input_path_to_segments", len(inside) == 1,
              "percent_decode* call sites inside input_path_to_segments (its closures and the iterators it builds): %d (want exactly 1: decode once)" % len(inside), top)
    for f, bb, t in sites:
        if f not in fns:
            ctx.check(R, "decode-site-elsewhere:%s" % f.id, False, "percent-decoding outside input_path_to_segments (%s)" % t.get("callee"), (f, bb))
    if len(inside) != 1:
        return
    f, bb, t = inside[0]
    arg = t["args"][0]
    origins = element_origins(ctx.dsn, f, arg, bb)
    # nothing is applied to the raw piece on its way to the decoder, in any function it crosses (closure captures included)
    between = [r"str::<impl str>::split$", r"iter::Iterator::(filter|find)$"]
    bad, binop = [], False
    seen_lv = []
    for o in origins or [{"levels": [{"fn": f, "piece": arg}]}]:
        for lv in o["levels"]:
            if any(lv["fn"] is g and lv["piece"] is p for g, p in seen_lv):
                continue
            seen_lv.append((lv["fn"], lv["piece"]))
            ls = lv["fn"].slice(lv["piece"])
            bad += callee_allow(ls, PLUMBING + ITER_PLUMBING + between)
            binop = binop or any(a[0] == "binop" for a in ls.atoms)
    ctx.check(R, "decode-arg-untransformed", not bad and not binop,
              "between the split element and percent_decode_str: %s" % ([b[0] for b in bad] or "no transformation"), (f, bb))
    ok_split = ok_path = ok_out = False
    ok_nodecode = bool(origins)
    filt = None
    for o in origins:
        ss = split_source(ctx.dsn, top, o, carriers)
        ok_split = ok_split or ss["split"]
        ok_path = ok_path or ss["path"]
        ok_nodecode = ok_nodecode and ss["nodecode"]
        if ss["split"] and ss["path"]:
            ok_out = ok_out or feeds_output(top, o, carriers, ss["carrier"])
            filt = filt or empties_dropped(ctx.dsn, o)
    ctx.check(R, "decoded-value-is-an-element-of-split(path,'/')", ok_split and ok_path and ok_nodecode and ok_out,
              "element source(s) %s: split on '/'=%s, of the path parameter itself=%s, no decoding before the split=%s, that iterator is what input_path_to_segments collects=%s"
              % (sorted(set(o["how"] for o in origins)), ok_split, ok_path, ok_nodecode, ok_out), (f, bb))
    ctx.check(R, "empty-segments-filtered", bool(filt),
              "empty elements are dropped before decoding (filter / find with a !is_empty predicate, `(!is_empty).then(..)`, or an is_empty guard on the same element): %s" % (filt or False), (f, bb))
    ok_seq, extra = output_unmodified(ctx.dsn, top, origins)
    ctx.check(R, "collected-items-are-the-step-results", ok_seq,
              "on the way from the split to input_path_to_segments' return value only element-wise adaptors and the step / !is_empty closures are applied: %s" % (extra or "nothing else"), top)
    du = f.live_calls(DECODE_UTF8)
    ok = len(du) == 1 and f.slice(du[0][1]["args"][0]).has_call(r"percent_decode_str")
    ctx.check(R, "decode_utf8-on-decoded", ok, "decode_utf8 call sites fed by percent_decode_str: %d" % len(du), f)
    sks = sinks(f)
    if ok:
        sp = result_split(f, du[0][1]["dest"]["l"])
        if sp is None:
            ctx.check(R, "utf8-error-propagates", False, "the Result of decode_utf8 is never split into Ok/Err (error ignored?)", (f, du[0][0]))
        else:
            # the error edge must leave the step (return) without reaching a sink (in a loop: in the same iteration)
            direct = [b for b, op, k in sks if b in f.reachable(sp["err"], avoid=[du[0][0]])]
            yields = f.must_pass(error_yields(f), start=sp["err"])
            ctx.check(R, "utf8-error-propagates", not direct and yields, "decode_utf8's Err case (%s) reaches no segment sink: %s; every way out of it yields an Err (not a dropped element): %s"
                      % ("/".join(sp["via"]), not direct, yields), (f, sp["switch_bb"]))
    if not sks:
        ctx.lost(R, "segment sink (Ok(segment) / push(segment)) in the decoding code")
    for b, op, kind in sks:
        s4 = f.slice(op)
        bad4 = callee_allow(s4, PLUMBING + ITER_PLUMBING + OWNED + [r"percent_decode_str$", r"decode_utf8$"] + between)
        ctx.check(R, "segment-is-the-decoded-value:%s" % kind, s4.has_call(r"decode_utf8") and not bad4,
                  "%s(segment): slice contains decode_utf8=%s, other callees=%s" % (kind, s4.has_call(r"decode_utf8"), [x[0] for x in bad4]), (f, b))


def r2_dot_segments(ctx):
    R = ctx.rule("C03.R2", "every segment handed on is reached only on paths where the *decoded* value compared different from \".\" and from \"..\"", floor=2)
    top, fns, carriers = _seg_fns(ctx, R)
    tests = []
    for f in fns:
        tests += membership_tests(ctx.dsn, f)
    for tst in tests:
        for name in tst["unknown"]:
            ctx.check(R, "table-contents-known:%s" % name, False, "a value is looked up in the constant table %s whose evaluated contents are not in the extracted facts "
                      "(the extractor renders scalar and string constants only), so it cannot be decided whether the table holds \".\" and \"..\"" % name, (tst["fn"], tst["bb"]))
    for dot in (".", ".."):
        have = [x for x in tests if dot in x["strs"]]
        if not have:
            ctx.lost(R, "comparison with the constant %r in input_path_to_segments" % dot)
            continue
        dec = [x for x in have if x["val"].has_call(r"decode_utf8")]
        x0 = (dec or have)[0]
        ctx.check(R, "dot-test-on-decoded:%r" % dot, bool(dec),
                  "%d test(s) against %r (%s), %d of them on a value derived from the decode_utf8 result (a test on the raw text only lets the percent-encoded spelling %s through)"
                  % (len(have), dot, "; ".join(sorted(set(x["what"] for x in have))), len(dec), "%2e" * len(dot)), (x0["fn"], x0["bb"]))
    n = 0
    for f in fns:
        for b, op, kind in sinks(f):
            s4 = f.slice(op)
            if not s4.has_call(r"decode_utf8|percent_decode"):
                continue
            n += 1
            for dot in (".", ".."):
                guarded = False
                why = "no test of the decoded value against %r in this function" % dot
                for x in tests:
                    if x["fn"] is not f or dot not in x["strs"] or not x["val"].has_call(r"decode_utf8"):
                        continue
                    ok, cex = f.guarded_by_all(b, atoms_false=[x["atom"]] if x["in_when"] else [], atoms_true=[] if x["in_when"] else [x["atom"]])
                    if ok:
                        guarded = True
                    else:
                        why = "a path reaches the sink without `decoded != %r` having been established (facts on that path: %s)" % (dot, cex)
                ctx.check(R, "sink-guarded-by-not-%r:%s" % (dot, kind), guarded,
                          "%s(decoded segment) %s" % (kind, "is reached only when decoded != %r" % dot if guarded else "— " + why), (f, b))
    if n == 0:
        ctx.lost(R, "a sink of decoded segments")


# ways of walking the validated Vec<String>: an iterator over it, or a slice of it used as a cursor (is_empty / split_first / index / range)
WALKERS = (r"iter::IntoIterator::into_iter$|slice::<impl \[T\]>::iter$|vec::Vec::<T, A>::(into_iter|iter|drain|as_slice)$|vec::IntoIter|"
           r"slice::<impl \[T\]>::(split_first|first|get|is_empty|len)$|ops::Index::index$|ops::Deref::deref$")


def r3_400_before_lookup(ctx):
    R = ctx.rule("C03.R3", "in lookup_route the segment error becomes HttpError::for_bad_request (status 400) and the error case excludes every handler selection; the walk consumes exactly the validated segments", floor=5)
    lr = ctx.need_fn(ctx.dsn, R, r"^router::HttpRouter::<Context>::lookup_route$")
    cs = lr.live_calls(r"^router::input_path_to_segments$")
    allc = callers(ctx.dsn, r"^router::input_path_to_segments$")
    ctx.check(R, "single-caller", len(cs) == 1 and len(allc) == 1, "input_path_to_segments is called from %s" % sorted(set(f.id for f, _, _ in allc)), lr)
    if len(cs) != 1:
        return
    bb, t = cs[0]
    names = {n: [p["l"] for p in pls if not p["p"]] for n, pls in lr.names.items()}
    ps = lr.slice(t["args"][0])
    path_params = [l for l in names.get("path", [3]) if 1 <= l <= lr.argc] or [3]    # (an inlined helper may have a local of the same name)
    ctx.check(R, "arg-is-path-param", ps.params() == path_params and not callee_allow(ps, PLUMBING),
              "argument slices to params %s (path param is %s)" % (ps.params(), names.get("path")), (lr, bb))
    sp = result_split(lr, t["dest"]["l"])
    if sp is None:
        ctx.lost(R, "the Ok/Err split of input_path_to_segments' result in lookup_route")
        return
    ctors = http_error_ctors_on_error_path(lr, sp)
    st = status_const_of_ctor(ctx.dsn, "for_bad_request")
    ctx.check(R, "segment-error-is-400", ctors == {"error::HttpError::for_bad_request"} and st == {400},
              "error constructors on the segment-error path: %s; status constants in for_bad_request=%s" % (sorted(ctors) or "none", sorted(st or [])), (lr, sp["switch_bb"]))
    # every handler selection of the crate — in lookup_route, in its closures, or in a helper that holds the second half of the
    # lookup (too large to be inlined) — is reached from lookup_route only, through blocks on the Ok side of the segment result
    sel = [(f, sbb, stt) for f, sbb, stt in callers(ctx.dsn, r"^router::find_handler_matching_version$")]
    sel += [(lr, sbb, stt) for sbb, stt in lr.live_calls(r"iter::Iterator::any$")]
    if not [x for x in sel if x[2]["callee"].endswith("find_handler_matching_version")]:
        ctx.lost(R, "handler selection (find_handler_matching_version) reached from lookup_route")
    err_side = lr.reachable(sp["err"], avoid=[sp["ok"]])
    on_err = False
    for f, sbb, stt in sel:
        ent = entries_in(ctx.dsn, lr, f, sbb)
        dom = ent is not None and all(lr.edge_dominates(sp["switch_bb"], sp["ok"], e) for e in ent)
        on_err = on_err or ent is None or any(e in err_side for e in ent)
        where = "" if f is lr else " (in %s, entered from lookup_route at %s)" % (f.id, "an unknown caller" if ent is None else "%d site(s)" % len(ent))
        ctx.check(R, "400-edge-dominates-selection:%s" % (stt["callee"].split("::")[-1]), dom,
                  "handler selection%s is%s dominated by the Ok case of the segment result" % (where, "" if dom else " NOT"), (f, sbb))
    ctx.check(R, "error-edge-selects-nothing", not on_err, "the Err case of the segment result reaches no handler selection", (lr, sp["switch_bb"]))
    # the segments walked are the Ok payload (not a re-parse of the path): some walker is built from the payload, every walker of a
    # Vec<String>/[String] in lookup_route is, and the path parameter goes nowhere but into input_path_to_segments
    okw, other = False, []
    for wbb, wt in lr.live_calls(WALKERS):
        if not wt["args"]:
            continue
        srcs = sources(lr, wt["args"][0], VALUE_PRESERVING + [r"ops::Try::branch$", r"vec::Vec::<T, A>::as_slice$"])
        if srcs and all(p.is_call(r"^router::input_path_to_segments$") and p.npath() == ["+", "0"] for p in srcs):
            okw = True
    reparse = ps_forward_calls(lr, t, path_params)
    ctx.check(R, "walk-consumes-validated-segments", okw and not reparse,
              "the segments walked by lookup_route (iterator or slice cursor) are input_path_to_segments' Ok payload unmodified: %s; other uses of the path parameter: %s" % (okw, reparse or "none"), lr)


def ps_forward_calls(lr, seg_call, path_params):
    """Callees (other than input_path_to_segments and value-preserving plumbing) that receive a value derived from lookup_route's
    path parameter without it having gone through input_path_to_segments: a second parse of the raw path."""
    out = set()
    thr = "|".join(PLUMBING)      # follow the value through borrows / derefs / conversions only: report its first real consumer
    for bb, t in lr.live_calls():
        c = t.get("callee") or "<indirect>"
        if t is seg_call or any(re.search(p, c) for p in PLUMBING):
            continue
        for a in t["args"]:
            if a.get("k") in ("copy", "move") and set(lr.slice(a, through=thr).params()) & set(path_params):
                out.add(c)
    return sorted(out)


def r4_segments_reach_variables_whole(ctx):
    """`an encoded slash never creates or crosses a segment boundary` holds up to the handler only if the walk binds variables to the
    validated segments as they are.  This is C01.R3, re-evaluated here (adversary change C03-G re-split decoded wildcard segments
    on '/', so `..%2F..%2Fetc` was delivered as `[.., .., etc]`)."""
    from . import c01
    from .lib_c01 import Renamed
    c01.r3_walk_integrity(Renamed(ctx, "C03.R4", "the validated segments reach the path variables whole: one segment per single variable, the remaining segments in order per wildcard, nothing split, merged or trimmed on the way"))


RULES = [("C03.R4", r4_segments_reach_variables_whole), ("C03.R1", r1_decode_once), ("C03.R2", r2_dot_segments), ("C03.R3", r3_400_before_lookup)]

_RT = "dropshot/src/router.rs"
_FILTER_MAP = "        .filter(|segment| !segment.is_empty())\n        .map(|segment| {\n"
_CLOSE, _CLOSE2 = "            }\n        })\n        .collect()", "            }\n            })\n        })\n        .collect()"
_DOT_MATCH = "            match decoded.as_ref() {\n                \".\" | \"..\" => Err(\"dot-segments are not permitted\".to_string()),\n                _ => Ok(decoded.to_string()),\n            }"
_DOT_TABLE = ("            const DOTS: [&str; %s] = [%s];\n            if %s {\n                Err(\"dot-segments are not permitted\".to_string())\n"
              "            } else {\n                Ok(decoded.into_owned())\n            }")
_CHAIN = ("    path.0\n        .split('/')\n        .filter(|segment| !segment.is_empty())\n        .map(|segment| {\n"
          "            // Decode first: a dot-segment is not permitted in any spelling,\n            // including percent-encoded forms such as \"%2e%2e\".\n"
          "            let decoded = percent_decode_str(segment)\n                .decode_utf8()\n                .map_err(|e| e.to_string())?;\n" + _DOT_MATCH + "\n        })\n        .collect()\n}\n")
_CARRIER = ("    DecodedSegments { pieces: path.0.split('/') }.collect()\n}\n\nstruct DecodedSegments<'a> {\n    pieces: std::str::Split<'a, char>,\n}\n\n"
            "impl<'a> Iterator for DecodedSegments<'a> {\n    type Item = Result<String, String>;\n\n    fn next(&mut self) -> Option<Self::Item> {\n"
            "        let piece = %s;\n        Some(match percent_decode_str(piece).decode_utf8() {\n            Err(not_utf8) => Err(not_utf8.to_string()),\n"
            "            Ok(text) if text == \".\" || text == \"..\" => {\n                Err(\"dot-segments are not permitted\".to_string())\n            }\n"
            "            Ok(text) => Ok(String::from(text)),\n        })\n    }\n}\n")
_LR_HEAD = "        })?;\n        let mut all_segments = all_segments.into_iter();\n        let mut node = &self.root;\n"
_LR_HELPER = ("        self.lookup_segments(method, all_segments.into_iter(), version)\n    }\n\n    fn lookup_segments(\n        &self,\n        method: &Method,\n"
              "        mut all_segments: impl Iterator<Item = String>,\n        version: Option<&Version>,\n    ) -> Result<RouterLookupResult<Context>, HttpError> {\n        let mut node = &self.root;\n")
SELFTEST = [
    {"name": "prefix-f1", "kind": "mutant", "revert": "04396fe", "expect": ["C03.R2"], "why": "dot test on the raw segment only (pre-fix code)"},
    {"name": "decode-before-split", "kind": "mutant", "edits": [(_RT, "    path.0\n        .split('/')", "    percent_decode_str(&path.0).decode_utf8_lossy()\n        .split('/')")],
     "expect": ["C03.R1"], "why": "an encoded slash creates a segment boundary; segments are decoded twice"},
    {"name": "segment-error-404", "kind": "mutant", "edits": [(_RT, "            HttpError::for_bad_request(\n                None,\n                String::from(\"invalid path encoding\"),\n            )",
                                                              "            HttpError::for_not_found(\n                None,\n                String::from(\"invalid path encoding\"),\n            )")],
     "expect": ["C03.R3"], "why": "a bad segment is answered 404 instead of 400"},
    {"name": "empty-filter-dropped", "kind": "mutant", "edits": [(_RT, "        .filter(|segment| !segment.is_empty())\n", "")], "expect": ["C03.R1"], "why": "repeated slashes produce empty segments"},
    {"name": "dotdot-only", "kind": "mutant", "edits": [(_RT, "                \".\" | \"..\" => Err(", "                \"..\" => Err(")], "expect": ["C03.R2"], "why": "a '.' segment reaches handlers"},
    {"name": "lossy-utf8", "kind": "mutant", "edits": [(_RT, "            let decoded = percent_decode_str(segment)\n                .decode_utf8()\n                .map_err(|e| e.to_string())?;", "            let decoded = percent_decode_str(segment).decode_utf8_lossy();")],
     "expect": ["C03.R1"], "why": "invalid UTF-8 is replaced instead of refused"},
    {"name": "or-flag", "kind": "benign", "edits": [(_RT, "            match decoded.as_ref() {\n                \".\" | \"..\" => Err(\"dot-segments are not permitted\".to_string()),\n                _ => Ok(decoded.to_string()),\n            }",
                                                   "            let is_dot = decoded == \".\" || decoded == \"..\";\n            if is_dot {\n                Err(\"dot-segments are not permitted\".to_string())\n            } else {\n                Ok(decoded.into_owned())\n            }")],
     "why": "same test through a named boolean"},
    # --- idioms accepted by role (each with a mutant written in the same idiom)
    {"name": "filter-map-then", "kind": "benign", "edits": [(_RT, _FILTER_MAP, "        .filter_map(|segment| {\n            (!segment.is_empty()).then(|| {\n"), (_RT, _CLOSE, _CLOSE2)],
     "why": "filter + map merged into filter_map(|p| (!p.is_empty()).then(|| step)): the step is a closure nested in the adaptor's closure, the piece a capture"},
    {"name": "filter-map-then-on-empty", "kind": "mutant", "edits": [(_RT, _FILTER_MAP, "        .filter_map(|segment| {\n            segment.is_empty().then(|| {\n"), (_RT, _CLOSE, _CLOSE2)],
     "expect": ["C03.R1"], "why": "the same shape with the condition inverted: only empty pieces reach the decoder, non-empty ones vanish"},
    {"name": "dot-table", "kind": "benign", "edits": [(_RT, _DOT_MATCH, _DOT_TABLE % ("2", '".", ".."', "DOTS.contains(&decoded.as_ref())"))],
     "why": "dot-segment test through a const lookup table (evaluated contents {'.', '..'})"},
    {"name": "dot-table-any", "kind": "benign", "edits": [(_RT, _DOT_MATCH, _DOT_TABLE % ("2", '".", ".."', "DOTS.iter().any(|d| *d == decoded)"))],
     "why": "the same table searched with iter().any(== decoded)"},
    {"name": "dot-table-without-dot", "kind": "mutant", "edits": [(_RT, _DOT_MATCH, _DOT_TABLE % ("1", '".."', "DOTS.contains(&decoded.as_ref())"))],
     "expect": ["C03.R2"], "why": "the table lacks '.': a '.' segment reaches handlers"},
    {"name": "carrier-iterator", "kind": "benign", "edits": [(_RT, _CHAIN, _CARRIER % "self.pieces.find(|piece| !piece.is_empty())?")],
     "why": "the adaptor chain replaced by a private struct wrapping Split with a hand-written Iterator impl (the step is its `next`)"},
    {"name": "carrier-iterator-keeps-empties", "kind": "mutant", "edits": [(_RT, _CHAIN, _CARRIER % "self.pieces.next()?")],
     "expect": ["C03.R1"], "why": "the hand-written iterator takes every piece of the split: empty segments are decoded and handed on"},
    {"name": "lookup-helper", "kind": "benign", "edits": [(_RT, _LR_HEAD, "        })?;\n" + _LR_HELPER)],
     "why": "lookup_route split at the normalisation boundary: the walk and the handler selection live in a helper called on the Ok side only"},
    {"name": "lookup-helper-on-error-too", "kind": "mutant", "edits": [(_RT, "        let all_segments = input_path_to_segments(&path).map_err(|_| {\n            HttpError::for_bad_request(\n                None,\n                String::from(\"invalid path encoding\"),\n            )\n" + _LR_HEAD,
                                                                     "        let all_segments = match input_path_to_segments(&path) {\n            Ok(segments) => segments,\n            Err(_) => Vec::new(),\n        };\n" + _LR_HELPER)],
     "expect": ["C03.R3"], "why": "the same split, but a rejected path is routed as '/': the helper's handler selection is reached from the Err case"},
    {"name": "walk-reparsed-path", "kind": "mutant", "edits": [(_RT, "        })?;\n        let mut all_segments = all_segments.into_iter();\n",
                                                             "        })?;\n        drop(all_segments);\n        let mut all_segments = path.0.split('/').filter(|s| !s.is_empty()).map(String::from).collect::<Vec<String>>().into_iter();\n")],
     "expect": ["C03.R3"], "why": "the path is validated but the walk uses a second, undecoded and unchecked parse of the raw path"},
]
LEVEL_TEXT += ' Also (R4 = C01.R3): the validated segments are bound to the path variables unmodified.'
