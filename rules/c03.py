"""C03 — request paths are normalised once; unsafe paths never reach a handler."""
from .lib import (PLUMBING, callee_allow, callers, closure_args_of_call, const_int, lit_strs, root_fn,
                  status_const_of_ctor, try_edges, operand_local)
from .engine import comparison_of

LEVEL = "other"
TECHNIQUE = "static analysis: MIR slices + edge dominance over input_path_to_segments / lookup_route (decode-after-split chain, dot-segment guards on the decoded value, 400-before-lookup)"
LEVEL_TEXT = ("Decides, on every path of the type-checked MIR of the current tree, the structural clauses of C03: the request path is split on '/' "
              "on the raw text, empty segments are filtered, each segment is percent-decoded exactly once (single call site, argument = the split item), "
              "UTF-8 failure propagates, the '.'/'..' rejections compare the *decoded* value and their accept edges dominate every Ok(segment), and in "
              "lookup_route the segment error becomes HttpError::for_bad_request (evaluated status 400) on an edge that dominates every handler selection. "
              "It does not decide percent-encoding's or from_utf8's own correctness.")
LEVEL_NOTE = "Trusts rustc MIR construction, the fact extractor, percent_encoding::percent_decode_str/decode_utf8 and str::split semantics."
EXPLANATION = ("Static rules over MIR facts extracted from /repo's current source: who-calls census of percent-decoding, backward slices (CHAIN) from the decode "
               "argument to the split item and from the returned segment to decode_utf8, comparison sites against the constants \".\"/\"..\" with their "
               "operand slices, edge dominance of the accept edges over Ok(..), and dominance of the `?` on the segment error over handler selection in lookup_route.")
TRUSTED = ["rustc nightly MIR construction + const evaluation", "mirfacts extractor", "rules/engine.py dominators and slices",
           "percent_encoding::percent_decode_str / PercentDecode::decode_utf8", "core::str::split"]


def _seg_fns(ctx):
    top = ctx.need_fn(ctx.ds, "C03.R1", r"^router::input_path_to_segments$")
    return top, [top] + ctx.ds.descendants(top)


def r1_decode_once(ctx):
    R = ctx.rule("C03.R1", "percent-decoding has exactly one call site on the request path; its argument is the item of str::split(path,'/') after the "
                 "empty-segment filter; the decoded value goes through decode_utf8 whose Err propagates; the returned segment is that decoded value", floor=5)
    top, fns = _seg_fns(ctx)
    sites = callers(ctx.ds, r"percent_encoding::percent_decode")
    inside = [(f, bb, t) for f, bb, t in sites if f in fns]
    outside = [(f, bb, t) for f, bb, t in sites if f not in fns]
    ctx.check(R, "decode-sites-in-input_path_to_segments", len(inside) == 1,
              "percent_decode* call sites inside input_path_to_segments: %d (want exactly 1: decode once)" % len(inside), top)
    for f, bb, t in outside:
        # any other decode on the request path would be a second decoding
        ctx.check(R, "decode-site-elsewhere:%s" % f.id, False, "percent-decoding outside input_path_to_segments (%s)" % t.get("callee"), (f, bb))
    if len(inside) != 1:
        return
    f, bb, t = inside[0]
    # argument = closure parameter (the split item), nothing in between
    sl = f.slice(t["args"][0])
    bad = callee_allow(sl, PLUMBING)
    ctx.check(R, "decode-arg-is-split-item", f.raw["kind"] == "Closure" and sl.params() == [2] and not bad,
              "argument of percent_decode_str slices to params %s via callees %s (want: the closure's item parameter, no transformation)" % (sl.params(), [b[0] for b in bad]), (f, bb))
    # the closure is passed to Iterator::map whose receiver is filter(split(path, '/'))
    cl = f
    mapped = None
    for g in fns:
        for cbb, ct in g.live_calls(r"iter::Iterator::(map|filter_map|flat_map|try_for_each|map_while)$"):
            for h, node in closure_args_of_call(g, ct):
                if h is cl or cl in ctx.ds.descendants(h):
                    mapped = (g, cbb, ct)
    if mapped is None:
        ctx.lost(R, "Iterator::map call taking the decoding closure")
        return
    g, cbb, ct = mapped
    rs = g.slice(ct["args"][0])
    splits = rs.calls(r"str::<impl str>::split$|str::<impl str>::split_terminator$")
    split_ok = False
    for c, sbb, st in splits:
        if const_int(st["args"][1]) == 47:
            split_ok = True
    ctx.check(R, "split-on-slash-before-decode", split_ok and not rs.has_call(r"percent_decode"),
              "receiver of map(): split('/') on raw text found=%s, decode before split=%s" % (split_ok, rs.has_call(r"percent_decode")), (g, cbb))
    # the split receiver is the path parameter itself
    for c, sbb, st in splits:
        ps = g.slice(st["args"][0])
        badp = callee_allow(ps, PLUMBING)
        ctx.check(R, "split-receiver-is-path-param", ps.params() == [1] and not badp,
                  "split receiver slices to params %s via %s" % (ps.params(), [b[0] for b in badp]), (g, sbb))
    # empty-segment filter between split and map
    filt = rs.calls(r"iter::Iterator::filter$")
    okf = False
    for c, fbb, ft in filt:
        for h, node in closure_args_of_call(g, ft):
            # closure returns Not(is_empty(item))
            hs = h.slice({"l": 0, "p": []})
            if hs.has_call(r"str::<impl str>::is_empty$") and ("unop", "Not") in hs.atoms:
                okf = True
    ctx.check(R, "empty-segments-filtered", okf, "filter(!is_empty) between split and map: %s" % okf, (g, cbb))
    # decode_utf8 on the decode result, Err propagated
    du = [(dbb, dt) for dbb, dt in f.live_calls(r"PercentDecode::<'a>::decode_utf8$|PercentDecode.*decode_utf8$")]
    ok = False
    for dbb, dt in du:
        s2 = f.slice(dt["args"][0])
        if s2.has_call(r"percent_decode_str"):
            ok = True
    ctx.check(R, "decode_utf8-on-decoded", ok and len(du) == 1, "decode_utf8 call sites fed by percent_decode_str: %d" % len(du), f)
    # Try::branch on something whose slice contains decode_utf8, break edge leads to return w/o Ok
    prop = False
    for tbb, tt in f.live_calls(r"ops::Try::branch$"):
        s3 = f.slice(tt["args"][0])
        if s3.has_call(r"decode_utf8"):
            te = try_edges(f, operand_local(tt["args"][0]))
            if te:
                # the break edge must not reach an Ok aggregate
                reach = f.reachable(te["brk"])
                oks = [b for b, i, st in f.aggregates(r"^std::result::Result$", "Ok") if b in reach]
                prop = not oks
    ctx.check(R, "utf8-error-propagates", prop, "`?` on decode_utf8's result; its Break edge reaches no Ok(..): %s" % prop, f)
    # every Ok(x) returned: x comes from decode_utf8
    noks = 0
    for b, i, st in f.aggregates(r"^std::result::Result$", "Ok"):
        if st["pl"]["l"] != 0 or b not in f.reachable(0):
            continue
        noks += 1
        s4 = f.slice(st["rv"]["ops"][0])
        bad4 = callee_allow(s4, PLUMBING + [r"percent_decode_str$", r"decode_utf8$", r"Result::<T, E>::map_err$", r"string::ToString::to_string$",
                                          r"Cow::<'_, B>::into_owned$", r"borrow::ToOwned::to_owned$"])
        ctx.check(R, "returned-segment-is-decoded-value", s4.has_call(r"decode_utf8") and not bad4,
                  "Ok(segment): slice contains decode_utf8=%s, other callees=%s" % (s4.has_call(r"decode_utf8"), [x[0] for x in bad4]), (f, b))
    if noks == 0:
        ctx.lost(R, "Ok(segment) aggregate in the decoding closure")


def r2_dot_segments(ctx):
    R = ctx.rule("C03.R2", "every Ok(segment) is dominated by the not-equal edges of comparisons of the *decoded* value with \".\" and \"..\"; the equal edges return Err", floor=2)
    top, fns = _seg_fns(ctx)
    found = {".": [], "..": []}
    for f in fns:
        for bb, t in f.live_calls(r"cmp::PartialEq::(eq|ne)$"):
            if len(t["args"]) != 2:
                continue
            sa, sb = f.slice(t["args"][0]), f.slice(t["args"][1])
            for lit_side, val_side in ((sa, sb), (sb, sa)):
                ls = lit_strs(lit_side)
                for dot in (".", ".."):
                    if ls == {dot}:
                        found[dot].append((f, bb, t, val_side))
    for dot in (".", ".."):
        if not found[dot]:
            ctx.lost(R, "comparison with the constant %r in input_path_to_segments" % dot)
            continue
        dec = [(f, bb) for f, bb, t, vs in found[dot] if vs.has_call(r"decode_utf8")]
        f0, bb0 = (dec or [(found[dot][0][0], found[dot][0][1])])[0]
        ctx.check(R, "dot-test-on-decoded:%r" % dot, bool(dec),
                  "%d comparison(s) with %r, %d of them on a value derived from the decode_utf8 result (a test on the raw text only lets the percent-encoded spelling %s through)"
                  % (len(found[dot]), dot, len(dec), "%2e" * len(dot)), (f0, bb0))
    # accept edges dominate Ok
    for f in fns:
        for b, i, st in f.aggregates(r"^std::result::Result$", "Ok"):
            if st["pl"]["l"] != 0 or b not in f.reachable(0):
                continue
            s4 = f.slice(st["rv"]["ops"][0])
            if not s4.has_call(r"decode_utf8|percent_decode"):
                continue
            for dot in (".", ".."):
                guarded = False
                for g, bb, t, vs in found[dot]:
                    if g is not f or not vs.has_call(r"decode_utf8"):
                        continue
                    dest = t["dest"]["l"]
                    # the switch on the comparison result
                    for sbb, stt in f.switches():
                        d = stt["discr"]
                        if d.get("k") in ("copy", "move") and d["pl"]["l"] == dest:
                            tb, fb = f.bool_edges(sbb)
                            is_eq = t["callee"].endswith("::eq")
                            accept = fb if is_eq else tb
                            if accept is not None and f.edge_dominates(sbb, accept, b):
                                guarded = True
                ctx.check(R, "ok-dominated-by-not-%r" % dot, guarded,
                          "Ok(decoded segment) %s dominated by the `decoded != %r` edge" % ("is" if guarded else "is NOT", dot), (f, b))


def r3_400_before_lookup(ctx):
    R = ctx.rule("C03.R3", "in lookup_route the segment error is mapped to HttpError::for_bad_request (status 400) and the `?` on it dominates every handler selection", floor=3)
    lr = ctx.need_fn(ctx.ds, R, r"^router::HttpRouter::<Context>::lookup_route$")
    cs = lr.live_calls(r"^router::input_path_to_segments$")
    allc = callers(ctx.ds, r"^router::input_path_to_segments$")
    ctx.check(R, "single-caller", len(cs) == 1 and len(allc) == 1, "input_path_to_segments is called from %s" % sorted(set(f.id for f, _, _ in allc)), lr)
    if len(cs) != 1:
        return
    bb, t = cs[0]
    # path argument is the function's path parameter
    names = {n: [p["l"] for p in pls if not p["p"]] for n, pls in lr.names.items()}
    ps = lr.slice(t["args"][0])
    ctx.check(R, "arg-is-path-param", ps.params() == names.get("path", [3]) and not callee_allow(ps, PLUMBING),
              "argument slices to params %s (path param is %s)" % (ps.params(), names.get("path")), (lr, bb))
    # map_err closure -> for_bad_request
    me = None
    for mbb, mt in lr.live_calls(r"Result::<T, E>::map_err$"):
        if operand_local(mt["args"][0]) == t["dest"]["l"]:
            me = (mbb, mt)
    if me is None:
        ctx.lost(R, "map_err on input_path_to_segments' result")
        return
    mbb, mt = me
    cls = closure_args_of_call(lr, mt)
    okc = False
    for h, node in cls:
        hs = h.slice({"l": 0, "p": []})
        okc = hs.has_call(r"^error::HttpError::for_bad_request$") and not hs.has_call(r"for_internal_error|for_unavail|for_not_found")
    st = status_const_of_ctor(ctx.ds, "for_bad_request")
    ctx.check(R, "segment-error-is-400", okc and st == {400},
              "map_err closure builds for_bad_request=%s; status constants in for_bad_request=%s" % (okc, sorted(st or [])), (lr, mbb))
    te = try_edges(lr, mt["dest"]["l"])
    if not te:
        ctx.lost(R, "`?` on the mapped segment error")
        return
    sites = lr.live_calls(r"^router::find_handler_matching_version$") + lr.live_calls(r"iter::Iterator::any$")
    for sbb, stt in sites:
        ctx.check(R, "400-edge-dominates-selection:%s" % (stt["callee"].split("::")[-1]),
                  lr.edge_dominates(te["switch_bb"], te["cont"], sbb),
                  "handler selection is%s dominated by the Continue edge of the segment `?`" % ("" if lr.edge_dominates(te["switch_bb"], te["cont"], sbb) else " NOT"), (lr, sbb))
    # break edge returns (reaches return without passing a handler selection)
    reach = lr.reachable(te["brk"])
    ctx.check(R, "error-edge-selects-nothing", not any(sbb in reach for sbb, _ in sites),
              "Break edge of the segment `?` reaches no handler selection", (lr, te["switch_bb"]))
    # the segments walked are the Continue payload (not a re-parse of the path)
    walk = lr.live_calls(r"iter::IntoIterator::into_iter$")
    okw = False
    for wbb, wt in walk:
        ws = lr.slice(wt["args"][0])
        if ws.touches_local(te["dest"]) and not callee_allow(ws, PLUMBING + [r"input_path_to_segments$", r"map_err$"]):
            okw = True
    ctx.check(R, "walk-consumes-validated-segments", okw, "the segment iterator walked by lookup_route is built from the `?` payload unmodified: %s" % okw, lr)


RULES = [("C03.R1", r1_decode_once), ("C03.R2", r2_dot_segments), ("C03.R3", r3_400_before_lookup)]
