"""Helpers of C18 (hostile traffic cannot take the server down).

* holds_variant_at: path-sensitive knowledge of *which variant* a Result / Option value holds where it is used
  (`yield x` after `if let Err(e) = &x { .. } else { yield x }` yields an Ok), decided over definitions, discriminant
  tests and is_ok / is_err / is_some / is_none predicates -- never over the spelling of the test.
* census_sites: lib_c16.panic_sites minus arithmetic assertions that provably cannot fire (lib_c10._sum_of_two_lengths) and
  minus full-range indexing `x[..]` (c10._full_range_index).
* site_cannot_fail: a potential panic site decided by evaluating its function on every input (lib_c07.StrInterp): a lookup in a
  constant table keyed by a field-less enum that has an entry for every variant cannot miss.

Nothing here keys on block numbers, line numbers or source text."""
import itertools
import re

from . import absint as A
from .lib import operand_local
from .lib_c07 import StrInterp
from .lib_c10 import _sum_of_two_lengths
from .lib_c16 import panic_sites

_VARIANTS = {"std::result::Result": ["Ok", "Err"], "std::option::Option": ["None", "Some"]}
_PREDICATES = {"Result::<T, E>::is_ok": ("std::result::Result", "Ok"), "Result::<T, E>::is_err": ("std::result::Result", "Err"),
               "Option::<T>::is_some": ("std::option::Option", "Some"), "Option::<T>::is_none": ("std::option::Option", "None")}


def _value_chain(fn, op, hops=8):
    """[(local, definition block)] the operand's value went through, newest first: the operand's local and every local it
    was plainly moved / copied from (`let item = negotiation;`).  Each hop needs a single whole-local definition --
    a local written on several paths may hold different values, and the walk stops there."""
    out = []
    l = operand_local(op) if not op.get("pl", {}).get("p") else None
    while l is not None and len(out) < hops:
        ds = fn.defs().get(l, [])
        if len(ds) != 1:
            break
        bb, kind, node = ds[0]
        if kind == "assign" and node["pl"]["p"]:
            break
        out.append((l, bb))
        if kind == "assign" and node["rv"]["rv"] == "use" and node["rv"]["op"].get("k") in ("move", "copy") and not node["rv"]["op"]["pl"]["p"]:
            l = node["rv"]["op"]["pl"]["l"]
        else:
            break
    return out


def _shared_refs(fn, local):
    """Locals that are shared borrows of the whole `local` (or reborrows / copies of such a borrow)."""
    refs, grew = set(), True
    while grew:
        grew = False
        for bb, i, st in fn.stmts():
            if st["pl"]["p"] or st["pl"]["l"] in refs:
                continue
            rv = st["rv"]
            hit = False
            if rv["rv"] == "ref" and not rv.get("mut"):
                hit = (rv["pl"]["l"] == local and not rv["pl"]["p"]) or (rv["pl"]["l"] in refs and rv["pl"]["p"] == ["*"])
            elif rv["rv"] == "use" and rv["op"].get("k") in ("copy", "move"):
                hit = rv["op"]["pl"]["l"] in refs and not rv["op"]["pl"]["p"]
            if hit and len(fn.defs().get(st["pl"]["l"], [])) == 1:
                refs.add(st["pl"]["l"])
                grew = True
    return refs


def _is_place_of_value(pl, local, refs):
    return (pl["l"] == local and not pl["p"]) or (pl["l"] in refs and pl["p"] == ["*"])


def _mutated(fn, local):
    """Blocks in which `local` may change its variant after its definition: a `&mut` / raw borrow of it, or a write to a
    projection of it (the single whole-local definition itself is not one)."""
    out = set()
    for bb, i, st in fn.stmts():
        rv = st["rv"]
        if rv["rv"] in ("ref", "rawptr") and rv["pl"]["l"] == local and (rv["rv"] == "rawptr" or rv.get("mut")):
            out.add(bb)
        if st["pl"]["l"] == local and st["pl"]["p"]:
            out.add(bb)
    return out


def holds_variant_at(fn, op, site, adt, variant):
    """(True, how) when the Result / Option operand used in block `site` certainly holds `variant` there:

      * it is (a plain move of) an aggregate built as that variant, or
      * on EVERY path from the definition of the value (or of a local it was moved from) to `site`, a test of that
        very value was passed on an edge that only `variant` takes: a discriminant switch on the value or on a shared
        borrow of it (`match`, `if let`, let-else, in either polarity -- for a two-variant enum the edge that is not the
        other variant's), or an is_ok / is_err / is_some / is_none predicate on it in any boolean spelling (negation,
        named flag, `&&`, early return: engine path facts);
      and the value is not mutably borrowed anywhere (its variant cannot change between the test and the use).

    (False, why) otherwise.  Because the condition is stated from the definition block, a value defined anew in each
    iteration of a loop must be tested in that same iteration."""
    names = _VARIANTS.get(adt)
    if names is None or variant not in names:
        return False, "unsupported enum %s::%s" % (adt, variant)
    kv = fn._known_variant_of(op, fn.defs())
    if kv is not None:
        ok = kv[0] == adt and names[kv[1]] == variant if kv[1] < len(names) else False
        return ok, "built as %s::%s" % (kv[0].split("::")[-1], names[kv[1]] if kv[0] == adt and kv[1] < len(names) else kv[1])
    chain = _value_chain(fn, op)
    if not chain:
        return False, "the value has no single definition to follow"
    why = []
    for local, dbb in chain:
        refs = _shared_refs(fn, local)
        if _mutated(fn, local):
            why.append("_%d is mutably borrowed" % local)
            continue
        # ---- discriminant tests
        for sbb, t in fn.switches():
            info = fn.switch_on(sbb)
            if info.get("kind") != "discr" or info.get("adt") != adt or not _is_place_of_value(info["place"], local, refs):
                continue
            tgt = fn.switch_target(sbb, names.index(variant))
            others = set(fn.switch_target(sbb, i) for i, n in enumerate(names) if n != variant)
            if tgt in others or tgt not in fn.succ(sbb):
                continue
            # every path from the definition to the use takes the edge of `variant`
            if site not in fn.reachable(dbb, avoid_edges=[(sbb, tgt)]):
                return True, "tested %s on every path from its definition" % variant
            why.append("a test of _%d exists but a path from its definition reaches the use around the %s edge" % (local, variant))
        # ---- predicates
        for bb, t in fn.live_calls(r"(Result::<T, E>::is_(ok|err)|Option::<T>::is_(some|none))$"):
            pa, pv = next((v for k, v in _PREDICATES.items() if t["callee"].endswith(k)), (None, None))
            if pa != adt or not t["args"]:
                continue
            a = t["args"][0]
            if a.get("k") not in ("copy", "move") or a["pl"]["p"] or a["pl"]["l"] not in refs:
                continue
            if site in fn.reachable(dbb, avoid=[bb]) and bb != dbb:
                why.append("a predicate on _%d exists but is not evaluated on every path to the use" % local)
                continue
            positive = pv == variant
            ok, cex = fn.guarded_by(site, atoms_true=[("call", bb)]) if positive else fn.guarded_by(site, atoms_false=[("call", bb)])
            if ok:
                return True, "%s answered %s on every path" % (t["callee"].split("::")[-1], positive)
            why.append("%s does not decide the variant on every path" % t["callee"].split("::")[-1])
    return False, "; ".join(why) or "no test of the value between its definition and the use"


def census_sites(fn):
    """lib_c16.panic_sites without the overflow assertion of `len(a) + len(b)` (each length is at most isize::MAX:
    the usize sum cannot wrap, the assertion cannot fire) and without full-range indexing `x[..]` of a core sequence
    type (it selects everything) -- the same exclusions as C10's census."""
    from .c10 import _full_range_index     # the same exclusion as C10's census (imported here: c10 imports lazily from its own helpers)
    out = []
    for kind, what, bucket, bb in panic_sites(fn):
        blk = fn.blocks[bb]
        if kind == "assert" and blk["term"].get("msg") == "Overflow" and _sum_of_two_lengths(fn, blk, blk["term"]):
            continue
        if kind == "call" and _full_range_index(fn, bb):
            continue    # `x[..]`: Index<RangeFull> on [T] / [T; N] / str / String / Vec selects everything and cannot be out of bounds
        out.append((kind, what, bucket, bb))
    return out


# --------------------------------------------------------------------------- a site decided by exhaustive evaluation
class _SiteFails(Exception):
    pass


_UNWRAP_LIKE = re.compile(r"(?:^|::)(Option)::<T>::(unwrap|expect)$|(?:^|::)(Result)::<T, E>::(unwrap|expect|unwrap_err|expect_err)$")


class _SiteInterp(StrInterp):
    """lib_c07.StrInterp (constants, field-less enums, constant tables, iterator lookups over them, string equality) that
    watches one potential panic site of one function: an unwrap-like call there is passed when the tested value is
    concretely the variant that does not panic (and execution goes on with its payload); anything else arriving there
    is a failure."""

    def __init__(self, facts, g, site, choices=()):
        StrInterp.__init__(self, facts, choices)
        for k in ("then_some", "then"):
            s = A.GENERIC_SUMMARIES.get("std::bool::<impl bool>::" + k)
            if s is not None:
                self.summaries["core::bool::<impl bool>::" + k] = s
        self.g, self.site, self.passed = g, site, 0

    def do_call(self, fn, frame, t, bb):
        if fn is self.g and bb == self.site:
            m = _UNWRAP_LIKE.search(t.get("callee") or "")
            if not m or not t["args"]:
                raise _SiteFails("the site is reached")
            v = self.deref_all(self.operand(frame, t["args"][0]))
            if v is None or v[0] != "enum" or v[1] not in _VARIANTS:
                raise A.LeavesFragment("the tested value is not a concrete Option / Result")
            good = "Some" if m.group(1) else ("Err" if m.group(4).endswith("_err") else "Ok")
            if v[3] != good:
                raise _SiteFails("the tested value is %s" % v[3])
            self.passed += 1
            return v[4][0] if v[4] else ("zst", None)
        return StrInterp.do_call(self, fn, frame, t, bb)


def site_cannot_fail(facts, g, site, max_inputs=64):
    """(True, why) when the potential panic site in block `site` of function `g` is decided not to fire by evaluating
    `g` on EVERY input: each parameter whose type is a field-less enum of the fact base (by value or behind references)
    ranges over all its variants, every other parameter is opaque (a branch on it is explored both ways), constant
    tables are the values the driver rendered.  The typical case is a lookup in a constant table keyed by an enum that has
    an entry for every variant: `TABLE.iter().find_map(|&(k, v)| (k == self).then_some(v)).expect(..)`.

    A run must arrive at the site with the non-panicking variant; what `g` does afterwards need not be modelled when the site
    is not on a cycle (it runs at most once per call).  Anything outside the fragment before that -- a foreign call, a value
    the model cannot represent, an opaque key -- and the answer is (False, why): the site stays an ordinary census site."""
    spaces = []
    for i in range(1, g.argc + 1):
        ty = g.local_ty(i)
        refs = 0
        while True:
            m = re.match(r"^&('[^ ]+ )?(mut )?(.*)$", ty)
            if not m:
                break
            refs, ty = refs + 1, m.group(3)
        a = facts.adts.get(ty)
        if a and a.get("kind") == "enum" and a["variants"] and all(not v["fields"] for v in a["variants"]):
            spaces.append([(ty, vi, v["name"], refs) for vi, v in enumerate(a["variants"])])
        else:
            spaces.append([None])
    n = 1
    for sp in spaces:
        n *= len(sp)
    if n > max_inputs:
        return False, "more than %d combinations of enum parameters" % max_inputs
    in_loop = site in g.loop_blocks()
    reached = 0
    keys = []
    try:
        for combo in itertools.product(*spaces):
            def run(ch, combo=combo):
                it = _SiteInterp(facts, g, site, ch)
                args = []
                for c in combo:
                    if c is None:
                        args.append(A.V_opaque("parameter"))
                        continue
                    v = A.V_enum(c[0], c[1], c[2], [])
                    for _ in range(c[3]):
                        v = A.V_ref(A.Cell(v))
                    args.append(v)
                try:
                    it.call_fn(g, args)
                except A.LeavesFragment:
                    if not it.passed or in_loop:
                        raise
                return it, it.passed
            outs = A.explore(run)
            if not all(outs):
                return False, "a run of %s ends without passing the site" % g.id
            reached += len(outs)
            keys.append("/".join(c[2] for c in combo if c is not None) or "-")
    except _SiteFails as e:
        return False, str(e)
    except A.LeavesFragment as e:
        return False, "not decidable by evaluation: %s" % e
    except (KeyError, IndexError, TypeError, AttributeError) as e:
        return False, "not decidable by evaluation (%s: %s)" % (type(e).__name__, e)
    return reached > 0, "evaluated on every input (%s; %d run(s)): the tested value is never the panicking variant" % (", ".join(keys), reached)
