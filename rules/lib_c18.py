"""Helpers of C18 (hostile traffic cannot take the server down).

* holds_variant_at: path-sensitive knowledge of *which variant* a Result / Option value holds where it is used
  (`yield x` after `if let Err(e) = &x { .. } else { yield x }` yields an Ok), decided over definitions, discriminant
  tests and is_ok / is_err / is_some / is_none predicates -- never over the spelling of the test.
* census_sites: lib_c16.panic_sites minus arithmetic assertions that provably cannot fire (lib_c10._sum_of_two_lengths).

Nothing here keys on block numbers, line numbers or source text."""
from .lib import operand_local
from .lib_c10 import _sum_of_two_lengths
from .lib_c16 import panic_sites

_VARIANTS = {"std::result::Result": ["Ok", "Err"], "std::option::Option": ["None", "Some"]}
_PREDICATES = {"Result::<T, E>::is_ok": ("std::result::Result", "Ok"), "Result::<T, E>::is_err": ("std::result::Result", "Err"),
               "Option::<T>::is_some": ("std::option::Option", "Some"), "Option::<T>::is_none": ("std::option::Option", "None")}


def _value_chain(fn, op, hops=8):
    """[(local, definition block)] the operand's value went through, newest first: the operand's local and every local it
    was plainly moved / copied from (`let item = negotiation;`).  Each hop needs a single whole-local definition --
    a local written on several paths may hold different values, and the walk stops there."""
    out = []
    l = operand_local(op) if not op.get("pl", {}).get("p") else None
    while l is not None and len(out) < hops:
        ds = fn.defs().get(l, [])
        if len(ds) != 1:
            break
        bb, kind, node = ds[0]
        if kind == "assign" and node["pl"]["p"]:
            break
        out.append((l, bb))
        if kind == "assign" and node["rv"]["rv"] == "use" and node["rv"]["op"].get("k") in ("move", "copy") and not node["rv"]["op"]["pl"]["p"]:
            l = node["rv"]["op"]["pl"]["l"]
        else:
            break
    return out


def _shared_refs(fn, local):
    """Locals that are shared borrows of the whole `local` (or reborrows / copies of such a borrow)."""
    refs, grew = set(), True
    while grew:
        grew = False
        for bb, i, st in fn.stmts():
            if st["pl"]["p"] or st["pl"]["l"] in refs:
                continue
            rv = st["rv"]
            hit = False
            if rv["rv"] == "ref" and not rv.get("mut"):
                hit = (rv["pl"]["l"] == local and not rv["pl"]["p"]) or (rv["pl"]["l"] in refs and rv["pl"]["p"] == ["*"])
            elif rv["rv"] == "use" and rv["op"].get("k") in ("copy", "move"):
                hit = rv["op"]["pl"]["l"] in refs and not rv["op"]["pl"]["p"]
            if hit and len(fn.defs().get(st["pl"]["l"], [])) == 1:
                refs.add(st["pl"]["l"])
                grew = True
    return refs


def _is_place_of_value(pl, local, refs):
    return (pl["l"] == local and not pl["p"]) or (pl["l"] in refs and pl["p"] == ["*"])


def _mutated(fn, local):
    """Blocks in which `local` may change its variant after its definition: a `&mut` / raw borrow of it, or a write to a
    projection of it (the single whole-local definition itself is not one)."""
    out = set()
    for bb, i, st in fn.stmts():
        rv = st["rv"]
        if rv["rv"] in ("ref", "rawptr") and rv["pl"]["l"] == local and (rv["rv"] == "rawptr" or rv.get("mut")):
            out.add(bb)
        if st["pl"]["l"] == local and st["pl"]["p"]:
            out.add(bb)
    return out


def holds_variant_at(fn, op, site, adt, variant):
    """(True, how) when the Result / Option operand used in block `site` certainly holds `variant` there:

      * it is (a plain move of) an aggregate built as that variant, or
      * on EVERY path from the definition of the value (or of a local it was moved from) to `site`, a test of that
        very value was passed on an edge that only `variant` takes: a discriminant switch on the value or on a shared
        borrow of it (`match`, `if let`, let-else, in either polarity -- for a two-variant enum the edge that is not the
        other variant's), or an is_ok / is_err / is_some / is_none predicate on it in any boolean spelling (negation,
        named flag, `&&`, early return: engine path facts);
      and the value is not mutably borrowed anywhere (its variant cannot change between the test and the use).

    (False, why) otherwise.  Because the condition is stated from the definition block, a value defined anew in each
    iteration of a loop must be tested in that same iteration."""
    names = _VARIANTS.get(adt)
    if names is None or variant not in names:
        return False, "unsupported enum %s::%s" % (adt, variant)
    kv = fn._known_variant_of(op, fn.defs())
    if kv is not None:
        ok = kv[0] == adt and names[kv[1]] == variant if kv[1] < len(names) else False
        return ok, "built as %s::%s" % (kv[0].split("::")[-1], names[kv[1]] if kv[0] == adt and kv[1] < len(names) else kv[1])
    chain = _value_chain(fn, op)
    if not chain:
        return False, "the value has no single definition to follow"
    why = []
    for local, dbb in chain:
        refs = _shared_refs(fn, local)
        if _mutated(fn, local):
            why.append("_%d is mutably borrowed" % local)
            continue
        # ---- discriminant tests
        for sbb, t in fn.switches():
            info = fn.switch_on(sbb)
            if info.get("kind") != "discr" or info.get("adt") != adt or not _is_place_of_value(info["place"], local, refs):
                continue
            tgt = fn.switch_target(sbb, names.index(variant))
            others = set(fn.switch_target(sbb, i) for i, n in enumerate(names) if n != variant)
            if tgt in others or tgt not in fn.succ(sbb):
                continue
            # every path from the definition to the use takes the edge of `variant`
            if site not in fn.reachable(dbb, avoid_edges=[(sbb, tgt)]):
                return True, "tested %s on every path from its definition" % variant
            why.append("a test of _%d exists but a path from its definition reaches the use around the %s edge" % (local, variant))
        # ---- predicates
        for bb, t in fn.live_calls(r"(Result::<T, E>::is_(ok|err)|Option::<T>::is_(some|none))$"):
            pa, pv = next((v for k, v in _PREDICATES.items() if t["callee"].endswith(k)), (None, None))
            if pa != adt or not t["args"]:
                continue
            a = t["args"][0]
            if a.get("k") not in ("copy", "move") or a["pl"]["p"] or a["pl"]["l"] not in refs:
                continue
            if site in fn.reachable(dbb, avoid=[bb]) and bb != dbb:
                why.append("a predicate on _%d exists but is not evaluated on every path to the use" % local)
                continue
            positive = pv == variant
            ok, cex = fn.guarded_by(site, atoms_true=[("call", bb)]) if positive else fn.guarded_by(site, atoms_false=[("call", bb)])
            if ok:
                return True, "%s answered %s on every path" % (t["callee"].split("::")[-1], positive)
            why.append("%s does not decide the variant on every path" % t["callee"].split("::")[-1])
    return False, "; ".join(why) or "no test of the value between its definition and the use"


def census_sites(fn):
    """lib_c16.panic_sites without the overflow assertion of `len(a) + len(b)` (each length is at most isize::MAX:
    the usize sum cannot wrap, the assertion cannot fire) -- the same exclusion as C10's census."""
    out = []
    for kind, what, bucket, bb in panic_sites(fn):
        blk = fn.blocks[bb]
        if kind == "assert" and blk["term"].get("msg") == "Overflow" and _sum_of_two_lengths(fn, blk, blk["term"]):
            continue
        out.append((kind, what, bucket, bb))
    return out
