"""Helpers shared by rules/c01.py and rules/c02.py (router / registration analyses).

Everything here is built on engine.Fn facts; nothing looks at source text, line
numbers or block numbers.
"""
import json
import re

from .lib import PLUMBING, callee_allow, operand_local, try_edges

# calls that hand their (first) argument's value on unchanged, for access paths
VALUE_PRESERVING = [
    r"clone::Clone::clone$", r"ops::Deref::deref$", r"ops::DerefMut::deref_mut$", r"convert::AsRef::as_ref$",
    r"borrow::Borrow::borrow$", r"borrow::ToOwned::to_owned$", r"Option::<T>::as_ref$", r"Option::<T>::as_deref$",
    r"string::String::as_str$", r"string::String::as_mut_str$",
    # the same text in another string type
    r"string::ToString::to_string$", r"^<std::string::String as std::convert::From<&[^>]*str>>::from$", r"^<std::string::String as std::convert::From<&[^>]*std::string::String>>::from$",
    r"str::<impl str>::to_owned$", r"str::<impl str>::to_string$",
]


def _elem(e):
    if isinstance(e, dict) and "f" in e:
        return str(e.get("n") if e.get("n") not in (None, "") else e["f"])
    if isinstance(e, dict) and "dc" in e:
        return "as " + str(e["dc"] if e["dc"] is not None else e.get("v"))
    if isinstance(e, dict) and "idx" in e:
        return "[i]"
    return "[?]"


class Path:
    """Result of access_path: where a value lives, seen from a root."""
    __slots__ = ("root", "path", "calls", "fn", "hops")

    def __init__(self, fn, root, path, calls):
        self.fn, self.root, self.path, self.calls = fn, root, path, calls
        self.hops = []

    def npath(self):
        return norm_path(self.path)

    def kind(self):
        return self.root[0]

    def root_local(self):
        return self.root[1] if self.root[0] in ("local", "param", "call") else None

    def call(self):
        """(callee, bb, term) when the root is a call result."""
        return self.root[2:] if self.root[0] == "call" else None

    def is_call(self, pattern):
        return self.root[0] == "call" and re.search(pattern, self.root[2]) is not None

    def ends(self, *suffix):
        return len(self.path) >= len(suffix) and self.path[len(self.path) - len(suffix):] == list(suffix)

    def variants(self):
        return [p[3:] for p in self.path if p.startswith("as ")]

    def call_names(self):
        return sorted(set(c for c, _ in self.calls))

    def __repr__(self):
        r = self.root
        if r[0] == "call":
            head = "%s(..)" % r[2].split("::")[-1]
        elif r[0] == "param":
            head = "param#%d" % r[1]
        elif r[0] == "local":
            head = "local#%d" % r[1]
        else:
            head = r[0]
        s = head + "".join("." + p for p in self.path)
        if self.calls:
            s += " via " + ",".join(c.split("::")[-1] for c in self.call_names())
        return s


def access_path(fn, x, transparent=(), depth=64):
    """Normalised access path of an operand or place.

    Follows single-definition copies, (re)borrows, unsizing casts, projections into
    aggregates built in the function, and calls matching `transparent` (value-preserving
    callees, the value being their first argument) backwards until it reaches a
    parameter, a call result, a local with several definitions (a `mut` variable) or a
    constant.  Dereferences are dropped: `(*(&x.a)).b` is `x.a.b`.  The answer is exact
    for MIR temporaries (single assignment) and stops, rather than guesses, at anything
    that is assigned more than once."""
    rxs = [re.compile(p) for p in (list(transparent) or [])]
    if "k" in x:
        if x["k"] == "const":
            return Path(fn, ("const", None, x), [], [])
        pl = x["pl"]
    else:
        pl = x
    l = pl["l"]
    proj = list(pl["p"])
    calls = []
    defs = fn.defs()
    root = None
    for _ in range(depth):
        if 1 <= l <= fn.argc:
            root = ("param", l)
            break
        ds = defs.get(l, [])
        if len(ds) > 1:
            # `(x as Ok).0` never reads a definition that built x as `Err(..)` (a value built as one variant is never read as another)
            fields = [e for e in proj if e != "*"]
            if fields and isinstance(fields[0], dict) and "dc" in fields[0]:
                want = _elem(fields[0])

                def other_variant(d):
                    if d[1] == "call" and (d[2].get("callee") or "").endswith("FromResidual::from_residual") and not d[2]["dest"]["p"]:
                        return want in SUCC      # `return Err(e)?`-style residual: never the success case
                    if d[1] != "assign" or d[2]["pl"]["p"] or d[2]["rv"]["rv"] != "agg" or d[2]["rv"].get("agg") != "adt" or not d[2]["rv"].get("variant"):
                        return False
                    have = "as " + str(d[2]["rv"]["variant"])
                    return not (want == have or (want in SUCC and have in SUCC) or (want in FAIL and have in FAIL))
                keep = [d for d in ds if not other_variant(d)]
                if len(keep) == 1:
                    ds = keep
        if len(ds) != 1:
            root = ("local", l)
            break
        bb, kind, node = ds[0]
        if kind == "assign":
            if node["pl"]["p"]:
                root = ("local", l)
                break
            rv = node["rv"]
            k = rv["rv"]
            if k in ("use", "cast"):
                op = rv["op"]
                if op.get("k") not in ("copy", "move"):
                    root = ("const", l, op)
                    break
                if k == "cast" and not ("Unsize" in rv.get("kind", "") or "Transmute" in rv.get("kind", "") or "PtrToPtr" in rv.get("kind", "")):
                    root = ("local", l)
                    break
                proj = list(op["pl"]["p"]) + proj
                l = op["pl"]["l"]
            elif k in ("ref", "copyderef", "rawptr"):
                proj = list(rv["pl"]["p"]) + proj
                l = rv["pl"]["l"]
            elif k == "agg" and rv.get("agg") in ("tuple", "adt", "closure", "coroutine"):
                # project into an aggregate built here: (a, b).0 is a; a captured variable of a closure / spliced async block is the captured operand
                fields = [e for e in proj if e != "*"]
                if fields and isinstance(fields[0], dict) and "f" in fields[0] and fields[0]["f"] < len(rv["ops"]) and \
                        (rv.get("agg") in ("tuple", "closure", "coroutine") or (fn.facts.adts.get(rv.get("adt"), {}).get("kind") == "struct")):
                    op = rv["ops"][fields[0]["f"]]
                    rest = fields[1:]
                    if op.get("k") not in ("copy", "move"):
                        root = ("const", l, op)
                        proj = rest
                        break
                    proj = list(op["pl"]["p"]) + rest
                    l = op["pl"]["l"]
                elif rv.get("agg") == "adt" and rv.get("variant") and len(fields) > 1 and isinstance(fields[0], dict) and "dc" in fields[0] and \
                        _elem(fields[0]) == "as " + str(rv["variant"]) and isinstance(fields[1], dict) and "f" in fields[1] and fields[1]["f"] < len(rv["ops"]):
                    # the payload of an enum value built here as that very variant: (Ok(v) as Ok).0 is v
                    op = rv["ops"][fields[1]["f"]]
                    rest = fields[2:]
                    if op.get("k") not in ("copy", "move"):
                        root = ("const", l, op)
                        proj = rest
                        break
                    proj = list(op["pl"]["p"]) + rest
                    l = op["pl"]["l"]
                else:
                    root = ("agg", l, rv)
                    break
            else:
                root = ("local", l)
                break
        elif kind == "call":
            callee = node.get("callee") or ""
            res = node.get("resolved") or ""
            if node["dest"]["p"]:
                root = ("local", l)
                break
            if callee and any(r.search(callee) or (res and r.search(res)) for r in rxs) and node["args"] and node["args"][0].get("k") in ("copy", "move"):
                calls.append((callee, bb))
                a = node["args"][0]["pl"]
                proj = list(a["p"]) + proj
                l = a["l"]
            else:
                root = ("call", l, callee or "<indirect>", bb, node)
                break
        else:
            root = ("local", l)
            break
    if root is None:
        root = ("local", l)
    return Path(fn, root, [_elem(e) for e in proj if e != "*"], calls)


# variant projections that denote "the payload of the successful case" / "of the failing case": `x?` reads
# `(branch(x) as Continue).0`, `match x { Ok(v) => .. }` reads `(x as Ok).0`, `ok_or_else(o)?` reads the Some payload of o
SUCC = ("as Some", "as Ok", "as Continue")
FAIL = ("as None", "as Err", "as Break")


def norm_path(path):
    """Access-path elements with the success / failure variants of Option, Result and ControlFlow identified
    ("+" / "-"), so that `x?`, `match x {Ok(v) ..}`, `if let Ok(v) = x`, let-else read the same path."""
    return ["+" if p in SUCC else "-" if p in FAIL else p for p in path]


def payload_is(p, *suffix):
    """Path p is <root>.<success payload>.0.<suffix..> (root compared by the caller)."""
    return norm_path(p.path) == ["+", "0"] + list(suffix)


def sources(fn, x, transparent=(), stop=(), via=None, limit=200, avoid=()):
    """Every value an operand / place may hold, as a list of Paths.

    Like access_path, but a local with several whole-local definitions (a `let x = match ..` result, an
    or-pattern binding, a value returned from several `return`s of an inlined helper) is followed through each
    of its definitions instead of stopping there.  Projecting the success payload out of `Some(v)` / `Ok(v)`
    built in the function yields v; out of `None` / `Err(..)` it yields nothing (that definition cannot be
    the one read).  Locals in `stop` (loop-carried cursors) are never expanded.  `via`: only definitions
    that can reach the use through block `via` are followed (those reachable from it, or from which it is reachable;
    `avoid`: blocks such paths may not cross, e.g. the head of the enclosing loop, so that "reachable" means "within this iteration").
    Each Path has .hops = [(local, def_bb)] of the multi-definition locals it went through."""
    rxs = [re.compile(p) for p in (list(transparent) or [])]
    if "k" in x:
        if x["k"] == "const":
            p = Path(fn, ("const", None, x), [], [])
            p.hops = []
            return [p]
        pl = x["pl"]
    else:
        pl = x
    defs = fn.defs()
    out = []
    seen = set()
    reach_via = fn.reachable(via, avoid=avoid) if via is not None else None
    work = [(pl["l"], list(pl["p"]), [], [])]
    n = 0
    while work:
        l, proj, calls, hops = work.pop()
        n += 1
        if n > limit:
            p = Path(fn, ("local", l), [_elem(e) for e in proj if e != "*"], calls)
            p.hops = hops
            out.append(p)
            continue
        key = (l, json.dumps(proj, sort_keys=True))
        if key in seen:
            continue
        seen.add(key)
        root = None
        if 1 <= l <= fn.argc:
            root = ("param", l)
        else:
            ds = defs.get(l, [])
            whole = all((k == "assign" and not nd["pl"]["p"]) or (k == "call" and not nd["dest"]["p"]) for _, k, nd in ds)
            if not ds or l in stop or not whole:
                root = ("local", l)
            else:
                cand = ds
                if len(ds) > 1 and via is not None:
                    cand = [d for d in ds if d[0] in reach_via or via in fn.reachable(d[0], avoid=avoid)]
                multi = len(ds) > 1
                for bb, kind, node in cand:
                    h2 = hops + [(l, bb)] if multi else hops
                    r = _follow(fn, l, proj, kind, node, bb, rxs)
                    if r is None:
                        continue            # infeasible: payload of a failure aggregate
                    if r[0] == "cont":
                        _, l2, proj2, call = r
                        work.append((l2, proj2, calls + ([call] if call else []), h2))
                    else:
                        _, rt, proj2 = r
                        p = Path(fn, rt, [_elem(e) for e in proj2 if e != "*"], calls)
                        p.hops = h2
                        out.append(p)
                continue
        p = Path(fn, root, [_elem(e) for e in proj if e != "*"], calls)
        p.hops = hops
        out.append(p)
    return out


def _follow(fn, l, proj, kind, node, bb, rxs):
    """One backward step of sources(): ("cont", local, proj, call-or-None) | ("root", root, proj) | None (infeasible)."""
    if kind == "assign":
        rv = node["rv"]
        k = rv["rv"]
        if k in ("use", "cast"):
            op = rv["op"]
            if op.get("k") not in ("copy", "move"):
                return ("root", ("const", l, op), proj)
            if k == "cast" and not ("Unsize" in rv.get("kind", "") or "Transmute" in rv.get("kind", "") or "PtrToPtr" in rv.get("kind", "")):
                return ("root", ("local", l), proj)
            return ("cont", op["pl"]["l"], list(op["pl"]["p"]) + proj, None)
        if k in ("ref", "copyderef", "rawptr"):
            return ("cont", rv["pl"]["l"], list(rv["pl"]["p"]) + proj, None)
        if k == "agg" and rv.get("agg") in ("tuple", "adt", "closure", "coroutine"):
            fields = [e for e in proj if e != "*"]
            is_struct = rv.get("agg") in ("tuple", "closure", "coroutine") or fn.facts.adts.get(rv.get("adt"), {}).get("kind") == "struct"
            if is_struct and fields and isinstance(fields[0], dict) and "f" in fields[0] and fields[0]["f"] < len(rv["ops"]):
                op = rv["ops"][fields[0]["f"]]
                rest = fields[1:]
                if op.get("k") not in ("copy", "move"):
                    return ("root", ("const", l, op), rest)
                return ("cont", op["pl"]["l"], list(op["pl"]["p"]) + rest, None)
            if not is_struct and fields and isinstance(fields[0], dict) and "dc" in fields[0]:
                want = _elem(fields[0])
                have = "as " + str(rv.get("variant"))
                same = want == have or (want in SUCC and have in SUCC) or (want in FAIL and have in FAIL)
                if not same:
                    return None             # a value built as one variant is never read as another
                if len(fields) > 1 and isinstance(fields[1], dict) and "f" in fields[1] and fields[1]["f"] < len(rv["ops"]):
                    op = rv["ops"][fields[1]["f"]]
                    rest = fields[2:]
                    if op.get("k") not in ("copy", "move"):
                        return ("root", ("const", l, op), rest)
                    return ("cont", op["pl"]["l"], list(op["pl"]["p"]) + rest, None)
            return ("root", ("agg", l, rv), proj)
        return ("root", ("local", l), proj)
    if kind == "call":
        callee = node.get("callee") or ""
        res = node.get("resolved") or ""
        if callee.endswith("FromResidual::from_residual") and not node["dest"]["p"]:
            # the value of `return Err(e)?` / `None?`: always the failing case, so its success payload is never read (as in access_path)
            fields = [e for e in proj if e != "*"]
            if fields and isinstance(fields[0], dict) and "dc" in fields[0] and _elem(fields[0]) in SUCC:
                return None
        if callee and any(r.search(callee) or (res and r.search(res)) for r in rxs) and node["args"] and node["args"][0].get("k") in ("copy", "move"):
            a = node["args"][0]["pl"]
            return ("cont", a["l"], list(a["p"]) + proj, (callee, bb))
        return ("root", ("call", l, callee or "<indirect>", bb, node), proj)
    return ("root", ("local", l), proj)


def enum_switches(fn, adt_pattern):
    """Reachable switches on the discriminant of an ADT matching the pattern:
    [(switch_bb, info, {variant name: target bb})]."""
    rx = re.compile(adt_pattern)
    out = []
    reach = fn.reachable(0)
    for bb, t in fn.switches():
        if bb not in reach:
            continue
        info = fn.switch_on(bb)
        if info["kind"] != "discr":
            continue
        # engine.switch_on guesses the ADT by cutting the type at the first '<'; enums declared inside a
        # generic item (`ApiDescription<Context>::validate_named_parameters::SegmentOrWildcard`) need the full path
        ty = re.sub(r"^(&('\{erased\} |'[a-z_0-9]+ )?(mut )?)+", "", info.get("ty") or "")
        adt = ty if ty in fn.facts.adts else ty.split("<")[0]
        if not rx.search(adt):
            continue
        a = fn.facts.adts.get(adt)
        info = dict(info, adt=adt, variants={i: v["name"] for i, v in enumerate(a["variants"])} if a else {})
        targets = {}
        for idx, name in info["variants"].items():
            targets[name] = fn.switch_target(bb, idx)
        out.append((bb, info, targets))
    return out


def version_param(fn):
    """Index of the parameter whose type mentions semver::Version (the request's version)."""
    for i in range(1, fn.argc + 1):
        if "semver::Version" in fn.local_ty(i):
            return i
    return None


def outermost_fn(ds, f):
    """The named function a closure (possibly of a helper that was inlined, or a synthetic fn-item closure) is written in."""
    cur = f
    for _ in range(8):
        if cur.raw["kind"] != "Closure":
            return cur
        par = ds.F.get(cur.raw.get("parent"))
        if par is None:
            hosts = [g for g in ds.F.values() if cur.raw.get("parent") in g.raw.get("inlined", [])]
            if len(hosts) != 1:
                return cur
            par = hosts[0]
        cur = par
    return cur


def closure_site(facts, clo):
    """(parent Fn, bb, aggregate statement) building the closure / coroutine `clo`."""
    pid = clo.raw.get("parent")
    pars = [facts.F[pid]] if pid in facts.F else []
    # closures of a helper that was inlined are built in the function the helper was inlined into
    pars += [g for g in facts.F.values() if pid in g.raw.get("inlined", []) and g not in pars]
    for par in pars:
        for bb, i, st in par.stmts():
            if st["rv"]["rv"] == "agg" and st["rv"].get("def") == clo.raw["id"]:
                return par, bb, st
    return None


def upvar_index(path):
    """If an access path is rooted at the closure environment (param 1), the captured field index."""
    if path.root[0] == "param" and path.root[1] == 1 and path.path:
        try:
            return int(path.path[0])
        except ValueError:
            return None
    return None


def captured_operand(facts, clo, idx):
    """Operand the parent stored into capture slot idx of `clo`: (parent, operand) or None."""
    site = closure_site(facts, clo)
    if site is None:
        return None
    par, bb, st = site
    if idx is None or idx >= len(st["rv"]["ops"]):
        return None
    return par, st["rv"]["ops"][idx]


def always_err_try_edges(fn):
    """Continue edges of `x?` that can never be taken because every definition of x is
    an aggregate `Result::Err(..)` (engine pruning covers the single-definition case only)."""
    out = []
    defs = fn.defs()
    for bb, t in fn.calls(r"ops::Try::branch$"):
        a = t["args"][0]
        l = operand_local(a)
        if l is None:
            continue
        ds = defs.get(l, [])
        if ds and all(k == "assign" and n["pl"]["p"] == [] and n["rv"]["rv"] == "agg" and n["rv"].get("adt") == "std::result::Result"
                      and n["rv"].get("variant") == "Err" for _, k, n in ds):
            te = try_edges(fn, l)
            if te:
                out.append((te["switch_bb"], te["cont"]))
    return out


def ok_return_blocks(fn):
    """Blocks that assign `Result::Ok(..)` to the return place."""
    return [bb for bb, i, st in fn.aggregates(r"^std::result::Result$", "Ok") if st["pl"]["l"] == 0 and not st["pl"]["p"]]


def edge_is_rejecting(fn, src, dst, extra_avoid_edges=()):
    """From the edge src->dst no `Ok(..)` return is reachable: the function answers Err or diverges."""
    if dst is None:
        return False
    avoid = list(always_err_try_edges(fn)) + list(extra_avoid_edges)
    reach = fn.reachable(dst, avoid_edges=avoid)
    return not any(b in reach for b in ok_return_blocks(fn))


_STD_VARIANTS = {"std::result::Result": ["Ok", "Err"], "std::option::Option": ["None", "Some"], "std::ops::ControlFlow": ["Continue", "Break"]}


def _variant_index(fn, adt, name):
    a = fn.facts.adts.get(adt)
    names = [v["name"] for v in a["variants"]] if a else _STD_VARIANTS.get(adt, [])
    return names.index(name) if name in names else None


def const_reach(fn, start=0, avoid=(), avoid_edges=(), max_states=20000):
    """Blocks reachable from `start` when locally evident constants are propagated along each path:

    * boolean flags assigned `true` / `false` (what `matches!(..)` lowers to), copied, negated and then branched on;
    * the variant of a Result / Option / ControlFlow value that was just built (`Err(..)`, `None`, the result of
      FromResidual::from_residual, Try::branch of such a value) - so that the error returned by a `?` inside an inlined helper
      is known to take the Break edge of the caller's `helper(..)?`.

    Unknown values take every edge (plain reachability).  Only whole locals that are never borrowed mutably are tracked.
    `avoid` blocks are not entered, `avoid_edges` not taken."""
    fn.succ(0)
    avoid = set(avoid)
    avoid_edges = set(avoid_edges)
    cache = getattr(fn, "_c01_mut_borrowed", None)
    if cache is None:
        cache = set()
        for _bb, _i, st in fn.stmts():
            rv = st["rv"]
            if rv["rv"] in ("ref", "rawptr") and rv.get("mut"):
                cache.add(rv["pl"]["l"])
        fn._c01_mut_borrowed = cache
    untracked = cache

    def val_of(op, vals):
        if op.get("k") == "const":
            if op.get("ty") == "bool" and op.get("val") and "int" in op["val"]:
                return ("b", bool(op["val"]["int"]))
            return None
        if op.get("k") in ("copy", "move") and not op["pl"]["p"]:
            return vals.get(op["pl"]["l"])
        return None
    seen = set()
    out = set()
    work = [(start, ())]
    while work:
        bb, vals_t = work.pop()
        if bb in avoid or (bb, vals_t) in seen:
            continue
        seen.add((bb, vals_t))
        if len(seen) > max_states:
            return set(fn.reachable(start, avoid=avoid, avoid_edges=avoid_edges))
        out.add(bb)
        vals = dict(vals_t)
        blk = fn.blocks[bb]
        for st in blk["st"]:
            if st["s"] != "assign":
                continue
            l = st["pl"]["l"]
            if st["pl"]["p"]:
                if "*" not in st["pl"]["p"]:
                    vals.pop(l, None)       # a field of the local is overwritten
                continue
            rv = st["rv"]
            new = None
            if rv["rv"] == "use":
                new = val_of(rv["op"], vals)
            elif rv["rv"] == "unop" and rv["op"] == "Not":
                v = val_of(rv["a"], vals)
                if v is not None and v[0] == "b":
                    new = ("b", not v[1])
            elif rv["rv"] == "agg" and rv.get("agg") == "adt" and rv.get("adt") in _STD_VARIANTS and rv.get("variant"):
                idx = _variant_index(fn, rv["adt"], rv["variant"])
                if idx is not None:
                    new = ("v", rv["adt"], idx)
            elif rv["rv"] == "discr" and not rv["pl"]["p"]:
                v = vals.get(rv["pl"]["l"])
                if v is not None and v[0] == "v":
                    new = ("i", v[2])
            if new is None or l in untracked:
                vals.pop(l, None)
            else:
                vals[l] = new
        t = blk["term"]
        if t["t"] == "call" and not t["dest"]["p"]:
            d = t["dest"]["l"]
            vals.pop(d, None)
            callee = t.get("callee") or ""
            new = None
            if callee.endswith("ops::FromResidual::from_residual"):
                ty = fn.local_ty(d)
                if ty.startswith("std::result::Result<"):
                    new = ("v", "std::result::Result", 1)
                elif ty.startswith("std::option::Option<"):
                    new = ("v", "std::option::Option", 0)
            elif callee.endswith("ops::Try::branch") and t["args"]:
                v = val_of(t["args"][0], vals)
                if v is not None and v[0] == "v" and v[1] in ("std::result::Result", "std::option::Option"):
                    success = v[2] == (0 if v[1].endswith("Result") else 1)
                    new = ("v", "std::ops::ControlFlow", 0 if success else 1)
            if new is not None and d not in untracked:
                vals[d] = new
        elif t["t"] == "call":
            vals.pop(t["dest"]["l"], None)
        succs = list(fn.succ(bb))
        if t["t"] == "switch" and len(succs) > 1:
            d = t["discr"]
            dl = d["pl"]["l"] if d.get("k") in ("copy", "move") and not d["pl"]["p"] else None
            v = vals.get(dl) if dl is not None else None
            only = None
            if v is not None and v[0] == "b" and fn.local_ty(dl) == "bool":
                false_t = None
                for val, tgt in t["targets"]:
                    if val == 0:
                        false_t = tgt
                if false_t is not None:
                    only = t["otherwise"] if v[1] else false_t
            elif v is not None and v[0] == "i":
                only = t["otherwise"]
                for val, tgt in t["targets"]:
                    if val == v[1]:
                        only = tgt
            if only is not None:
                succs = [x for x in succs if x == only]
        vt = tuple(sorted(vals.items()))
        for sx in succs:
            if (bb, sx) in avoid_edges:
                continue
            work.append((sx, vt))
    return out


def bool_switch_of_call(fn, call_bb, term):
    """The bool switch testing the result of the call at call_bb (possibly through Not / copies):
    (switch_bb, true_target, false_target) with polarity already folded, or None."""
    dest = term["dest"]["l"]
    for sbb, st in fn.switches():
        info = fn.switch_on(sbb)
        if info["kind"] != "bool":
            continue
        neg = False
        dbb, kind, node = info["def"]
        ok = False
        for _ in range(5):
            if kind == "call":
                ok = node is term
                break
            if kind == "assign" and node["rv"]["rv"] == "unop" and node["rv"]["op"] == "Not":
                neg = not neg
                op = node["rv"]["a"]
            elif kind == "assign" and node["rv"]["rv"] == "use":
                op = node["rv"]["op"]
            else:
                break
            l = operand_local(op)
            if l is None:
                break
            ds = fn.defs().get(l, [])
            if len(ds) != 1:
                break
            dbb, kind, node = ds[0]
        if ok:
            tb, fb = fn.bool_edges(sbb)
            return (sbb, fb, tb) if neg else (sbb, tb, fb)
    # the switch may test the call's destination directly (`switch move _5`)
    for sbb, st in fn.switches():
        if operand_local(st["discr"]) == dest and fn.local_ty(dest) == "bool":
            tb, fb = fn.bool_edges(sbb)
            return sbb, tb, fb
    return None


def resolve_path(facts, fn, x, transparent=(), stop_at=None):
    """access_path that continues through closure / coroutine captures into the enclosing
    function(s): returns (function in which the path is finally rooted, Path)."""
    p = access_path(fn, x, transparent)
    cur = fn
    for _ in range(6):
        if cur is stop_at or cur.raw["kind"] != "Closure":
            break
        idx = upvar_index(p)
        if idx is None:
            break
        cap = captured_operand(facts, cur, idx)
        if cap is None:
            break
        par, op = cap
        q = access_path(par, op, transparent)
        p = Path(par, q.root, q.path + p.path[1:], q.calls + p.calls)
        cur = par
    return cur, p


def option_edges(fn, local):
    """(switch_bb, some_target, none_target) of the switch on the discriminant of an Option local."""
    for sbb, info, tg in enum_switches(fn, r"^std::option::Option$"):
        if info["place"]["l"] == local and not info["place"]["p"]:
            return sbb, fn.switch_target(sbb, 1), fn.switch_target(sbb, 0)
    return None


def dead_ends(fn, start, avoid=()):
    """Blocks reachable from `start` (not passing `avoid`) that end the function abnormally
    (diverging call, abort): places where the function refuses by panicking.  A bare `unreachable` terminator is not one: it is
    the compiler's own otherwise-arm of an exhaustive `match` on an enum (never executed); `unreachable!()` is a diverging call."""
    out = []
    for b in fn.reachable(start, avoid=avoid):
        t = fn.blocks[b]["term"]
        if t["t"] == "abort" or (t["t"] == "call" and "to" not in t):
            out.append(b)
    return sorted(out)


# (as_slice / Deref to a slice: the same elements in the same order, so a list handed to an extracted helper as `&[T]` is still that list)
ITER_ADAPT = [r"iter::IntoIterator::into_iter$", r"slice::<impl \[T\]>::iter$", r"vec::Vec::<T, A>::iter$", r"vec::Vec::<T, A>::as_slice$", r"vec::Vec::<T, A>::as_mut_slice$"]


SEARCH_ADAPTORS = r"iter::Iterator::(find|position|any|rposition|find_map)$|iter::DoubleEndedIterator::rfind$"


def _conflict_test(facts, ins, vec):
    """The test `some existing element of the handler list overlaps the new endpoint`, whatever the idiom.  Returns a dict
    {idiom, site, elem_ok, new_ok, iter_ok, hit:(switch_bb,target) taken when an overlapping element was found, clear:(switch_bb,target) taken when
     every element was tested and none overlapped, again: block of the loop head (loop idiom) or None, detail} or (None, reason).

    loop   : for h in list { if h.versions.overlaps_with(&new.versions) { refuse } }            hit = true edge of the test, clear = None edge of next()
    search : list.iter().find / position / rfind (|h| h.versions.overlaps_with(&new.versions))   hit = Some edge of the result, clear = its None edge
             list.iter().any(|h| h.versions.overlaps_with(&new.versions))                        hit = true edge, clear = false edge
    (std's find / position / any apply the predicate to every element in turn until it first holds)"""
    sites = [(ins, bb, t) for bb, t in ins.live_calls(r"^api_description::ApiEndpointVersions::overlaps_with$")]
    for h in facts.descendants(ins):
        sites += [(h, bb, t) for bb, t in h.live_calls(r"^api_description::ApiEndpointVersions::overlaps_with$")]
    if len(sites) != 1:
        return None, "overlaps_with call sites in insert (and its closures): %d (want the one test applied to every existing handler)" % len(sites)
    f, obb, ot = sites[0]
    if f is ins:
        pa = access_path(ins, ot["args"][0], VALUE_PRESERVING)
        pb = access_path(ins, ot["args"][1], VALUE_PRESERVING)
        elem, new = (pa, pb) if pa.is_call(r"iter::Iterator::next$") else (pb, pa)
        res = {"idiom": "loop", "site": (ins, obb), "hit": None, "clear": None, "again": None}
        res["new_ok"] = new.kind() == "param" and new.root[1] == 2 and new.path == ["versions"]
        res["elem_ok"] = elem.is_call(r"iter::Iterator::next$") and elem.npath() == ["+", "0", "versions"]
        res["iter_ok"] = False
        ne = None
        if res["elem_ok"]:
            nbb, nt = elem.call()[1], elem.call()[2]
            pit = access_path(ins, nt["args"][0], VALUE_PRESERVING + ITER_ADAPT)
            res["iter_ok"] = pit.root[0] == vec.root[0] and pit.root_local() == vec.root_local() and pit.path == vec.path
            ne = option_edges(ins, nt["dest"]["l"])
            res["again"] = nbb
            if ne is not None:
                res["clear"] = (ne[0], ne[2])
                res["elem_ok"] = res["elem_ok"] and ins.edge_dominates(ne[0], ne[1], obb)
        sw = bool_switch_of_call(ins, obb, ot)
        if sw is not None:
            res["hit"] = (sw[0], sw[1])
            res["miss"] = (sw[0], sw[2])
        res["detail"] = "overlaps_with(%r, %r) inside a loop over the list" % (pa, pb)
        return res, None
    # the test lives in a closure: it must be the predicate of a short-circuit search over the list
    if f.raw["kind"] != "Closure":
        return None, "overlaps_with is called in %s" % f.id
    pa = access_path(f, ot["args"][0], VALUE_PRESERVING)
    pb = access_path(f, ot["args"][1], VALUE_PRESERVING)
    elem, newop = (pa, ot["args"][1]) if (pa.kind() == "param" and pa.root[1] == 2) else (pb, ot["args"][0])
    res = {"idiom": "search", "site": (f, obb), "hit": None, "clear": None, "again": None}
    res["elem_ok"] = elem.kind() == "param" and elem.root[1] == 2 and elem.path == ["versions"] and not [c for c in elem.call_names() if not c.endswith("Deref::deref")]
    g, new = resolve_path(facts, f, newop, VALUE_PRESERVING)
    res["new_ok"] = g is ins and new.kind() == "param" and new.root[1] == 2 and new.path == ["versions"]
    ret = access_path(f, {"l": 0, "p": []}, [])
    returns_test = ret.call() is not None and ret.call()[2] is ot and not ret.path
    users = []
    for bb, t in ins.live_calls():
        for h, _n in _closure_args(ins, t):
            if h is f:
                users.append((bb, t))
    res["iter_ok"] = False
    res["detail"] = "overlaps_with(%r, %r) in a closure" % (pa, pb)
    if len(users) != 1 or not returns_test:
        res["detail"] += " that %s and is used by %d call(s)" % ("returns the test" if returns_test else "does NOT return the test itself", len(users))
        res["elem_ok"] = False
        return res, None
    ubb, ut = users[0]
    callee = ut.get("callee") or ""
    is_filter = bool(re.search(r"iter::Iterator::filter$", callee))
    if is_filter:
        # `for h in list.iter().filter(|h| h.versions.overlaps_with(new)) { refuse }`: the loop body runs for exactly the elements
        # the predicate holds for, every element being tested on the way -- hit = the Some edge of the filtered iterator's next(),
        # clear = its None edge (all elements tested, none overlapped)
        for nbb, nt in ins.live_calls(r"iter::Iterator::next$"):
            q = access_path(ins, nt["args"][0], VALUE_PRESERVING + ITER_ADAPT)
            if q.call() and q.call()[2] is ut and not q.path:
                sp = None
                for sbb, info, tg in enum_switches(ins, r"^std::option::Option$"):
                    q2 = access_path(ins, info["place"], VALUE_PRESERVING)
                    if q2.call() and q2.call()[2] is nt and not q2.path:
                        sp = sbb
                if sp is not None:
                    res["hit"], res["clear"] = (sp, ins.switch_target(sp, 1)), (sp, ins.switch_target(sp, 0))
    if not is_filter and (not re.search(SEARCH_ADAPTORS, callee) or callee.endswith("find_map")):
        res["detail"] += " handed to %s, which is not a search over every element" % callee.split("::")[-1]
        res["elem_ok"] = False
        return res, None
    pit = access_path(ins, ut["args"][0], VALUE_PRESERVING + ITER_ADAPT)
    res["iter_ok"] = pit.root[0] == vec.root[0] and pit.root_local() == vec.root_local() and pit.path == vec.path and \
        not [c for c in pit.call_names() if not re.search(r"Deref::deref$|DerefMut::deref_mut$|slice::<impl \[T\]>::iter$|iter::IntoIterator::into_iter$|vec::Vec::<T, A>::(iter|as_slice|as_mut_slice)$|Clone::clone$|AsRef::as_ref$|Borrow::borrow$", c)]
    res["detail"] += " handed to %s over %r" % (callee.split("::")[-1], pit)
    if is_filter:
        pass
    elif callee.endswith("::any"):
        sw = bool_switch_of_call(ins, ubb, ut)
        if sw is not None:
            res["hit"], res["clear"] = (sw[0], sw[1]), (sw[0], sw[2])
    else:
        for sbb, info, tg in enum_switches(ins, r"^std::option::Option$"):
            q = access_path(ins, info["place"], VALUE_PRESERVING)
            if q.call() and q.call()[2] is ut and not q.path:
                res["hit"], res["clear"] = (sbb, ins.switch_target(sbb, 1)), (sbb, ins.switch_target(sbb, 0))
        if res["hit"] is None:
            for cbb, ct in ins.live_calls(r"Option::<T>::(is_some|is_none)$"):
                q = access_path(ins, ct["args"][0], VALUE_PRESERVING)
                if q.call() and q.call()[2] is ut and not q.path:
                    sw = bool_switch_of_call(ins, cbb, ct)
                    if sw is not None:
                        some_t, none_t = (sw[1], sw[2]) if ct["callee"].endswith("is_some") else (sw[2], sw[1])
                        res["hit"], res["clear"] = (sw[0], some_t), (sw[0], none_t)
    return res, None


def _closure_args(fn, t):
    from .lib import closure_args_of_call
    return closure_args_of_call(fn, t)


def conflict_loop(facts, ins, which=None):
    """Structure of the per-method version-conflict test of HttpRouter::insert, found by role.
    Yields (key, ok, detail, site) checks; `which` selects a subset by key."""
    out = []

    def emit(key, ok, detail, site):
        if which is None or key in which:
            out.append((key, bool(ok), detail, site))

    appends = []
    for bb, t in ins.live_calls(r"vec::Vec::<T, A>::(push|insert|append|extend_from_slice|push_within_capacity)$|iter::Extend::extend$|collections::VecDeque"):
        l = operand_local(t["args"][-1]) if t["args"] else None
        if l is not None and "ApiEndpoint<" in ins.local_ty(l):
            appends.append((bb, t))
    pushes = [(bb, t) for bb, t in appends if t["callee"].endswith("Vec::<T, A>::push")]
    emit("one-append", len(appends) == 1 and len(pushes) == 1, "calls adding an ApiEndpoint to a handler list in insert: %s"
         % [t["callee"].split("::")[-1] for _, t in appends], ins)
    if len(pushes) != 1:
        return out
    pbb, pt = pushes[0]
    vec = access_path(ins, pt["args"][0], VALUE_PRESERVING)
    # the vector is node.methods.entry(METHOD).or_default()
    vs = ins.slice(pt["args"][0], stop_at_calls=r"BTreeMap::<K, V, A>::entry$")
    ent = vs.calls(r"BTreeMap::<K, V, A>::entry$")
    okv = False
    pm = None
    if len(ent) == 1:
        pm = access_path(ins, ent[0][2]["args"][0], VALUE_PRESERVING)
        okv = pm.path == ["methods"] and not callee_allow(vs, PLUMBING + [r"BTreeMap::<K, V, A>::entry$", r"btree_map::Entry::<'a, K, V, A>::or_default$",
                                                                        r"btree_map::Entry::<'a, K, V, A>::or_insert_with$", r"btree_map::Entry::<'a, K, V, A>::or_insert$"])
    emit("vector-is-node.methods[METHOD]", okv, "push receiver is %r obtained from entry(%r)" % (vec, pm), (ins, pbb))
    pe = access_path(ins, pt["args"][1], [])
    emit("appended-value-is-the-new-endpoint", pe.kind() == "param" and pe.root[1] == 2 and not pe.path, "pushed value is %r" % pe, (ins, pbb))
    ct, why = _conflict_test(facts, ins, vec)
    if ct is None:
        emit("every-element-tested", False, why, ins)
        return out
    emit("every-element-tested", ct["new_ok"] and ct["elem_ok"] and ct["iter_ok"],
         "%s: one side is each element of the vector that is pushed to (element: %s, that vector: %s), the other the new endpoint's versions (%s)"
         % (ct["detail"], ct["elem_ok"], ct["iter_ok"], ct["new_ok"]), ct["site"])
    if ct["hit"] is None or ct["clear"] is None:
        emit("overlap-true-diverges", False, "no branch on the outcome of the overlap test (%s idiom)" % ct["idiom"], ct["site"])
        return out
    hsw, htgt = ct["hit"]
    csw, ctgt = ct["clear"]
    again = ct["again"]
    true_div = ins.is_diverging(htgt) and (again is None or again not in ins.reachable(htgt)) and pbb not in ins.reachable(htgt)
    emit("overlap-true-diverges", true_div, "the edge taken when an existing element overlaps %s (registration refused by panic)" % ("never returns" if true_div else "can continue to the push"), (ins, hsw))
    if ct["idiom"] == "loop":
        msw, mtgt = ct["miss"]
        false_cont = again in ins.reachable(mtgt, avoid=[pbb]) and not dead_ends(ins, mtgt, avoid=[again])
        emit("overlap-false-continues", false_cont, "the false edge goes on to the next element without any refusal in between: %s" % false_cont, (ins, msw))
    else:
        emit("overlap-false-continues", True, "short-circuit search (std find/position/any): the predicate is applied to each element in turn until it first holds", (ins, hsw))
    emit("append-after-loop-exit", ins.edge_dominates(csw, ctgt, pbb), "push is dominated by the edge taken when all elements were tested and none overlapped: %s"
         % ins.edge_dominates(csw, ctgt, pbb), (ins, pbb))
    de = dead_ends(ins, ctgt)
    rets = ins.returns()
    emit("no-refusal-after-loop", not de and all(ins.dominates(pbb, r) or r not in ins.reachable(ctgt) for r in rets),
         "from there every path reaches the push and returns (refusal sites after the test: %d)" % len(de), (ins, ctgt))
    # nothing else touches the vector before the push
    foreign = []
    for bb, t in ins.live_calls():
        if t is pt or not t["args"]:
            continue
        for a in t["args"]:
            if a.get("k") not in ("copy", "move"):
                continue
            q = access_path(ins, a, VALUE_PRESERVING)
            if q.root[0] == vec.root[0] and q.root_local() == vec.root_local() and q.path == vec.path and q.root[0] == "call":
                c = t.get("callee") or ""
                if not re.search(r"Deref::deref$|DerefMut::deref_mut$|slice::<impl \[T\]>::(iter|get|first|last|len|is_empty)$|iter::IntoIterator::into_iter$|"
                                 r"vec::Vec::<T, A>::(iter|len|is_empty|as_slice)$|ops::Index::index$", c):
                    foreign.append(c)
    emit("vector-untouched-before-append", not foreign, "other operations on the handler list in insert: %s" % (foreign or "only iteration"), (ins, pbb))
    return out


class Renamed:
    """Re-issue another module's rule under this property's rule id (same analysis, own evidence)."""

    def __init__(self, ctx, rid, statement):
        self._ctx, self._rid, self._statement = ctx, rid, statement

    def rule(self, rid, statement, floor=1):
        return self._ctx.rule(self._rid, self._statement + " [= %s: %s]" % (rid, statement), floor)

    def __getattr__(self, name):
        return getattr(self._ctx, name)


# the code of overlaps_with before the repair of defect F3 (/repo commit "fix: a one-version from-until range overlaps ..."),
# as two search/replace edits; used by the self-tests of C01 and C02
_AD = "dropshot/src/api_description.rs"
PRE_FIX_F3_EDITS = [
    (_AD,
     "                ApiEndpointVersions::From(earliest),\n"
     "                r @ ApiEndpointVersions::FromUntil(OrderedVersionPair {\n"
     "                    earliest: range_earliest,\n"
     "                    until: _,\n"
     "                }),\n"
     "            ) => earliest <= range_earliest || r.matches(Some(&earliest)),\n",
     "                ApiEndpointVersions::From(earliest),\n"
     "                ApiEndpointVersions::FromUntil(OrderedVersionPair {\n"
     "                    earliest: _,\n"
     "                    until,\n"
     "                }),\n"
     "            ) => earliest < until,\n"),
    (_AD,
     "                r @ ApiEndpointVersions::FromUntil(OrderedVersionPair {\n"
     "                    earliest: range_earliest,\n"
     "                    until: _,\n"
     "                }),\n"
     "                ApiEndpointVersions::From(earliest),\n"
     "            ) => earliest <= range_earliest || r.matches(Some(&earliest)),\n",
     "                ApiEndpointVersions::FromUntil(OrderedVersionPair {\n"
     "                    earliest: _,\n"
     "                    until,\n"
     "                }),\n"
     "                ApiEndpointVersions::From(earliest),\n"
     "            ) => earliest < until,\n"),
]


def answer_field_from_selection(dsn, lr, op, field):
    """lookup_route's answer carries `field` of the endpoint selected by find_handler_matching_version: every value the operand
    may hold is <find_handler_matching_version(..) as Some>.0.<field>, through value-preserving calls only.  Evaluated on the
    normalised view, so `get(k).and_then(|h| find(h, v))`, `match`, `?` and let-else forms are one program.  Returns (ok, detail)."""
    srcs = sources(lr, op, VALUE_PRESERVING + [r"ops::Try::branch$"])
    bad = [repr(p) for p in srcs if not (p.is_call(r"^router::find_handler_matching_version$") and p.npath() == ["+", "0", field])]
    return bool(srcs) and not bad, ("every source is the selected endpoint's `%s`" % field) if srcs and not bad else ("sources: %s" % (bad[:3] or "none"))
