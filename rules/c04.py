"""C04 — unmatched requests get 404 or 405 with a truthful Allow header."""
from .lib import (PLUMBING, callee_allow, callers, closure_args_of_call, const_int, operand_local, option_some_edges, status_const_of_ctor, switches_on_value, try_edges)

LEVEL = "other"
TECHNIQUE = "static analysis: decision-table extraction from lookup_route's MIR, guard dominance of every Allow insertion by the version-filtered selection predicate, who-calls census for handlers"
LEVEL_TEXT = ("Decides on all paths of lookup_route's MIR: the 405 arm is taken exactly on the true edge of `any(handlers at this node, find_handler_matching_version(h, request version))`, "
              "the other edge and the unmatched-path case build for_not_found (evaluated 404); every Allow header insertion is dominated by the same predicate applied to that method's own "
              "handler list and the request's version, and Allow is added nowhere else; lookup_route calls no handler and its `?` in http_request_handle dominates both handler invocations. "
              "Together with C05's exact membership table this is the whole 404/405/Allow decision, for every table and version.")
LEVEL_NOTE = "Trusts rustc MIR, the extractor, BTreeMap::{get,values,iter}, Iterator::any and HttpError::add_header's insertion semantics."
EXPLANATION = ("Rules over the MIR of router::lookup_route and server::http_request_handle from the current tree: TABLE (bool switch on Iterator::any -> 405 / 404 constructors with "
               "evaluated status constants), SAME-SOURCE (closure's captured version is lookup_route's version parameter; Allow's method name and the filtered handler list are the two "
               "components of one iterator item), DOM (edge dominance of add_header by is_some(find_handler_matching_version(..)) true edge), WHO-CALLS (ALLOW insertions, handle_request).")
TRUSTED = ["rustc nightly MIR + const evaluation", "mirfacts extractor", "rules/engine.py", "std BTreeMap/Iterator::any semantics", "C05 (ApiEndpointVersions::matches is exact)"]


def _lr(ctx, R):
    return ctx.need_fn(ctx.ds, R, r"^router::HttpRouter::<Context>::lookup_route$")


def _version_param(lr):
    v = [p["l"] for p in lr.names.get("version", []) if not p["p"]]
    return v[0] if v else 4


def _is_version_guard(ctx, f, call_t, version_locals_ok):
    """call_t is a find_handler_matching_version call in f: is arg1 the request's version?"""
    sl = f.slice(call_t["args"][1])
    return sl, (not callee_allow(sl, PLUMBING))


def r1_decision(ctx):
    R = ctx.rule("C04.R1", "405 is built exactly on the true edge of any(values(node.methods), |h| find_handler_matching_version(h, request version).is_some()); "
                 "the false edge and the unmatched path build for_not_found (404)", floor=6)
    lr = _lr(ctx, R)
    vparam = _version_param(lr)
    c405 = [(bb, t) for bb, t in lr.live_calls(r"^error::HttpError::for_client_error") if any(const_int(a) == 405 for a in t["args"])]
    ctx.check(R, "one-405-site", len(c405) == 1, "405 constructor sites in lookup_route: %d" % len(c405), lr)
    anys = lr.live_calls(r"iter::Iterator::any$")
    ctx.check(R, "one-any-site", len(anys) == 1, "Iterator::any sites: %d" % len(anys), lr)
    if len(c405) != 1 or len(anys) != 1:
        return
    abb, at = anys[0]
    # switch on any's result
    sw = switches_on_value(lr, at["dest"]["l"])
    if len(sw) != 1:
        ctx.lost(R, "switch on the result of any()")
        return
    sbb, st = sw[0]
    tb, fb = lr.bool_edges(sbb)
    bb405 = c405[0][0]
    ctx.check(R, "405-on-true-edge", lr.edge_dominates(sbb, tb, bb405), "405 constructor dominated by the true edge of any(): %s" % lr.edge_dominates(sbb, tb, bb405), (lr, bb405))
    nf = lr.live_calls(r"^error::HttpError::for_not_found$")
    on_false = [bb for bb, t in nf if lr.edge_dominates(sbb, fb, bb)]
    ctx.check(R, "404-on-false-edge", len(on_false) >= 1 and bb405 not in lr.reachable(fb),
              "for_not_found on the false edge: %d site(s); 405 reachable from the false edge: %s" % (len(on_false), bb405 in lr.reachable(fb)), (lr, sbb))
    s404 = status_const_of_ctor(ctx.ds, "for_not_found")
    ctx.check(R, "for_not_found-is-404", s404 == {404}, "status constants in for_not_found: %s" % sorted(s404 or []), lr)
    # the closure: find_handler_matching_version(handlers-param, captured version) . is_some()
    cls = closure_args_of_call(lr, at)
    ok = False
    detail = "no closure"
    for h, node in cls:
        fh = h.live_calls(r"^router::find_handler_matching_version$")
        if len(fh) != 1:
            detail = "closure has %d find_handler_matching_version calls" % len(fh)
            continue
        hb, ht = fh[0]
        s_h = h.slice(ht["args"][0])
        s_v = h.slice(ht["args"][1])
        ret = h.slice({"l": 0, "p": []})
        # version = captured upvar (param 1 field 0) ; handlers = item param 2
        vfields = [pf for pf in s_v.param_fields() if pf[0] == 1]
        cap_idx = None
        for pf in vfields:
            for e in pf[1]:
                if e.startswith("f"):
                    cap_idx = int(e[1:].split(":")[0])
        # what did the parent capture at that index?
        cap_ok = False
        if cap_idx is not None and cap_idx < len(node["rv"]["ops"]):
            ps = lr.slice(node["rv"]["ops"][cap_idx])
            cap_ok = ps.params() == [vparam] and not callee_allow(ps, PLUMBING)
        ok = (s_h.params() == [2] and not callee_allow(s_h, PLUMBING) and cap_ok and not callee_allow(s_v, PLUMBING)
              and ret.has_call(r"Option::<T>::is_some$") and ret.has_call(r"find_handler_matching_version$") and ("unop", "Not") not in ret.atoms)
        detail = "handlers arg from item param=%s, version arg = captured request version=%s, returns is_some(..)=%s" % (
            s_h.params() == [2], cap_ok, ret.has_call(r"Option::<T>::is_some$"))
    ctx.check(R, "any-predicate-is-version-filtered-selection", ok, detail, (lr, abb))
    # the iterated collection is node.methods.values() of the node selected by the walk
    rs = lr.slice(at["args"][0])
    gets = lr.live_calls(r"BTreeMap::<K, V, A>::get$")
    mget = [(bb, t) for bb, t in gets if lr.slice(t["args"][0]).reads_field("methods")]
    same = rs.has_call(r"BTreeMap::<K, V, A>::values$") and rs.reads_field("methods")
    node_locals = set(lr.local_by_name("node"))
    share = bool(mget) and all(set(lr.slice(t["args"][0]).locals()) & node_locals for bb, t in mget) and bool(rs.locals() & node_locals)
    ctx.check(R, "any-scans-the-matched-node", same and share,
              "any() iterates values(node.methods)=%s; same `node` local as the method lookup=%s" % (same, share), (lr, abb))
    # unmatched path -> ok_or_else(closure -> for_not_found)
    oe = lr.live_calls(r"Option::<T>::ok_or_else$")
    ok2 = False
    for obb, ot in oe:
        for h, node in closure_args_of_call(lr, ot):
            hs = h.slice({"l": 0, "p": []})
            if hs.has_call(r"^error::HttpError::for_not_found$"):
                ok2 = True
    ctx.check(R, "unmatched-path-is-404", ok2, "walk failure (no edge for the segment) maps to for_not_found via ok_or_else: %s" % ok2, lr)
    # 405 arm returns that error
    errs = [(b, s) for b, i, s in lr.aggregates(r"^std::result::Result$", "Err") if s["pl"]["l"] == 0 and lr.edge_dominates(sbb, tb, b)]
    okr = any(lr.slice(s["rv"]["ops"][0]).has_call(r"for_client_error") for b, s in errs)
    ctx.check(R, "405-arm-returns-the-405-error", okr and len(errs) >= 1, "Err(..) in the 405 arm is the 405 error: %s" % okr, (lr, bb405))


def r2_allow_truthful(ctx):
    R = ctx.rule("C04.R2", "every add_header(ALLOW, m) is dominated by the true edge of is_some(find_handler_matching_version(handlers-of-m, request version)), "
                 "m and handlers-of-m being the key and value of one item of node.methods", floor=2)
    lr = _lr(ctx, R)
    vparam = _version_param(lr)
    adds = []
    for f, bb, t in callers(ctx.ds, r"^error::HttpError::add_header$"):
        sl = f.slice(t["args"][1])
        if sl.has_const_path(r"header::ALLOW$") or any(a[0] == "const" and "ALLOW" in a[1] for a in sl.atoms):
            adds.append((f, bb, t))
    if not adds:
        ctx.check(R, "allow-header-present", False, "no add_header(ALLOW, ..) site found: a 405 would carry no Allow header", lr)
        return
    for f, bb, t in adds:
        if f is not lr:
            ctx.check(R, "allow-site:%s" % f.id, False, "Allow header added outside lookup_route", (f, bb))
            continue
        # the method value: item key
        ms = lr.slice(t["args"][2])
        nexts = ms.calls(r"iter::Iterator::next$")
        guard_ok = False
        detail = "no guarding find_handler_matching_version(..).is_some() switch"
        for sbb, tb, optop in option_some_edges(lr):
            gs = lr.slice(optop)
            fh = gs.calls(r"^router::find_handler_matching_version$")
            if not fh:
                continue
            if tb is None or not lr.edge_dominates(sbb, tb, bb):
                detail = "a version guard exists but its true edge does not dominate add_header"
                continue
            c, hb, ht = fh[0]
            hs = lr.slice(ht["args"][0])
            vs = lr.slice(ht["args"][1])
            same_item = bool(nexts) and bool(hs.calls(r"iter::Iterator::next$")) and \
                set(b for _, b, _ in nexts) == set(b for _, b, _ in hs.calls(r"iter::Iterator::next$"))
            ver_ok = vs.params() == [vparam] and not callee_allow(vs, PLUMBING)
            iter_ok = hs.reads_field("methods") and ms.reads_field("methods")
            guard_ok = same_item and ver_ok and iter_ok
            detail = "guard handlers and Allow value come from the same iterator item=%s; guard version is the request's=%s; iterating node.methods=%s" % (same_item, ver_ok, iter_ok)
            if guard_ok:
                break
        ctx.check(R, "allow-entry-guarded-by-version-match", guard_ok, detail, (lr, bb))
        # iterated node is the matched node
        node_locals = set(lr.local_by_name("node"))
        ctx.check(R, "allow-iterates-matched-node", bool(ms.locals() & node_locals), "Allow values come from the `node` reached by the walk", (lr, bb))


def r3_allow_only_on_405(ctx):
    R = ctx.rule("C04.R3", "an Allow header is added in the 405 arm of lookup_route and nowhere else in the crate", floor=1)
    lr = _lr(ctx, R)
    c405 = [(bb, t) for bb, t in lr.live_calls(r"^error::HttpError::for_client_error") if any(const_int(a) == 405 for a in t["args"])]
    n = 0
    adds = [(bb, t) for bb, t in lr.live_calls(r"^error::HttpError::add_header$")]
    for f in ctx.ds.F.values():
        if f.id.startswith(("test_util", "logging")):
            continue
        for bb in f.const_uses(r"header::ALLOW$"):
            n += 1
            ok = f is lr and len(c405) == 1 and lr.dominates(c405[0][0], bb)
            # the constant flows into an add_header on the 405 error
            on_err = False
            if f is lr:
                for abb, at in adds:
                    if lr.slice(at["args"][1]).has_const_path(r"header::ALLOW$") and lr.slice(at["args"][0]).has_call(r"for_client_error"):
                        on_err = True
            ctx.check(R, "allow-use:%s" % f.id, ok and on_err,
                      "use of header::ALLOW %s dominated by the 405 constructor; it is added to the 405 error=%s" % ("is" if ok else "is NOT", on_err), (f, bb))
    if n == 0:
        ctx.check(R, "allow-header-present", False, "header::ALLOW is not used anywhere: a 405 would carry no Allow header", lr)


def r4_no_handler(ctx):
    R = ctx.rule("C04.R4", "lookup_route invokes no handler; in http_request_handle the `?` on its result dominates both handle_request calls", floor=3)
    lr = _lr(ctx, R)
    reg = ctx.ds.region([lr.id])
    bad = []
    for fid in reg:
        for bb, t in ctx.ds.F[fid].live_calls(r"RouteHandler::handle_request$|HttpHandlerFunc::handle_request$"):
            bad.append((fid, bb))
    ctx.check(R, "lookup-calls-no-handler", not bad, "handle_request calls reachable from lookup_route (%d functions): %s" % (len(reg), bad), lr)
    top = ctx.need_fn(ctx.ds, R, r"^server::http_request_handle$")
    hb = ctx.ds.body_of(top)
    look = hb.live_calls(r"HttpRouter::<Context>::lookup_route$")
    if len(look) != 1:
        ctx.lost(R, "the single lookup_route call in http_request_handle")
        return
    lbb, lt = look[0]
    te = try_edges(hb, lt["dest"]["l"])
    if not te:
        ctx.lost(R, "`?` on lookup_route's result")
        return
    hs = []
    for g in [hb] + ctx.ds.descendants(hb):
        for bb, t in g.live_calls(r"RouteHandler::handle_request$"):
            hs.append((g, bb))
    for g, bb in hs:
        if g is hb:
            ok = hb.edge_dominates(te["switch_bb"], te["cont"], bb)
        else:
            # handler call inside a spawned coroutine: the coroutine aggregate site must be dominated
            site = None
            cur = g
            while cur is not hb and cur.raw.get("parent") in ctx.ds.F:
                par = ctx.ds.F[cur.raw["parent"]]
                for b2, i2, s2 in par.stmts():
                    if s2["rv"]["rv"] == "agg" and s2["rv"].get("def") == cur.raw["id"]:
                        site = (par, b2)
                cur = par
            ok = site is not None and site[0] is hb and hb.edge_dominates(te["switch_bb"], te["cont"], site[1])
        ctx.check(R, "lookup-ok-dominates-handler:%s" % g.id.split("::")[-1], ok, "handle_request %s dominated by the Continue edge of lookup_route(..)?" % ("is" if ok else "is NOT"), (g, bb))
    ctx.check(R, "two-handler-sites", len(hs) == 2, "handle_request call sites under http_request_handle: %d" % len(hs), hb)
    reach = hb.reachable(te["brk"])
    ctx.check(R, "lookup-error-runs-no-handler", not any(g is hb and bb in reach for g, bb in hs) and
              not any(s["rv"].get("agg") == "coroutine" and b in reach for b, i, s in hb.stmts() if s["rv"]["rv"] == "agg"),
              "the Break edge of lookup_route(..)? reaches no handler call and builds no handler task", (hb, te["switch_bb"]))


def r5_allow_reaches_the_wire(ctx):
    R = ctx.rule("C04.R5", "the Allow values collected on the 405 error reach the HTTP response: add_header appends (keeps earlier values of the same name) and "
                 "HttpError::into_response moves the error's HeaderMap into the response wholesale", floor=2)
    from .c13 import _headers_wholesale
    ah = ctx.need_fn(ctx.ds, R, r"^error::HttpError::add_header$")
    app = ah.live_calls(r"http::HeaderMap::<T>::(try_)?append$")
    ins = ah.live_calls(r"http::HeaderMap::<T>::(try_)?insert$")
    okv = False
    for bb, t in app:
        n, v = ah.slice(t["args"][1]), ah.slice(t["args"][2])
        okv = 2 in n.params() and 3 in v.params()
    ctx.check(R, "add_header-appends", bool(app) and not ins and okv,
              "add_header stores (name, value) parameters with HeaderMap::append=%s (insert would keep only the last Allow method: %s)" % (bool(app) and okv, bool(ins)), ah)
    ir = ctx.need_fn(ctx.ds, R, r"^error::HttpError::into_response$")
    w = _headers_wholesale(ir)
    ctx.check(R, "error-headers-moved-wholesale", w, "into_response transfers self.headers as a whole: %s (a per-element copy of an owned HeaderMap drops all but the first value of a repeated name such as Allow)" % w, ir)


RULES = [("C04.R5", r5_allow_reaches_the_wire), ("C04.R1", r1_decision), ("C04.R2", r2_allow_truthful), ("C04.R3", r3_allow_only_on_405), ("C04.R4", r4_no_handler)]

SELFTEST = [
    {"name": "prefix-f2", "kind": "mutant", "revert": "55289db", "expect": ["C04.R2"], "why": "Allow lists methods not served at the request's version (pre-fix code)"},
    {"name": "any-ignores-version", "kind": "mutant", "edits": [("dropshot/src/router.rs", "        if node.methods.values().any(|handlers| {\n            find_handler_matching_version(handlers, version).is_some()\n        }) {",
                                                              "        if node.methods.values().any(|handlers| {\n            find_handler_matching_version(handlers, None).is_some()\n        }) {")], "expect": ["C04.R1"],
     "why": "405 instead of 404 when the path exists only at other versions"},
    {"name": "no-allow-header", "kind": "mutant", "edits": [("dropshot/src/router.rs", "                    err.add_header(http::header::ALLOW, allowed)\n                        .expect(\"method should be a valid allow header\");", "                    let _ = allowed;")], "expect": ["C04.R2", "C04.R3"],
     "why": "405 without Allow"},
    {"name": "add_header-inserts", "kind": "mutant", "edits": [("dropshot/src/error.rs", "        self.headers_mut().try_append(name, value)?;\n        Ok(self)\n    }\n\n    /// Adds a header to the [`http::HeaderMap`] of headers to add to responses\n    /// generated from this error, taking the error by value.",
                                                              "        self.headers_mut().try_insert(name, value)?;\n        Ok(self)\n    }\n\n    /// Adds a header to the [`http::HeaderMap`] of headers to add to responses\n    /// generated from this error, taking the error by value.")], "expect": ["C04.R5"], "why": "only the last allowed method survives"},
    {"name": "named-bool", "kind": "benign", "edits": [("dropshot/src/router.rs", "        if node.methods.values().any(|handlers| {\n            find_handler_matching_version(handlers, version).is_some()\n        }) {",
                                                     "        let other_method_served = node.methods.values().any(|handlers| {\n            find_handler_matching_version(handlers, version).is_some()\n        });\n        if other_method_served {")], "why": "let-bound predicate"},
    {"name": "guard-as-match", "kind": "benign", "edits": [("dropshot/src/router.rs", "                if find_handler_matching_version(handlers, version).is_some() {\n                    err.add_header(http::header::ALLOW, allowed)\n                        .expect(\"method should be a valid allow header\");\n                }",
                                                         "                if find_handler_matching_version(handlers, version).is_none() {\n                    continue;\n                }\n                err.add_header(http::header::ALLOW, allowed)\n                    .expect(\"method should be a valid allow header\");")], "why": "negated guard with continue"},
]

LEVEL_TEXT += " Also (R5): add_header appends and HttpError::into_response moves the error's header map into the response as a whole, so every collected Allow value reaches the wire."
