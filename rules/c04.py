"""C04 — unmatched requests get 404 or 405 with a truthful Allow header."""
import re

from . import lib_c04 as L
from .lib import callee_allow, callers, const_int, result_split, status_const_of_ctor

LEVEL = "other"
TECHNIQUE = ("static analysis: role-based recognition of the version-filtered scan of node.methods on lookup_route's normalised MIR (helpers inlined, combinators desugared), "
             "path-sensitive guard facts (405 only when an emptiness test of that scan came out non-empty, Allow entries only elements of it), data-flow slices, who-calls census for handlers")
LEVEL_TEXT = ("Decides on all paths of lookup_route's MIR (normalised view: refactoring helpers inlined, Option/Result combinators as switches): the 405 constructor is reached only when a test of "
              "emptiness of the *served-names scan* came out non-empty — the scan being an iteration over the matched node's method table that keeps exactly the entries for which "
              "find_handler_matching_version(that entry's handlers, the request's version) is Some, in any of the enumerated spellings (any(..); first element / peek / count of a lazily "
              "filtered iterator; is_empty/len of the collected or pushed names; a flag set in the filtering loop) — and for_not_found (evaluated 404) is built when the same test came out empty "
              "and for the unmatched-path case; every Allow header value is an element of that scan (per-item guard in a loop, item of a for_each over the filtered iterator, element of the "
              "collection of served names) and Allow is added nowhere else; the per-method lookup, the scan and the Allow source read one node value; lookup_route calls no handler and its `?` "
              "in http_request_handle dominates both handler invocations. "
              "Together with C05's exact membership table this is the whole 404/405/Allow decision, for every table and version.")
LEVEL_NOTE = "Trusts rustc MIR, the extractor, the engine's helper inlining / combinator normalisation, BTreeMap::{get,values,iter}, Iterator::{any,filter,filter_map,map,next,count,collect,for_each} and HttpError::add_header's insertion semantics."
EXPLANATION = ("Rules over the normalised MIR of router::lookup_route and server::http_request_handle from the current tree: TABLE (an emptiness test of the version-filtered scan of node.methods "
               "-> 405 / 404 constructors with evaluated status constants), SAME-SOURCE (the filter closure's captured version is lookup_route's version parameter; the handler list it tests and "
               "the name it yields are parts of one iterator item; lookup, scan and Allow source read one node), DOM (path facts: the test's outcome is established on every path to the "
               "constructor; each Allow value is an element of the filtered scan), WHO-CALLS (ALLOW insertions, handle_request).")
TRUSTED = ["rustc nightly MIR + const evaluation", "mirfacts extractor", "rules/engine.py (incl. helper inlining and the combinator normalisation of ctx.dsn), rules/lib.py, rules/lib_c04.py",
           "std BTreeMap / Iterator adaptor semantics (any, filter, filter_map, map, next, peek, count, collect, for_each)", "C05 (ApiEndpointVersions::matches is exact)"]


def _lr(ctx, R):
    # the normalised view: helpers introduced by a refactoring are inlined, Option/Result combinators are switches
    return ctx.need_fn(ctx.dsn, R, r"^router::HttpRouter::<Context>::lookup_route$")


def _c405(lr):
    return [(bb, t) for bb, t in lr.live_calls(r"^error::HttpError::for_client_error") if any(const_int(a) == 405 for a in t["args"])]


def r1_decision(ctx):
    R = ctx.rule("C04.R1", "the 405 error is built only when some method at the matched node is served at the request's version — decided by a test of emptiness of the "
                 "version-filtered scan of node.methods (any(..), a first element of the lazily filtered iterator, a non-empty collection of the methods that passed the "
                 "filter, a flag set in the filtering loop); otherwise, and for an unmatched path, for_not_found (404) is built", floor=6)
    lr = _lr(ctx, R)
    vparam = L.version_param(lr)
    c405 = _c405(lr)
    ctx.check(R, "one-405-site", len(c405) == 1, "405 constructor sites in lookup_route: %d" % len(c405), lr)
    if len(c405) != 1:
        return
    bb405 = c405[0][0]
    nf = lr.live_calls(r"^error::HttpError::for_not_found$")
    chosen, idiom, detail = None, None, ""
    # role (b): an emptiness test of the served-names source (role a) came out "non-empty" on every path to the 405
    for T in L.decision_tests(lr, vparam):
        if not T.served(bb405):
            continue
        if T.ok:
            chosen, idiom = T, T.idiom
            detail = "405 is reached only when this test found a served method: " + T.why
            break
        detail = "a test guards the 405 but it does not decide `some method of the node is served at the request's version`: " + T.why
    # a flag set inside a loop over node.methods (`for h in values { if find(h, version).is_some() { found = true; break } }`):
    # every path to the 405 has itself established find(handlers-of-an-item, request version) as Some
    if chosen is None:
        okf, nexts, why = L.version_filtered_item(lr, bb405, vparam)
        if okf:
            idiom = "flag"
            detail = "405 is reached only on paths that found an item of node.methods with find_handler_matching_version(its handlers, request version) being Some"
    ctx.check(R, "405-only-if-some-method-served-at-version", idiom is not None,
              detail or "the 405 constructor is not guarded by a version-filtered scan of node.methods (facts on a path reaching it: %s)" % ((lr.bool_states_at(bb405) or ["unreachable"])[:1]), (lr, bb405))
    # the tail 404: reached when the deciding test failed
    tail = []
    if chosen is not None:
        tail = [bb for bb, t in nf if chosen.none_served(bb)]
    elif idiom == "flag":
        # the flag's false case cannot be expressed as a path fact; require the alternative: a for_not_found after the scan from which the 405 is unreachable
        tail = [bb for bb, t in nf if bb405 not in lr.reachable(bb) and any(lr.dominates(b2, bb) for b2, _ in lr.live_calls(L.FIND))]
    ctx.check(R, "404-when-no-method-served", len(tail) >= 1 and not any(bb405 in lr.reachable(b) for b in tail),
              "for_not_found sites reached exactly when the version-filtered scan found nothing: %d" % len(tail), lr)
    s404 = status_const_of_ctor(ctx.ds, "for_not_found")
    ctx.check(R, "for_not_found-is-404", s404 == {404}, "status constants in for_not_found: %s" % sorted(s404 or []), lr)
    # same node as the method lookup: every read of a `.methods` table after the walk — the per-method lookup, the 404/405 scan and
    # the Allow loop — goes through the SAME node value (adversary change C04-C let the success path use the wildcard's child and
    # the failure tail its parent)
    reads = L.methods_reads(lr)
    common = set.intersection(*reads.values()) if reads else set()
    kinds = sorted(k[1] for k in reads)
    has_lookup = any(k in ("get", "get_key_value", "contains_key") for k in kinds)
    has_scan = any(k in ("iter", "values", "keys", "into_iter") for k in kinds)
    ctx.check(R, "scan-is-over-the-matched-node", has_lookup and has_scan and bool(common),
              "reads of a `.methods` table in lookup_route (%s) include the per-method lookup and the scan, and all go through one node value: %s" % (kinds, bool(common)), lr)
    # unmatched path -> for_not_found, whatever the idiom (ok_or_else closure, match, let-else)
    walk_nf = [bb for bb, t in nf if bb not in tail]
    ctx.check(R, "unmatched-path-is-404", bool(walk_nf), "walk failure (no edge for the segment) builds for_not_found: %s" % bool(walk_nf), lr)
    after = lr.reachable(bb405)
    errs = [(b, st2) for b, i, st2 in lr.aggregates(r"^std::result::Result$", "Err") if st2["pl"]["l"] == 0 and not st2["pl"]["p"] and b in after]
    okr = bool(errs) and all(("call", c405[0][1]["callee"], bb405) in lr.slice(st2["rv"]["ops"][0]).atoms for b, st2 in errs)
    ctx.check(R, "405-arm-returns-the-405-error", okr, "every Err(..) returned after the 405 constructor carries that error: %s (%d sites)" % (okr, len(errs)), (lr, bb405))


def _allow_adds(ctx):
    adds = []
    for f, bb, t in callers(ctx.dsn, r"^error::HttpError::add_header$"):
        sl = f.slice(t["args"][1])
        if sl.has_const_path(r"header::ALLOW$") or any(a[0] == "const" and "ALLOW" in a[1] for a in sl.atoms):
            adds.append((f, bb, t))
    return adds


def r2_allow_truthful(ctx):
    R = ctx.rule("C04.R2", "every add_header(ALLOW, m) adds a method m of node.methods whose own handler list is served at the request's version "
                 "(guarded per item, or m is an element of the version-filtered iterator / of the collection of methods that passed that filter)", floor=2)
    lr = _lr(ctx, R)
    vparam = L.version_param(lr)
    adds = _allow_adds(ctx)
    if not adds:
        ctx.check(R, "allow-header-present", False, "no add_header(ALLOW, ..) site found: a 405 would carry no Allow header", lr)
        return
    kids = ctx.dsn.children(lr)
    for f, bb, t in adds:
        good, from_node, detail = False, False, ""
        if f is lr:
            # (1) a loop over node.methods with a per-item guard
            ms = lr.slice(t["args"][2], stop_at_calls=L.NEXT)
            nx = ms.calls(L.NEXT)
            nexts = set(b for _, b, _ in nx)
            clean = not callee_allow(ms, L.VALUE_PLUMBING + [L.NEXT]) and not any(a[0] in ("lit", "const") for a in ms.atoms)
            ok, gnexts, why = L.version_filtered_item(lr, bb, vparam, want=nexts)
            good = ok and gnexts == nexts and clean
            detail = why + ("; the Allow value is the key of that same item" if good else "")
            from_node = good
            # (2) an element of the served-names source / of the collection of served names
            if not good and nx:
                kinds = [L.element_origin(lr, nt["args"][0], vparam) for _, _, nt in nx]
                from_node = all(k != "other" for k, rec in kinds)
                if all(k == "served" for k, rec in kinds):
                    good = clean and all(rec["ok"] for k, rec in kinds)
                    detail = "the Allow value is an element of: " + "; ".join(rec["why"] for k, rec in kinds)
                    if not clean:
                        detail = "the Allow value is computed from, not taken from, the served method names"
        elif f in kids:
            # the body of a `for_each` over the served names
            sites = L.closure_sites(lr, f)
            item = L._from_item_only(f, t["args"][2])
            recs = []
            for sbb, st, agg in sites:
                if not re.search(r"iter::Iterator::(for_each|try_for_each)$", st["callee"]):
                    recs.append(("other", {"ok": False, "why": "the closure adding Allow is passed to %s" % st["callee"]}))
                else:
                    recs.append(L.element_origin(lr, st["args"][0], vparam))
            from_node = bool(recs) and all(k != "other" for k, rec in recs)
            if recs and all(k == "served" for k, rec in recs):
                good = item and all(rec["ok"] for k, rec in recs)
                detail = "the Allow value is the item of a for_each over: " + "; ".join(rec["why"] for k, rec in recs)
                if not item:
                    detail = "the Allow value is not the for_each item itself"
            else:
                detail = "the closure adding Allow is not the body of a for_each over the methods served at the request's version (it runs over: %s)" % \
                         ("; ".join(rec["why"] if k == "other" else ("the unfiltered method table" if k == "table" else "the served methods") for k, rec in recs) or "nothing")
        else:
            ctx.check(R, "allow-site:%s" % f.id, False, "Allow header added outside lookup_route", (f, bb))
            continue
        ctx.check(R, "allow-entry-is-a-method-served-at-the-version", good, detail or "the Allow value is not drawn from the methods served at the request's version", (f, bb))
        ctx.check(R, "allow-derives-from-matched-node", good or from_node, "Allow values come from the method table of the `node` reached by the walk", (f, bb))


def r3_allow_only_on_405(ctx):
    R = ctx.rule("C04.R3", "an Allow header is added in the 405 arm of lookup_route and nowhere else in the crate", floor=1)
    lr = _lr(ctx, R)
    c405 = _c405(lr)
    kids = ctx.dsn.children(lr)
    n = 0
    for f in ctx.dsn.F.values():
        if f.id.startswith(("test_util", "logging")):
            continue
        for bb in f.const_uses(r"header::ALLOW$"):
            n += 1
            ok = on_err = False
            if f is lr:
                ok = len(c405) == 1 and lr.dominates(c405[0][0], bb)
                # the constant flows into an add_header on the 405 error
                for abb, at in lr.live_calls(r"^error::HttpError::add_header$"):
                    if lr.slice(at["args"][1]).has_const_path(r"header::ALLOW$") and lr.slice(at["args"][0]).has_call(r"for_client_error"):
                        on_err = True
            elif f in kids:
                # a closure of lookup_route (the body of a for_each): every place that runs it is in the 405 arm, and the
                # error it adds to is the captured 405 error
                sites = L.closure_sites(lr, f)
                ok = len(c405) == 1 and bool(sites) and all(lr.dominates(c405[0][0], sbb) for sbb, st, agg in sites)
                for abb, at in f.live_calls(r"^error::HttpError::add_header$"):
                    if f.slice(at["args"][1]).has_const_path(r"header::ALLOW$"):
                        on_err = bool(sites)
                        for sbb, st, agg in sites:
                            ups = L.upvar_operands(f, agg, at["args"][0])
                            if not ups or not all(lr.slice(u).has_call(r"for_client_error") for u in ups):
                                on_err = False
            ctx.check(R, "allow-use:%s" % f.id, ok and on_err,
                      "use of header::ALLOW %s dominated by the 405 constructor; it is added to the 405 error=%s" % ("is" if ok else "is NOT", on_err), (f, bb))
    if n == 0:
        ctx.check(R, "allow-header-present", False, "header::ALLOW is not used anywhere: a 405 would carry no Allow header", lr)


def r4_no_handler(ctx):
    R = ctx.rule("C04.R4", "lookup_route invokes no handler; in http_request_handle the `?` on its result dominates both handle_request calls", floor=3)
    lr = _lr(ctx, R)
    reg = ctx.dsn.region([lr.id])
    bad = []
    for fid in reg:
        for bb, t in ctx.dsn.F[fid].live_calls(r"RouteHandler::handle_request$|HttpHandlerFunc::handle_request$"):
            bad.append((fid, bb))
    ctx.check(R, "lookup-calls-no-handler", not bad, "handle_request calls reachable from lookup_route (%d functions): %s" % (len(reg), bad), lr)
    top = ctx.need_fn(ctx.dsn, R, r"^server::http_request_handle$")
    hb = ctx.dsn.body_of(top)
    look = hb.live_calls(r"HttpRouter::<Context>::lookup_route$")
    if len(look) != 1:
        ctx.lost(R, "the single lookup_route call in http_request_handle")
        return
    lbb, lt = look[0]
    sp = result_split(hb, lt["dest"]["l"])
    if not sp:
        ctx.lost(R, "the Ok/Err split (`?`, match, let-else) of lookup_route's result")
        return
    te = {"switch_bb": sp["switch_bb"], "cont": sp["ok"], "brk": sp["err"]}
    hs = []
    for g in [hb] + ctx.dsn.descendants(hb):
        for bb, t in g.live_calls(r"RouteHandler::handle_request$"):
            hs.append((g, bb))
    for g, bb in hs:
        if g is hb:
            ok = hb.edge_dominates(te["switch_bb"], te["cont"], bb)
        else:
            # handler call inside a spawned coroutine: the coroutine aggregate site must be dominated
            site = None
            cur = g
            while cur is not hb and cur.raw.get("parent") in ctx.dsn.F:
                par = ctx.dsn.F[cur.raw["parent"]]
                for b2, i2, s2 in par.stmts():
                    if s2["rv"]["rv"] == "agg" and s2["rv"].get("def") == cur.raw["id"]:
                        site = (par, b2)
                cur = par
            ok = site is not None and site[0] is hb and hb.edge_dominates(te["switch_bb"], te["cont"], site[1])
        ctx.check(R, "lookup-ok-dominates-handler:%s" % g.id.split("::")[-1], ok, "handle_request %s dominated by the Continue edge of lookup_route(..)?" % ("is" if ok else "is NOT"), (g, bb))
    ctx.check(R, "two-handler-sites", len(hs) == 2, "handle_request call sites under http_request_handle: %d" % len(hs), hb)
    reach = hb.reachable(te["brk"])
    ctx.check(R, "lookup-error-runs-no-handler", not any(g is hb and bb in reach for g, bb in hs) and
              not any(s["rv"].get("agg") == "coroutine" and b in reach for b, i, s in hb.stmts() if s["rv"]["rv"] == "agg"),
              "the Break edge of lookup_route(..)? reaches no handler call and builds no handler task", (hb, te["switch_bb"]))


def r5_allow_reaches_the_wire(ctx):
    R = ctx.rule("C04.R5", "the Allow values collected on the 405 error reach the HTTP response: add_header appends (keeps earlier values of the same name) and "
                 "HttpError::into_response moves the error's HeaderMap into the response wholesale", floor=2)
    from .c13 import _headers_wholesale
    ah = ctx.need_fn(ctx.ds, R, r"^error::HttpError::add_header$")
    app = ah.live_calls(r"http::HeaderMap::<T>::(try_)?append$")
    ins = ah.live_calls(r"http::HeaderMap::<T>::(try_)?insert$")
    okv = False
    for bb, t in app:
        n, v = ah.slice(t["args"][1]), ah.slice(t["args"][2])
        okv = 2 in n.params() and 3 in v.params()
    ctx.check(R, "add_header-appends", bool(app) and not ins and okv,
              "add_header stores (name, value) parameters with HeaderMap::append=%s (insert would keep only the last Allow method: %s)" % (bool(app) and okv, bool(ins)), ah)
    ir = ctx.need_fn(ctx.ds, R, r"^error::HttpError::into_response$")
    w = _headers_wholesale(ir)
    ctx.check(R, "error-headers-moved-wholesale", w, "into_response transfers self.headers as a whole: %s (a per-element copy of an owned HeaderMap drops all but the first value of a repeated name such as Allow)" % w, ir)


RULES = [("C04.R5", r5_allow_reaches_the_wire), ("C04.R1", r1_decision), ("C04.R2", r2_allow_truthful), ("C04.R3", r3_allow_only_on_405), ("C04.R4", r4_no_handler)]

_ANY = "        if node.methods.values().any(|handlers| {\n            find_handler_matching_version(handlers, version).is_some()\n        }) {"
_LOOP = "            for (allowed, handlers) in node.methods.iter() {\n                // Only list methods that are actually served at this version.\n                if find_handler_matching_version(handlers, version).is_some() {\n                    err.add_header(http::header::ALLOW, allowed)\n                        .expect(\"method should be a valid allow header\");\n                }\n            }"

SELFTEST = [
    {"name": "prefix-f2", "kind": "mutant", "revert": "55289db", "expect": ["C04.R2"], "why": "Allow lists methods not served at the request's version (pre-fix code)"},
    {"name": "any-ignores-version", "kind": "mutant", "edits": [("dropshot/src/router.rs", "        if node.methods.values().any(|handlers| {\n            find_handler_matching_version(handlers, version).is_some()\n        }) {",
                                                              "        if node.methods.values().any(|handlers| {\n            find_handler_matching_version(handlers, None).is_some()\n        }) {")], "expect": ["C04.R1"],
     "why": "405 instead of 404 when the path exists only at other versions"},
    {"name": "no-allow-header", "kind": "mutant", "edits": [("dropshot/src/router.rs", "                    err.add_header(http::header::ALLOW, allowed)\n                        .expect(\"method should be a valid allow header\");", "                    let _ = allowed;")], "expect": ["C04.R2", "C04.R3"],
     "why": "405 without Allow"},
    {"name": "add_header-inserts", "kind": "mutant", "edits": [("dropshot/src/error.rs", "        self.headers_mut().try_append(name, value)?;\n        Ok(self)\n    }\n\n    /// Adds a header to the [`http::HeaderMap`] of headers to add to responses\n    /// generated from this error, taking the error by value.",
                                                              "        self.headers_mut().try_insert(name, value)?;\n        Ok(self)\n    }\n\n    /// Adds a header to the [`http::HeaderMap`] of headers to add to responses\n    /// generated from this error, taking the error by value.")], "expect": ["C04.R5"], "why": "only the last allowed method survives"},
    {"name": "named-bool", "kind": "benign", "edits": [("dropshot/src/router.rs", "        if node.methods.values().any(|handlers| {\n            find_handler_matching_version(handlers, version).is_some()\n        }) {",
                                                     "        let other_method_served = node.methods.values().any(|handlers| {\n            find_handler_matching_version(handlers, version).is_some()\n        });\n        if other_method_served {")], "why": "let-bound predicate"},
    {"name": "guard-as-match", "kind": "benign", "edits": [("dropshot/src/router.rs", "                if find_handler_matching_version(handlers, version).is_some() {\n                    err.add_header(http::header::ALLOW, allowed)\n                        .expect(\"method should be a valid allow header\");\n                }",
                                                         "                if find_handler_matching_version(handlers, version).is_none() {\n                    continue;\n                }\n                err.add_header(http::header::ALLOW, allowed)\n                    .expect(\"method should be a valid allow header\");")], "why": "negated guard with continue"},
    {"name": "lazy-filter-first-element", "kind": "benign", "edits": [
        ("dropshot/src/router.rs", _ANY, "        if node.methods.iter().filter_map(|(name, handlers)| find_handler_matching_version(handlers, version).map(|_| name)).next().is_some() {"),
        ("dropshot/src/router.rs", _LOOP, "            node.methods.iter().filter_map(|(name, handlers)| find_handler_matching_version(handlers, version).map(|_| name)).for_each(|allowed| {\n"
                                          "                err.add_header(http::header::ALLOW, allowed).expect(\"method should be a valid allow header\");\n            });")],
     "why": "the served names as a lazily filtered iterator: first element decides 404/405, a re-created iterator feeds a for_each adding Allow"},
    {"name": "collect-then-test", "kind": "benign", "edits": [
        ("dropshot/src/router.rs", _ANY, "        let served: Vec<&String> = node.methods.iter().filter(|(_, handlers)| find_handler_matching_version(handlers.as_slice(), version).is_some()).map(|(name, _)| name).collect();\n"
                                         "        if served.len() > 0 {"),
        ("dropshot/src/router.rs", _LOOP, "            for allowed in served {\n                err.add_header(http::header::ALLOW, allowed).expect(\"method should be a valid allow header\");\n            }")],
     "why": "filter + map collected into a Vec, len() > 0 decides, the Vec feeds the Allow loop"},
    {"name": "question-mark-filter", "kind": "benign", "edits": [
        ("dropshot/src/router.rs", _ANY, "        if node.methods.iter().filter_map(|(name, handlers)| { find_handler_matching_version(handlers, version)?; Some(name) }).count() != 0 {")],
     "why": "`?` inside the filter_map callback, count() != 0 decides"},
    {"name": "lazy-filter-allow-ignores-version", "kind": "mutant", "expect": ["C04.R2"], "edits": [
        ("dropshot/src/router.rs", _ANY, "        if node.methods.iter().filter_map(|(name, handlers)| find_handler_matching_version(handlers, version).map(|_| name)).next().is_some() {"),
        ("dropshot/src/router.rs", _LOOP, "            node.methods.iter().filter_map(|(name, handlers)| find_handler_matching_version(handlers, None).map(|_| name)).for_each(|allowed| {\n"
                                          "                err.add_header(http::header::ALLOW, allowed).expect(\"method should be a valid allow header\");\n            });")],
     "why": "the iterator feeding Allow filters by `None` instead of the request's version"},
    {"name": "lazy-filter-inverted-decision", "kind": "mutant", "expect": ["C04.R1"], "edits": [
        ("dropshot/src/router.rs", _ANY, "        if node.methods.iter().filter_map(|(name, handlers)| find_handler_matching_version(handlers, version).map(|_| name)).next().is_none() {")],
     "why": "405 when nothing is served at the version, 404 when something is"},
]

LEVEL_TEXT += " Also (R5): add_header appends and HttpError::into_response moves the error's header map into the response as a whole, so every collected Allow value reaches the wire."
