"""C04 — unmatched requests get 404 or 405 with a truthful Allow header."""
from .lib import (PLUMBING, borrow_root, callee_allow, callers, closure_args_of_call, const_int, element_sources, operand_local, option_some_edges, result_split, status_const_of_ctor, switches_on_value, try_edges)

LEVEL = "other"
TECHNIQUE = "static analysis: path-sensitive guard facts on lookup_route's MIR (405 only under the version-filtered scan, Allow entries only for items that passed it), data-flow slices, who-calls census for handlers"
LEVEL_TEXT = ("Decides on all paths of lookup_route's MIR: the 405 arm is taken exactly on the true edge of `any(handlers at this node, find_handler_matching_version(h, request version))`, "
              "the other edge and the unmatched-path case build for_not_found (evaluated 404); every Allow header insertion is dominated by the same predicate applied to that method's own "
              "handler list and the request's version, and Allow is added nowhere else; lookup_route calls no handler and its `?` in http_request_handle dominates both handler invocations. "
              "Together with C05's exact membership table this is the whole 404/405/Allow decision, for every table and version.")
LEVEL_NOTE = "Trusts rustc MIR, the extractor, BTreeMap::{get,values,iter}, Iterator::any and HttpError::add_header's insertion semantics."
EXPLANATION = ("Rules over the MIR of router::lookup_route and server::http_request_handle from the current tree: TABLE (bool switch on Iterator::any -> 405 / 404 constructors with "
               "evaluated status constants), SAME-SOURCE (closure's captured version is lookup_route's version parameter; Allow's method name and the filtered handler list are the two "
               "components of one iterator item), DOM (edge dominance of add_header by is_some(find_handler_matching_version(..)) true edge), WHO-CALLS (ALLOW insertions, handle_request).")
TRUSTED = ["rustc nightly MIR + const evaluation", "mirfacts extractor", "rules/engine.py", "std BTreeMap/Iterator::any semantics", "C05 (ApiEndpointVersions::matches is exact)"]


def _lr(ctx, R):
    return ctx.need_fn(ctx.ds, R, r"^router::HttpRouter::<Context>::lookup_route$")


def _version_param(lr):
    v = [p["l"] for p in lr.names.get("version", []) if not p["p"]]
    return v[0] if v else 4


def _is_version_guard(ctx, f, call_t, version_locals_ok):
    """call_t is a find_handler_matching_version call in f: is arg1 the request's version?"""
    sl = f.slice(call_t["args"][1])
    return sl, (not callee_allow(sl, PLUMBING))


def _is_request_version(lr, g, op, vparam, node=None):
    """operand `op` in g (lookup_route itself or a closure inside it) is lookup_route's `version` parameter, unmodified."""
    sl = g.slice(op)
    if callee_allow(sl, PLUMBING) or any(a[0] in ("lit", "binop", "agg") for a in sl.atoms):
        return False
    if g is lr:
        return sl.params() == [vparam]
    # closure: the value must be a captured upvar that the parent filled from the version parameter
    if node is None:
        return False
    idxs = set()
    for pf in sl.param_fields():
        if pf[0] != 1:
            return False
        for e in pf[1]:
            if e.startswith("f"):
                idxs.add(int(e[1:].split(":")[0]))
                break
    if not idxs:
        return False
    for k in idxs:
        if k >= len(node["rv"]["ops"]):
            return False
        ps = lr.slice(node["rv"]["ops"][k])
        if ps.params() != [vparam] or callee_allow(ps, PLUMBING):
            return False
    return True


def _some_established_at(lr, site):
    """Option operands known to be Some on every path to `site` (is_some()/!is_none()/if let Some, in any spelling)."""
    out = []
    for sbb, tgt, optop in option_some_edges(lr):
        if tgt is not None and lr.edge_dominates(sbb, tgt, site):
            out.append(optop)
    states = lr.bool_states_at(site)
    if states:
        for bb, t in lr.live_calls(r"Option::<T>::is_some$|Option::<T>::is_none$"):
            want = t["callee"].endswith("is_some")
            if all(fs.get(("call", bb)) is want for fs in states):
                out.append(t["args"][0])
    return out


def _version_filtered_item(lr, site, vparam):
    """Is `site` reached only for an item (key, handlers) of node.methods whose handlers are served at the request's
    version?  Returns (ok, iterator-next blocks of that item, detail)."""
    detail = "no `find_handler_matching_version(handlers, version)` result is known to be Some at this point"
    for optop in _some_established_at(lr, site):
        gs = lr.slice(optop)
        for c, hb, ht in gs.calls(r"^router::find_handler_matching_version$"):
            hs0 = lr.slice(ht["args"][0], stop_at_calls=r"iter::Iterator::next$")
            nexts = set(b for _, b, _ in hs0.calls(r"iter::Iterator::next$"))
            hs = lr.slice(ht["args"][0])
            ver_ok = _is_request_version(lr, lr, ht["args"][1], vparam)
            iter_ok = hs.reads_field("methods") and bool(hs.locals() & set(lr.local_by_name("node"))) and not callee_allow(hs0, PLUMBING + [r"iter::Iterator::next$"])
            if ver_ok and iter_ok and nexts:
                return True, nexts, "guarded by find_handler_matching_version(handlers of this item, request version) being Some"
            detail = "a version guard exists but: version is the request's=%s, handlers come from node.methods=%s" % (ver_ok, iter_ok)
    return False, set(), detail


def _served_collection(lr, vec_local, vparam):
    """`vec_local` is a collection built empty and filled only by pushes of keys of node.methods items that passed the
    version filter (idiom: collect the served methods, then test emptiness / iterate).  Returns (ok, detail)."""
    defs = lr.defs().get(vec_local, [])
    init = [n for b, k, n in defs if k == "call" and re.search(r"Vec::<T>::new$|Vec::<T>::with_capacity$|VecDeque::<T>::new$|BTreeSet::<T>::new$", n.get("callee") or "")]
    if len(defs) != 1 or len(init) != 1:
        return False, "the collection is not a fresh empty Vec (%d definitions)" % len(defs)
    writes = []
    for bb, t in lr.live_calls():
        if not t["args"]:
            continue
        if len(t["args"]) >= 2 and re.search(r"::(push|push_back|insert|extend|append|extend_from_slice|push_str)$", t["callee"]) and borrow_root(lr, t["args"][0]) == vec_local:
            writes.append((bb, t))
    if not writes:
        return False, "nothing is ever pushed"
    for bb, t in writes:
        if not re.search(r"::(push|push_back|insert)$", t["callee"]):
            return False, "written by %s" % t["callee"]
        ok, nexts, why = _version_filtered_item(lr, bb, vparam)
        vs = lr.slice(t["args"][1], stop_at_calls=r"iter::Iterator::next$")
        same = ok and set(b for _, b, _ in vs.calls(r"iter::Iterator::next$")) == nexts and not callee_allow(vs, PLUMBING + [r"iter::Iterator::next$"])
        if not same:
            return False, "a push is not guarded by the version filter on its own item (%s)" % why
    return True, "every push stores the key of an item of node.methods whose handlers are served at the request's version"


import re


def r1_decision(ctx):
    R = ctx.rule("C04.R1", "the 405 error is built only when some method at the matched node is served at the request's version (any(..) over node.methods with the "
                 "version-filtered predicate, or a non-empty collection of the methods that passed it); otherwise, and for an unmatched path, for_not_found (404) is built", floor=6)
    lr = _lr(ctx, R)
    vparam = _version_param(lr)
    c405 = [(bb, t) for bb, t in lr.live_calls(r"^error::HttpError::for_client_error") if any(const_int(a) == 405 for a in t["args"])]
    ctx.check(R, "one-405-site", len(c405) == 1, "405 constructor sites in lookup_route: %d" % len(c405), lr)
    if len(c405) != 1:
        return
    bb405 = c405[0][0]
    nf = lr.live_calls(r"^error::HttpError::for_not_found$")
    states405 = lr.bool_states_at(bb405) or []
    idiom = None
    detail = ""
    deciding = None
    # idiom A: any(values(node.methods), |h| find(h, version).is_some())
    for abb, at in lr.live_calls(r"iter::Iterator::any$"):
        if not states405 or not all(fs.get(("call", abb)) is True for fs in states405):
            continue
        cls = closure_args_of_call(lr, at)
        okc = False
        for h, node in cls:
            fh = h.live_calls(r"^router::find_handler_matching_version$")
            if len(fh) != 1:
                continue
            hb, ht = fh[0]
            s_h = h.slice(ht["args"][0])
            ret = h.slice({"l": 0, "p": []})
            pos = (ret.has_call(r"Option::<T>::is_some$") and ("unop", "Not") not in ret.atoms) or (ret.has_call(r"Option::<T>::is_none$") and ("unop", "Not") in ret.atoms)
            okc = s_h.params() == [2] and not callee_allow(s_h, PLUMBING) and _is_request_version(lr, h, ht["args"][1], vparam, node) and pos and ret.has_call(r"find_handler_matching_version$")
        rs = lr.slice(at["args"][0])
        scans = rs.reads_field("methods") and bool(rs.locals() & set(lr.local_by_name("node")))
        if okc and scans:
            idiom, deciding = "any", ("call", abb)
            detail = "405 is reached only when any(values(node.methods), |h| find_handler_matching_version(h, request version).is_some()) was true"
        else:
            detail = "an any() guards the 405 but its predicate is not the version filter over node.methods (predicate ok=%s, scans node.methods=%s)" % (okc, scans)
    # idiom B: a collection of the served methods is non-empty
    if idiom is None:
        for ebb, et in lr.live_calls(r"::is_empty$"):
            if not states405 or not all(fs.get(("call", ebb)) is False for fs in states405):
                continue
            vs = lr.slice(et["args"][0])
            cands = [l for l in vs.locals() if any(k == "call" and re.search(r"Vec::<T>::new$|Vec::<T>::with_capacity$", n.get("callee") or "") for b, k, n in lr.defs().get(l, []))]
            for v in cands:
                ok, why = _served_collection(lr, v, vparam)
                detail = "405 is reached only when a collection is non-empty; %s" % why
                if ok:
                    idiom, deciding = "collected", ("call", ebb)
    # idiom C: a flag set inside a loop over node.methods (`for h in values { if find(h, version).is_some() { found = true; break } }`):
    # every path to the 405 has itself established find(handlers-of-an-item, request version) as Some
    if idiom is None and states405:
        for bb, t in lr.live_calls(r"Option::<T>::is_some$|Option::<T>::is_none$"):
            want = t["callee"].endswith("is_some")
            if not all(fs.get(("call", bb)) is want for fs in states405):
                continue
            gs = lr.slice(t["args"][0])
            for c, hb, ht in gs.calls(r"^router::find_handler_matching_version$"):
                hs0 = lr.slice(ht["args"][0], stop_at_calls=r"iter::Iterator::next$")
                hs = lr.slice(ht["args"][0])
                if _is_request_version(lr, lr, ht["args"][1], vparam) and hs.reads_field("methods") and bool(hs.locals() & set(lr.local_by_name("node"))) \
                        and hs0.calls(r"iter::Iterator::next$") and not callee_allow(hs0, PLUMBING + [r"iter::Iterator::next$"]):
                    idiom, deciding = "flag", None
                    detail = "405 is reached only on paths that found an item of node.methods with find_handler_matching_version(its handlers, request version) being Some"
    ctx.check(R, "405-only-if-some-method-served-at-version", idiom is not None,
              detail or "the 405 constructor is not guarded by a version-filtered scan of node.methods (facts on a path reaching it: %s)" % (states405[:1] or "unreachable"), (lr, bb405))
    # the tail 404: reached when the deciding test failed
    tail = []
    for bb, t in nf:
        st = lr.bool_states_at(bb) or []
        if deciding and st and all((fs.get(deciding) is (False if idiom == "any" else True)) for fs in st):
            tail.append(bb)
    if idiom == "flag":
        # the flag's false case cannot be expressed as a path fact; require the alternative: a for_not_found after the scan from which the 405 is unreachable
        tail = [bb for bb, t in nf if bb405 not in lr.reachable(bb) and any(lr.dominates(b2, bb) for b2, _ in lr.live_calls(r"^router::find_handler_matching_version$"))]
    ctx.check(R, "404-when-no-method-served", len(tail) >= 1 and (deciding is None or not any(bb405 in lr.reachable(b) for b in tail)),
              "for_not_found sites reached exactly when the version-filtered scan found nothing: %d" % len(tail), lr)
    s404 = status_const_of_ctor(ctx.ds, "for_not_found")
    ctx.check(R, "for_not_found-is-404", s404 == {404}, "status constants in for_not_found: %s" % sorted(s404 or []), lr)
    # same node as the method lookup
    # every read of a `.methods` table after the walk — the per-method lookup, the 404/405 scan and the Allow loop — goes through
    # the SAME node value (adversary change C04-C let the success path use the wildcard's child and the failure tail its parent)
    import json as _json
    bases = {}
    for bb, t in lr.live_calls(r"BTreeMap::<K, V, A>::(get|values|iter|keys|len|contains_key)$|iter::IntoIterator::into_iter$"):
        if not t["args"]:
            continue
        sl0 = lr.slice(t["args"][0], stop_at_calls=r".")
        roots = set()
        for pj in sl0.places:
            pl = _json.loads(pj)
            if any(isinstance(e, dict) and e.get("n") == "methods" for e in pl["p"]):
                roots.add(pl["l"])
        if roots:
            bases[(bb, t["callee"].split("::")[-1])] = roots

    def canon(l, hops=6):
        # follow plain copies / reborrows back to the originating local
        for _ in range(hops):
            ds = lr.defs().get(l, [])
            if len(ds) != 1 or ds[0][1] != "assign":
                return l
            rv = ds[0][2]["rv"]
            if rv["rv"] == "use" and rv["op"].get("k") in ("copy", "move") and not rv["op"]["pl"]["p"]:
                l = rv["op"]["pl"]["l"]
            elif rv["rv"] == "ref" and rv["pl"]["p"] == ["*"]:
                l = rv["pl"]["l"]
            else:
                return l
        return l
    canon_sets = {k: set(canon(l) for l in v) for k, v in bases.items()}
    common = set.intersection(*canon_sets.values()) if canon_sets else set()
    ctx.check(R, "scan-is-over-the-matched-node", len(canon_sets) >= 3 and bool(common),
              "reads of a `.methods` table in lookup_route (%s) all go through one node value: %s" % (sorted(k[1] for k in canon_sets), bool(common)), lr)
    # unmatched path -> for_not_found, whatever the idiom (ok_or_else closure, match, let-else)
    ok2 = False
    walk_nf = [bb for bb, t in nf if bb not in tail]
    for obb, ot in lr.live_calls(r"Option::<T>::ok_or_else$|Option::<T>::ok_or$"):
        for h, node in closure_args_of_call(lr, ot):
            if h.slice({"l": 0, "p": []}).has_call(r"^error::HttpError::for_not_found$"):
                ok2 = True
    if walk_nf:
        ok2 = True
    ctx.check(R, "unmatched-path-is-404", ok2, "walk failure (no edge for the segment) builds for_not_found: %s" % ok2, lr)
    errs = [(b, st2) for b, i, st2 in lr.aggregates(r"^std::result::Result$", "Err") if st2["pl"]["l"] == 0 and lr.dominates(bb405, b)]
    okr = any(lr.slice(st2["rv"]["ops"][0]).has_call(r"for_client_error") for b, st2 in errs)
    ctx.check(R, "405-arm-returns-the-405-error", okr, "Err(..) after the 405 constructor is that error: %s" % okr, (lr, bb405))


def r2_allow_truthful(ctx):
    R = ctx.rule("C04.R2", "every add_header(ALLOW, m) adds a method m of node.methods whose own handler list is served at the request's version "
                 "(guarded per item, or m drawn from the collection of methods that passed that filter)", floor=2)
    lr = _lr(ctx, R)
    vparam = _version_param(lr)
    adds = []
    for f, bb, t in callers(ctx.ds, r"^error::HttpError::add_header$"):
        sl = f.slice(t["args"][1])
        if sl.has_const_path(r"header::ALLOW$") or any(a[0] == "const" and "ALLOW" in a[1] for a in sl.atoms):
            adds.append((f, bb, t))
    if not adds:
        ctx.check(R, "allow-header-present", False, "no add_header(ALLOW, ..) site found: a 405 would carry no Allow header", lr)
        return
    for f, bb, t in adds:
        if f is not lr:
            ctx.check(R, "allow-site:%s" % f.id, False, "Allow header added outside lookup_route", (f, bb))
            continue
        ms = lr.slice(t["args"][2], stop_at_calls=r"iter::Iterator::next$")
        nexts = set(b for _, b, _ in ms.calls(r"iter::Iterator::next$"))
        ok, gnexts, why = _version_filtered_item(lr, bb, vparam)
        good = ok and gnexts == nexts and not callee_allow(ms, PLUMBING + [r"iter::Iterator::next$"])
        detail = why + ("; the Allow value is the key of that same item" if good else "")
        if not good:
            # idiom B: the value is an element of the served collection
            for g, it_op, how in element_sources(ctx.ds, lr, t["args"][2]):
                its = lr.slice(it_op)
                for v in its.locals():
                    if any(k == "call" and re.search(r"Vec::<T>::new$|Vec::<T>::with_capacity$", n.get("callee") or "") for b, k, n in lr.defs().get(v, [])):
                        okc, whyc = _served_collection(lr, v, vparam)
                        if okc and not callee_allow(ms, PLUMBING + [r"iter::Iterator::next$"]):
                            good = True
                            detail = "the Allow value is an element of the collection of served methods (%s)" % whyc
                        else:
                            detail = whyc
        ctx.check(R, "allow-entry-is-a-method-served-at-the-version", good, detail, (lr, bb))
        node_locals = set(lr.local_by_name("node"))
        ctx.check(R, "allow-derives-from-matched-node", good or bool(lr.slice(t["args"][2]).locals() & node_locals), "Allow values come from the `node` reached by the walk", (lr, bb))


def r3_allow_only_on_405(ctx):
    R = ctx.rule("C04.R3", "an Allow header is added in the 405 arm of lookup_route and nowhere else in the crate", floor=1)
    lr = _lr(ctx, R)
    c405 = [(bb, t) for bb, t in lr.live_calls(r"^error::HttpError::for_client_error") if any(const_int(a) == 405 for a in t["args"])]
    n = 0
    adds = [(bb, t) for bb, t in lr.live_calls(r"^error::HttpError::add_header$")]
    for f in ctx.ds.F.values():
        if f.id.startswith(("test_util", "logging")):
            continue
        for bb in f.const_uses(r"header::ALLOW$"):
            n += 1
            ok = f is lr and len(c405) == 1 and lr.dominates(c405[0][0], bb)
            # the constant flows into an add_header on the 405 error
            on_err = False
            if f is lr:
                for abb, at in adds:
                    if lr.slice(at["args"][1]).has_const_path(r"header::ALLOW$") and lr.slice(at["args"][0]).has_call(r"for_client_error"):
                        on_err = True
            ctx.check(R, "allow-use:%s" % f.id, ok and on_err,
                      "use of header::ALLOW %s dominated by the 405 constructor; it is added to the 405 error=%s" % ("is" if ok else "is NOT", on_err), (f, bb))
    if n == 0:
        ctx.check(R, "allow-header-present", False, "header::ALLOW is not used anywhere: a 405 would carry no Allow header", lr)


def r4_no_handler(ctx):
    R = ctx.rule("C04.R4", "lookup_route invokes no handler; in http_request_handle the `?` on its result dominates both handle_request calls", floor=3)
    lr = _lr(ctx, R)
    reg = ctx.dsn.region([lr.id])
    bad = []
    for fid in reg:
        for bb, t in ctx.dsn.F[fid].live_calls(r"RouteHandler::handle_request$|HttpHandlerFunc::handle_request$"):
            bad.append((fid, bb))
    ctx.check(R, "lookup-calls-no-handler", not bad, "handle_request calls reachable from lookup_route (%d functions): %s" % (len(reg), bad), lr)
    top = ctx.need_fn(ctx.dsn, R, r"^server::http_request_handle$")
    hb = ctx.dsn.body_of(top)
    look = hb.live_calls(r"HttpRouter::<Context>::lookup_route$")
    if len(look) != 1:
        ctx.lost(R, "the single lookup_route call in http_request_handle")
        return
    lbb, lt = look[0]
    sp = result_split(hb, lt["dest"]["l"])
    if not sp:
        ctx.lost(R, "the Ok/Err split (`?`, match, let-else) of lookup_route's result")
        return
    te = {"switch_bb": sp["switch_bb"], "cont": sp["ok"], "brk": sp["err"]}
    hs = []
    for g in [hb] + ctx.dsn.descendants(hb):
        for bb, t in g.live_calls(r"RouteHandler::handle_request$"):
            hs.append((g, bb))
    for g, bb in hs:
        if g is hb:
            ok = hb.edge_dominates(te["switch_bb"], te["cont"], bb)
        else:
            # handler call inside a spawned coroutine: the coroutine aggregate site must be dominated
            site = None
            cur = g
            while cur is not hb and cur.raw.get("parent") in ctx.dsn.F:
                par = ctx.dsn.F[cur.raw["parent"]]
                for b2, i2, s2 in par.stmts():
                    if s2["rv"]["rv"] == "agg" and s2["rv"].get("def") == cur.raw["id"]:
                        site = (par, b2)
                cur = par
            ok = site is not None and site[0] is hb and hb.edge_dominates(te["switch_bb"], te["cont"], site[1])
        ctx.check(R, "lookup-ok-dominates-handler:%s" % g.id.split("::")[-1], ok, "handle_request %s dominated by the Continue edge of lookup_route(..)?" % ("is" if ok else "is NOT"), (g, bb))
    ctx.check(R, "two-handler-sites", len(hs) == 2, "handle_request call sites under http_request_handle: %d" % len(hs), hb)
    reach = hb.reachable(te["brk"])
    ctx.check(R, "lookup-error-runs-no-handler", not any(g is hb and bb in reach for g, bb in hs) and
              not any(s["rv"].get("agg") == "coroutine" and b in reach for b, i, s in hb.stmts() if s["rv"]["rv"] == "agg"),
              "the Break edge of lookup_route(..)? reaches no handler call and builds no handler task", (hb, te["switch_bb"]))


def r5_allow_reaches_the_wire(ctx):
    R = ctx.rule("C04.R5", "the Allow values collected on the 405 error reach the HTTP response: add_header appends (keeps earlier values of the same name) and "
                 "HttpError::into_response moves the error's HeaderMap into the response wholesale", floor=2)
    from .c13 import _headers_wholesale
    ah = ctx.need_fn(ctx.ds, R, r"^error::HttpError::add_header$")
    app = ah.live_calls(r"http::HeaderMap::<T>::(try_)?append$")
    ins = ah.live_calls(r"http::HeaderMap::<T>::(try_)?insert$")
    okv = False
    for bb, t in app:
        n, v = ah.slice(t["args"][1]), ah.slice(t["args"][2])
        okv = 2 in n.params() and 3 in v.params()
    ctx.check(R, "add_header-appends", bool(app) and not ins and okv,
              "add_header stores (name, value) parameters with HeaderMap::append=%s (insert would keep only the last Allow method: %s)" % (bool(app) and okv, bool(ins)), ah)
    ir = ctx.need_fn(ctx.ds, R, r"^error::HttpError::into_response$")
    w = _headers_wholesale(ir)
    ctx.check(R, "error-headers-moved-wholesale", w, "into_response transfers self.headers as a whole: %s (a per-element copy of an owned HeaderMap drops all but the first value of a repeated name such as Allow)" % w, ir)


RULES = [("C04.R5", r5_allow_reaches_the_wire), ("C04.R1", r1_decision), ("C04.R2", r2_allow_truthful), ("C04.R3", r3_allow_only_on_405), ("C04.R4", r4_no_handler)]

SELFTEST = [
    {"name": "prefix-f2", "kind": "mutant", "revert": "55289db", "expect": ["C04.R2"], "why": "Allow lists methods not served at the request's version (pre-fix code)"},
    {"name": "any-ignores-version", "kind": "mutant", "edits": [("dropshot/src/router.rs", "        if node.methods.values().any(|handlers| {\n            find_handler_matching_version(handlers, version).is_some()\n        }) {",
                                                              "        if node.methods.values().any(|handlers| {\n            find_handler_matching_version(handlers, None).is_some()\n        }) {")], "expect": ["C04.R1"],
     "why": "405 instead of 404 when the path exists only at other versions"},
    {"name": "no-allow-header", "kind": "mutant", "edits": [("dropshot/src/router.rs", "                    err.add_header(http::header::ALLOW, allowed)\n                        .expect(\"method should be a valid allow header\");", "                    let _ = allowed;")], "expect": ["C04.R2", "C04.R3"],
     "why": "405 without Allow"},
    {"name": "add_header-inserts", "kind": "mutant", "edits": [("dropshot/src/error.rs", "        self.headers_mut().try_append(name, value)?;\n        Ok(self)\n    }\n\n    /// Adds a header to the [`http::HeaderMap`] of headers to add to responses\n    /// generated from this error, taking the error by value.",
                                                              "        self.headers_mut().try_insert(name, value)?;\n        Ok(self)\n    }\n\n    /// Adds a header to the [`http::HeaderMap`] of headers to add to responses\n    /// generated from this error, taking the error by value.")], "expect": ["C04.R5"], "why": "only the last allowed method survives"},
    {"name": "named-bool", "kind": "benign", "edits": [("dropshot/src/router.rs", "        if node.methods.values().any(|handlers| {\n            find_handler_matching_version(handlers, version).is_some()\n        }) {",
                                                     "        let other_method_served = node.methods.values().any(|handlers| {\n            find_handler_matching_version(handlers, version).is_some()\n        });\n        if other_method_served {")], "why": "let-bound predicate"},
    {"name": "guard-as-match", "kind": "benign", "edits": [("dropshot/src/router.rs", "                if find_handler_matching_version(handlers, version).is_some() {\n                    err.add_header(http::header::ALLOW, allowed)\n                        .expect(\"method should be a valid allow header\");\n                }",
                                                         "                if find_handler_matching_version(handlers, version).is_none() {\n                    continue;\n                }\n                err.add_header(http::header::ALLOW, allowed)\n                    .expect(\"method should be a valid allow header\");")], "why": "negated guard with continue"},
]

LEVEL_TEXT += " Also (R5): add_header appends and HttpError::into_response moves the error's header map into the response as a whole, so every collected Allow value reaches the wire."
