"""C04 — unmatched requests get 404 or 405 with a truthful Allow header."""
import re

from . import lib_c04 as L
from .core import AnchorLost
from .lib import callee_allow, callers, result_split

LEVEL = "other"
TECHNIQUE = ("static analysis: role-based recognition of the version-filtered scan of node.methods on lookup_route's normalised MIR (helpers inlined, combinators desugared), "
             "path-sensitive guard facts (405 only when an emptiness test of that scan came out non-empty, Allow entries only elements of it), data-flow slices, who-calls census for handlers")
LEVEL_TEXT = ("Decides on all paths of lookup_route's MIR (normalised view: refactoring helpers inlined, Option/Result combinators as switches): the 405 constructor is reached only when a test of "
              "emptiness of the *served-names scan* came out non-empty — the scan being an iteration over the matched node's method table that keeps exactly the entries for which "
              "find_handler_matching_version(that entry's handlers, the request's version) is Some, in any of the enumerated spellings (any(..); first element / peek / count of a lazily "
              "filtered iterator; is_empty/len of the collected or pushed names; a flag set in the filtering loop; the outcome of one fold over the table whose Option accumulator starts None, is handed on "
              "unchanged for entries not served and becomes Some(405 error) only in a step whose entry is served, the 405 being built lazily inside that step) — and for_not_found "
              "(evaluated 404: the constant reaching its status_code field, wherever declared) is built when the same test came out empty "
              "and for the unmatched-path case; every Allow header value is an element of that scan (per-item guard in a loop, item of a for_each over the filtered iterator, element of the "
              "collection of served names, the own entry of a fold step guarded inside the step) and Allow is added nowhere else; the per-method lookup, the scan and the Allow source read one node value; lookup_route calls no handler and its `?` "
              "in http_request_handle dominates both handler invocations. When lookup_route's body is split off into a helper too large for the inliner, the rules are evaluated on the "
              "one function lookup_route hands the request to, and the hand-over is checked (the version argument is lookup_route's version parameter, the result is returned as is). "
              "Together with C05's exact membership table this is the whole 404/405/Allow decision, for every table and version.")
LEVEL_NOTE = "Trusts rustc MIR, the extractor, the engine's helper inlining / combinator normalisation, BTreeMap::{get,values,iter}, Iterator::{any,filter,filter_map,map,next,count,collect,for_each,fold} and HttpError::add_header's insertion semantics."
EXPLANATION = ("Rules over the normalised MIR of router::lookup_route and server::http_request_handle from the current tree: TABLE (an emptiness test of the version-filtered scan of node.methods "
               "-> 405 / 404 constructors with evaluated status constants), SAME-SOURCE (the filter closure's captured version is lookup_route's version parameter; the handler list it tests and "
               "the name it yields are parts of one iterator item; lookup, scan and Allow source read one node), DOM (path facts: the test's outcome is established on every path to the "
               "constructor; each Allow value is an element of the filtered scan), WHO-CALLS (ALLOW insertions, handle_request).")
TRUSTED = ["rustc nightly MIR + const evaluation", "mirfacts extractor", "rules/engine.py (incl. helper inlining and the combinator normalisation of ctx.dsn), rules/lib.py, rules/lib_c04.py",
           "std BTreeMap / Iterator adaptor semantics (any, filter, filter_map, map, next, peek, count, collect, for_each, fold)", "C05 (ApiEndpointVersions::matches is exact)"]


def _entry(ctx, R):
    # the normalised view: helpers introduced by a refactoring are inlined, Option/Result combinators are switches
    return ctx.need_fn(ctx.dsn, R, r"^router::HttpRouter::<Context>::lookup_route$")


def _lr(ctx, R, report=False):
    """The function holding the routing decision: lookup_route, or — when its body was split off into a helper the
    engine does not inline (too large) — the one function lookup_route hands the request to.  The hand-over itself is
    checked once (by R1, `report=True`): same version, result returned as is."""
    entry = _entry(ctx, R)
    body, chain, why = L.routing_body(ctx.dsn, entry)
    if body is None:
        ctx.lost(R, "the function holding lookup_route's routing decision (%s)" % why)
        raise AnchorLost(why)
    if report:
        for cur, bb, t, g in chain:
            ok, detail = L.delegation_faithful(cur, bb, t, g)
            ctx.check(R, "lookup-body-handover:%s" % g.id.split("::")[-1], ok, detail, (cur, bb))
    return body


def r1_decision(ctx):
    R = ctx.rule("C04.R1", "the 405 error is built only when some method at the matched node is served at the request's version — decided by a test of emptiness of the "
                 "version-filtered scan of node.methods (any(..), a first element of the lazily filtered iterator, a non-empty collection of the methods that passed the "
                 "filter, a flag set in the filtering loop, a fold over node.methods whose Option accumulator is Some iff an entry passed the filter); otherwise, and for an "
                 "unmatched path, for_not_found (404) is built", floor=6)
    lr = _lr(ctx, R, report=True)
    vparam = L.version_param(lr)
    c405 = L.c405_sites(ctx.dsn, lr)
    ctx.check(R, "one-405-site", len(c405) == 1, "405 constructor sites in lookup_route and its closures: %d" % len(c405), lr)
    if len(c405) != 1:
        return
    f405, bb405, t405 = c405[0]
    nf = lr.live_calls(r"^error::HttpError::for_not_found$")
    chosen, idiom, detail = None, None, ""
    tests = L.decision_tests(lr, vparam)
    # `anchor`: the block of lookup_route at which the 405 comes into existence (the constructor, or the fold that builds it lazily)
    anchor = bb405 if f405 is lr else None
    if f405 is lr:
        # role (b): an emptiness test of the served-names source (role a) came out "non-empty" on every path to the 405
        for T in tests:
            if T.idiom == "fold" or not T.served(bb405):
                continue
            if T.ok:
                chosen, idiom = T, T.idiom
                detail = "405 is reached only when this test found a served method: " + T.why
                break
            detail = "a test guards the 405 but it does not decide `some method of the node is served at the request's version`: " + T.why
        # a flag set inside a loop over node.methods (`for h in values { if find(h, version).is_some() { found = true; break } }`):
        # every path to the 405 has itself established find(handlers-of-an-item, request version) as Some
        if chosen is None:
            okf, nexts, why = L.version_filtered_item(lr, bb405, vparam)
            if okf:
                idiom = "flag"
                detail = "405 is reached only on paths that found an item of node.methods with find_handler_matching_version(its handlers, request version) being Some"
    else:
        # the 405 is built lazily inside the step of a fold over node.methods whose Option accumulator is Some iff a served entry was seen
        detail = "the 405 constructor sits in a closure that is not the step of a fold over the node's method table"
        for T in tests:
            if T.idiom != "fold" or T.fold["h"] is not f405:
                continue
            anchor = T.bb
            if T.ok:
                chosen, idiom = T, "fold"
                detail = "the 405 comes into existence only in a fold step whose entry is served at the request's version: " + T.why
                break
            detail = "the 405 is built inside a fold over the node's method table, but its accumulator is not `Some iff some method is served at the request's version`: " + T.why
    ctx.check(R, "405-only-if-some-method-served-at-version", idiom is not None,
              detail or "the 405 constructor is not guarded by a version-filtered scan of node.methods (facts on a path reaching it: %s)" % ((lr.bool_states_at(bb405) or ["unreachable"])[:1]), (f405, bb405))
    # the tail 404: reached when the deciding test failed
    tail = []
    if chosen is not None:
        tail = [bb for bb, t in nf if chosen.none_served(bb)]
    elif idiom == "flag":
        # the flag's false case cannot be expressed as a path fact; require the alternative: a for_not_found after the scan from which the 405 is unreachable
        tail = [bb for bb, t in nf if bb405 not in lr.reachable(bb) and any(lr.dominates(b2, bb) for b2, _ in lr.live_calls(L.FIND))]
    ctx.check(R, "404-when-no-method-served", len(tail) >= 1 and anchor is not None and not any(anchor in lr.reachable(b) for b in tail),
              "for_not_found sites reached exactly when the version-filtered scan found nothing: %d" % len(tail), lr)
    # the status of the constructor: the evaluated constant that reaches the `status_code` field, wherever it is declared
    s404 = L.ctor_status(ctx.ds, "for_not_found")
    ctx.check(R, "for_not_found-is-404", s404 == {404}, "evaluated constants reaching for_not_found's status_code: %s" % sorted(s404 or []), lr)
    # same node as the method lookup: every read of a `.methods` table after the walk — the per-method lookup, the 404/405 scan and
    # the Allow loop — goes through the SAME node value (adversary change C04-C let the success path use the wildcard's child and
    # the failure tail its parent)
    reads = L.methods_reads(lr)
    common = set.intersection(*reads.values()) if reads else set()
    kinds = sorted(k[1] for k in reads)
    has_lookup = any(k in ("get", "get_key_value", "contains_key") for k in kinds)
    has_scan = any(k in ("iter", "values", "keys", "into_iter") for k in kinds)
    ctx.check(R, "scan-is-over-the-matched-node", has_lookup and has_scan and bool(common),
              "reads of a `.methods` table in lookup_route (%s) include the per-method lookup and the scan, and all go through one node value: %s" % (kinds, bool(common)), lr)
    # unmatched path -> for_not_found, whatever the idiom (ok_or_else closure, match, let-else)
    walk_nf = [bb for bb, t in nf if bb not in tail]
    ctx.check(R, "unmatched-path-is-404", bool(walk_nf), "walk failure (no edge for the segment) builds for_not_found: %s" % bool(walk_nf), lr)
    after = lr.reachable(anchor) if anchor is not None else set()
    errs = [(b, st2) for b, i, st2 in lr.aggregates(r"^std::result::Result$", "Err") if st2["pl"]["l"] == 0 and not st2["pl"]["p"] and b in after]
    # the value that carries the 405: the constructor's result, or (fold idiom) the fold's result whose Some payload is the error
    carrier = ("call", (t405 if f405 is lr else lr.blocks[anchor]["term"])["callee"], anchor) if anchor is not None else None
    okr = bool(errs) and all(carrier in lr.slice(st2["rv"]["ops"][0]).atoms for b, st2 in errs)
    ctx.check(R, "405-arm-returns-the-405-error", okr, "every Err(..) returned after the 405 came into existence carries that error: %s (%d sites)" % (okr, len(errs)), (f405, bb405))


def _allow_adds(ctx):
    adds = []
    for f, bb, t in callers(ctx.dsn, r"^error::HttpError::add_header$"):
        sl = f.slice(t["args"][1])
        if sl.has_const_path(r"header::ALLOW$") or any(a[0] == "const" and "ALLOW" in a[1] for a in sl.atoms):
            adds.append((f, bb, t))
    return adds


def r2_allow_truthful(ctx):
    R = ctx.rule("C04.R2", "every add_header(ALLOW, m) adds a method m of node.methods whose own handler list is served at the request's version "
                 "(guarded per item in a loop or in a fold step, or m is an element of the version-filtered iterator / of the collection of methods that passed that filter)", floor=2)
    lr = _lr(ctx, R)
    vparam = L.version_param(lr)
    adds = _allow_adds(ctx)
    if not adds:
        ctx.check(R, "allow-header-present", False, "no add_header(ALLOW, ..) site found: a 405 would carry no Allow header", lr)
        return
    kids = ctx.dsn.children(lr)
    for f, bb, t in adds:
        good, from_node, detail = False, False, ""
        if f is lr:
            # (1) a loop over node.methods with a per-item guard
            ms = lr.slice(t["args"][2], stop_at_calls=L.NEXT)
            nx = ms.calls(L.NEXT)
            nexts = set(b for _, b, _ in nx)
            clean = not callee_allow(ms, L.VALUE_PLUMBING + [L.NEXT]) and not any(a[0] in ("lit", "const") for a in ms.atoms)
            ok, gnexts, why = L.version_filtered_item(lr, bb, vparam, want=nexts)
            good = ok and gnexts == nexts and clean
            detail = why + ("; the Allow value is the key of that same item" if good else "")
            from_node = good
            # (2) an element of the served-names source / of the collection of served names
            if not good and nx:
                kinds = [L.element_origin(lr, nt["args"][0], vparam) for _, _, nt in nx]
                from_node = all(k != "other" for k, rec in kinds)
                if all(k == "served" for k, rec in kinds):
                    good = clean and all(rec["ok"] for k, rec in kinds)
                    detail = "the Allow value is an element of: " + "; ".join(rec["why"] for k, rec in kinds)
                    if not clean:
                        detail = "the Allow value is computed from, not taken from, the served method names"
        elif f in kids and L.closure_sites(lr, f) and all(re.search(L.FOLD, st["callee"]) for sbb, st, agg in L.closure_sites(lr, f)):
            # the step of a fold over node.methods: the add is guarded per item inside the step
            recs = [L.fold_accumulator(lr, sbb, st, vparam) for sbb, st, agg in L.closure_sites(lr, f)]
            from_node = all(rec["roots"] for rec in recs)
            mine = [a for rec in recs for a in rec["adds"] if a["bb"] == bb]
            good = all(rec["ok"] for rec in recs) and bool(mine) and all(a["value_ok"] and a["guarded"] for a in mine)
            if good:
                detail = "the Allow value is the key of the fold step's own entry, added only where find_handler_matching_version(its handlers, request version) is Some"
            elif not all(rec["ok"] for rec in recs):
                detail = "the closure adding Allow is the step of a fold, but: " + "; ".join(rec["why"] for rec in recs if not rec["ok"])
            else:
                detail = "in the fold step the Allow value is the entry's own key=%s, the add is reached only for an entry served at the request's version=%s" % (
                    all(a["value_ok"] for a in mine), all(a["guarded"] for a in mine))
        elif f in kids:
            # the body of a `for_each` over the served names
            sites = L.closure_sites(lr, f)
            item = L._from_item_only(f, t["args"][2])
            recs = []
            for sbb, st, agg in sites:
                if not re.search(r"iter::Iterator::(for_each|try_for_each)$", st["callee"]):
                    recs.append(("other", {"ok": False, "why": "the closure adding Allow is passed to %s" % st["callee"]}))
                else:
                    recs.append(L.element_origin(lr, st["args"][0], vparam))
            from_node = bool(recs) and all(k != "other" for k, rec in recs)
            if recs and all(k == "served" for k, rec in recs):
                good = item and all(rec["ok"] for k, rec in recs)
                detail = "the Allow value is the item of a for_each over: " + "; ".join(rec["why"] for k, rec in recs)
                if not item:
                    detail = "the Allow value is not the for_each item itself"
            else:
                detail = "the closure adding Allow is not the body of a for_each over the methods served at the request's version (it runs over: %s)" % \
                         ("; ".join(rec["why"] if k == "other" else ("the unfiltered method table" if k == "table" else "the served methods") for k, rec in recs) or "nothing")
        else:
            ctx.check(R, "allow-site:%s" % f.id, False, "Allow header added outside lookup_route", (f, bb))
            continue
        ctx.check(R, "allow-entry-is-a-method-served-at-the-version", good, detail or "the Allow value is not drawn from the methods served at the request's version", (f, bb))
        ctx.check(R, "allow-derives-from-matched-node", good or from_node, "Allow values come from the method table of the `node` reached by the walk", (f, bb))


def r3_allow_only_on_405(ctx):
    R = ctx.rule("C04.R3", "an Allow header is added in the 405 arm of lookup_route and nowhere else in the crate", floor=1)
    lr = _lr(ctx, R)
    vparam = L.version_param(lr)
    c405 = L.c405_sites(ctx.dsn, lr)
    in_lr = len(c405) == 1 and c405[0][0] is lr
    kids = ctx.dsn.children(lr)
    n = 0
    for f in ctx.dsn.F.values():
        if f.id.startswith(("test_util", "logging")):
            continue
        for bb in f.const_uses(r"header::ALLOW$"):
            n += 1
            ok = on_err = False
            if f is lr:
                ok = in_lr and lr.dominates(c405[0][1], bb)
                # the constant flows into an add_header on the 405 error
                for abb, at in lr.live_calls(r"^error::HttpError::add_header$"):
                    if lr.slice(at["args"][1]).has_const_path(r"header::ALLOW$") and lr.slice(at["args"][0]).has_call(r"for_client_error"):
                        on_err = True
            elif f in kids and len(c405) == 1 and c405[0][0] is f:
                # the step of a fold that builds the 405 lazily: the step is run by that fold only, and the error it adds to
                # is the one carried in the accumulator or the 405 it has just built
                sites = L.closure_sites(lr, f)
                recs = [L.fold_accumulator(lr, sbb, st, vparam) for sbb, st, agg in sites if re.search(L.FOLD, st["callee"])]
                ok = bool(sites) and len(recs) == len(sites) and all(rec["ok"] for rec in recs)
                adds = [a for rec in recs for a in rec["adds"]]
                on_err = ok and bool(adds) and all(a["recv_ok"] for a in adds)
            elif f in kids:
                # a closure of lookup_route (the body of a for_each): every place that runs it is in the 405 arm, and the
                # error it adds to is the captured 405 error
                sites = L.closure_sites(lr, f)
                ok = in_lr and bool(sites) and all(lr.dominates(c405[0][1], sbb) for sbb, st, agg in sites)
                for abb, at in f.live_calls(r"^error::HttpError::add_header$"):
                    if f.slice(at["args"][1]).has_const_path(r"header::ALLOW$"):
                        on_err = bool(sites)
                        for sbb, st, agg in sites:
                            ups = L.upvar_operands(f, agg, at["args"][0])
                            if not ups or not all(lr.slice(u).has_call(r"for_client_error") for u in ups):
                                on_err = False
            ctx.check(R, "allow-use:%s" % f.id, ok and on_err,
                      "use of header::ALLOW %s confined to where the 405 exists (dominated by its constructor / inside the fold step that builds it); it is added to the 405 error=%s" % ("is" if ok else "is NOT", on_err), (f, bb))
    if n == 0:
        ctx.check(R, "allow-header-present", False, "header::ALLOW is not used anywhere: a 405 would carry no Allow header", lr)


def r4_no_handler(ctx):
    R = ctx.rule("C04.R4", "lookup_route invokes no handler; in http_request_handle the `?` on its result dominates both handle_request calls", floor=3)
    lr = _entry(ctx, R)
    reg = ctx.dsn.region([lr.id])
    bad = []
    for fid in reg:
        for bb, t in ctx.dsn.F[fid].live_calls(r"RouteHandler::handle_request$|HttpHandlerFunc::handle_request$"):
            bad.append((fid, bb))
    ctx.check(R, "lookup-calls-no-handler", not bad, "handle_request calls reachable from lookup_route (%d functions): %s" % (len(reg), bad), lr)
    top = ctx.need_fn(ctx.dsn, R, r"^server::http_request_handle$")
    hb = ctx.dsn.body_of(top)
    look = hb.live_calls(r"HttpRouter::<Context>::lookup_route$")
    if len(look) != 1:
        ctx.lost(R, "the single lookup_route call in http_request_handle")
        return
    lbb, lt = look[0]
    sp = result_split(hb, lt["dest"]["l"])
    if not sp:
        ctx.lost(R, "the Ok/Err split (`?`, match, let-else) of lookup_route's result")
        return
    te = {"switch_bb": sp["switch_bb"], "cont": sp["ok"], "brk": sp["err"]}
    hs = []
    for g in [hb] + ctx.dsn.descendants(hb):
        for bb, t in g.live_calls(r"RouteHandler::handle_request$"):
            hs.append((g, bb))
    for g, bb in hs:
        if g is hb:
            ok = hb.edge_dominates(te["switch_bb"], te["cont"], bb)
        else:
            # handler call inside a spawned coroutine: the coroutine aggregate site must be dominated
            site = None
            cur = g
            while cur is not hb and cur.raw.get("parent") in ctx.dsn.F:
                par = ctx.dsn.F[cur.raw["parent"]]
                for b2, i2, s2 in par.stmts():
                    if s2["rv"]["rv"] == "agg" and s2["rv"].get("def") == cur.raw["id"]:
                        site = (par, b2)
                cur = par
            ok = site is not None and site[0] is hb and hb.edge_dominates(te["switch_bb"], te["cont"], site[1])
        ctx.check(R, "lookup-ok-dominates-handler:%s" % g.id.split("::")[-1], ok, "handle_request %s dominated by the Continue edge of lookup_route(..)?" % ("is" if ok else "is NOT"), (g, bb))
    ctx.check(R, "two-handler-sites", len(hs) == 2, "handle_request call sites under http_request_handle: %d" % len(hs), hb)
    reach = hb.reachable(te["brk"])
    ctx.check(R, "lookup-error-runs-no-handler", not any(g is hb and bb in reach for g, bb in hs) and
              not any(s["rv"].get("agg") == "coroutine" and b in reach for b, i, s in hb.stmts() if s["rv"]["rv"] == "agg"),
              "the Break edge of lookup_route(..)? reaches no handler call and builds no handler task", (hb, te["switch_bb"]))


def r5_allow_reaches_the_wire(ctx):
    R = ctx.rule("C04.R5", "the Allow values collected on the 405 error reach the HTTP response: add_header appends (keeps earlier values of the same name) and "
                 "HttpError::into_response moves the error's HeaderMap into the response wholesale", floor=2)
    from .c13 import _headers_wholesale
    ah = ctx.need_fn(ctx.ds, R, r"^error::HttpError::add_header$")
    app = ah.live_calls(r"http::HeaderMap::<T>::(try_)?append$")
    ins = ah.live_calls(r"http::HeaderMap::<T>::(try_)?insert$")
    okv = False
    for bb, t in app:
        n, v = ah.slice(t["args"][1]), ah.slice(t["args"][2])
        okv = 2 in n.params() and 3 in v.params()
    ctx.check(R, "add_header-appends", bool(app) and not ins and okv,
              "add_header stores (name, value) parameters with HeaderMap::append=%s (insert would keep only the last Allow method: %s)" % (bool(app) and okv, bool(ins)), ah)
    ir = ctx.need_fn(ctx.ds, R, r"^error::HttpError::into_response$")
    w = _headers_wholesale(ir)
    ctx.check(R, "error-headers-moved-wholesale", w, "into_response transfers self.headers as a whole: %s (a per-element copy of an owned HeaderMap drops all but the first value of a repeated name such as Allow)" % w, ir)


def r6_decision_on_the_node_lookup_serves(ctx):
    """`the same path ... is served for some other method`: the node whose method table decides 404 / 405 / Allow is the node a successful
    lookup of that path would use, trailing-wildcard step included.  This is C01.R3, re-evaluated here (adversary change C04-G skipped
    that step when the parent node had a handler for the request's method, so lookup and the 405 tail looked at different nodes)."""
    from . import c01
    from .lib_c01 import Renamed
    c01.r3_walk_integrity(Renamed(ctx, "C04.R6", "one walk decides the node for success and for the 404/405 answer alike: every path out of the exhausted walk takes the trailing-wildcard step before any method table is read"))


def r7_method_keys_agree(ctx):
    """`405 when the path exists but the method is not served`, `Allow lists exactly the methods served`: registration and lookup key the
    per-node method table with the same normalisation of the method name.  This is C01.R4, re-evaluated here (adversary change C04-L:
    insert stopped upper-casing, so an endpoint registered as `get` sat under a key no request produces and was advertised in Allow)."""
    from . import c01
    from .lib_c01 import Renamed
    c01.r4_key_normalisation(Renamed(ctx, "C04.R7", "the method names the 404/405 decision and the Allow header are computed from are keyed identically by insert and lookup_route"))


RULES = [("C04.R7", r7_method_keys_agree), ("C04.R6", r6_decision_on_the_node_lookup_serves), ("C04.R5", r5_allow_reaches_the_wire), ("C04.R1", r1_decision), ("C04.R2", r2_allow_truthful), ("C04.R3", r3_allow_only_on_405), ("C04.R4", r4_no_handler)]

_ANY = "        if node.methods.values().any(|handlers| {\n            find_handler_matching_version(handlers, version).is_some()\n        }) {"
_LOOP = "            for (allowed, handlers) in node.methods.iter() {\n                // Only list methods that are actually served at this version.\n                if find_handler_matching_version(handlers, version).is_some() {\n                    err.add_header(http::header::ALLOW, allowed)\n                        .expect(\"method should be a valid allow header\");\n                }\n            }"

SELFTEST = [
    {"name": "prefix-f2", "kind": "mutant", "revert": "55289db", "expect": ["C04.R2"], "why": "Allow lists methods not served at the request's version (pre-fix code)"},
    {"name": "any-ignores-version", "kind": "mutant", "edits": [("dropshot/src/router.rs", "        if node.methods.values().any(|handlers| {\n            find_handler_matching_version(handlers, version).is_some()\n        }) {",
                                                              "        if node.methods.values().any(|handlers| {\n            find_handler_matching_version(handlers, None).is_some()\n        }) {")], "expect": ["C04.R1"],
     "why": "405 instead of 404 when the path exists only at other versions"},
    {"name": "no-allow-header", "kind": "mutant", "edits": [("dropshot/src/router.rs", "                    err.add_header(http::header::ALLOW, allowed)\n                        .expect(\"method should be a valid allow header\");", "                    let _ = allowed;")], "expect": ["C04.R2", "C04.R3"],
     "why": "405 without Allow"},
    {"name": "add_header-inserts", "kind": "mutant", "edits": [("dropshot/src/error.rs", "        self.headers_mut().try_append(name, value)?;\n        Ok(self)\n    }\n\n    /// Adds a header to the [`http::HeaderMap`] of headers to add to responses\n    /// generated from this error, taking the error by value.",
                                                              "        self.headers_mut().try_insert(name, value)?;\n        Ok(self)\n    }\n\n    /// Adds a header to the [`http::HeaderMap`] of headers to add to responses\n    /// generated from this error, taking the error by value.")], "expect": ["C04.R5"], "why": "only the last allowed method survives"},
    {"name": "named-bool", "kind": "benign", "edits": [("dropshot/src/router.rs", "        if node.methods.values().any(|handlers| {\n            find_handler_matching_version(handlers, version).is_some()\n        }) {",
                                                     "        let other_method_served = node.methods.values().any(|handlers| {\n            find_handler_matching_version(handlers, version).is_some()\n        });\n        if other_method_served {")], "why": "let-bound predicate"},
    {"name": "guard-as-match", "kind": "benign", "edits": [("dropshot/src/router.rs", "                if find_handler_matching_version(handlers, version).is_some() {\n                    err.add_header(http::header::ALLOW, allowed)\n                        .expect(\"method should be a valid allow header\");\n                }",
                                                         "                if find_handler_matching_version(handlers, version).is_none() {\n                    continue;\n                }\n                err.add_header(http::header::ALLOW, allowed)\n                    .expect(\"method should be a valid allow header\");")], "why": "negated guard with continue"},
    {"name": "lazy-filter-first-element", "kind": "benign", "edits": [
        ("dropshot/src/router.rs", _ANY, "        if node.methods.iter().filter_map(|(name, handlers)| find_handler_matching_version(handlers, version).map(|_| name)).next().is_some() {"),
        ("dropshot/src/router.rs", _LOOP, "            node.methods.iter().filter_map(|(name, handlers)| find_handler_matching_version(handlers, version).map(|_| name)).for_each(|allowed| {\n"
                                          "                err.add_header(http::header::ALLOW, allowed).expect(\"method should be a valid allow header\");\n            });")],
     "why": "the served names as a lazily filtered iterator: first element decides 404/405, a re-created iterator feeds a for_each adding Allow"},
    {"name": "collect-then-test", "kind": "benign", "edits": [
        ("dropshot/src/router.rs", _ANY, "        let served: Vec<&String> = node.methods.iter().filter(|(_, handlers)| find_handler_matching_version(handlers.as_slice(), version).is_some()).map(|(name, _)| name).collect();\n"
                                         "        if served.len() > 0 {"),
        ("dropshot/src/router.rs", _LOOP, "            for allowed in served {\n                err.add_header(http::header::ALLOW, allowed).expect(\"method should be a valid allow header\");\n            }")],
     "why": "filter + map collected into a Vec, len() > 0 decides, the Vec feeds the Allow loop"},
    {"name": "question-mark-filter", "kind": "benign", "edits": [
        ("dropshot/src/router.rs", _ANY, "        if node.methods.iter().filter_map(|(name, handlers)| { find_handler_matching_version(handlers, version)?; Some(name) }).count() != 0 {")],
     "why": "`?` inside the filter_map callback, count() != 0 decides"},
    {"name": "lazy-filter-allow-ignores-version", "kind": "mutant", "expect": ["C04.R2"], "edits": [
        ("dropshot/src/router.rs", _ANY, "        if node.methods.iter().filter_map(|(name, handlers)| find_handler_matching_version(handlers, version).map(|_| name)).next().is_some() {"),
        ("dropshot/src/router.rs", _LOOP, "            node.methods.iter().filter_map(|(name, handlers)| find_handler_matching_version(handlers, None).map(|_| name)).for_each(|allowed| {\n"
                                          "                err.add_header(http::header::ALLOW, allowed).expect(\"method should be a valid allow header\");\n            });")],
     "why": "the iterator feeding Allow filters by `None` instead of the request's version"},
    {"name": "lazy-filter-inverted-decision", "kind": "mutant", "expect": ["C04.R1"], "edits": [
        ("dropshot/src/router.rs", _ANY, "        if node.methods.iter().filter_map(|(name, handlers)| find_handler_matching_version(handlers, version).map(|_| name)).next().is_none() {")],
     "why": "405 when nothing is served at the version, 404 when something is"},
]

# the whole 404/405 tail of lookup_route as written in the pinned tree, and the same decision as ONE fold with an Option accumulator
_TAIL = (_ANY + "\n            let mut err = HttpError::for_client_error_with_status(\n                None,\n                ClientErrorStatusCode::METHOD_NOT_ALLOWED,\n            );\n\n"
         "            // Add `Allow` headers for the methods that *are* acceptable for\n            // this path, as specified in \u00a7 15.5.0 RFC9110, which states:\n            //\n"
         "            // > The origin server MUST generate an Allow header field in a\n            // > 405 response containing a list of the target resource's\n"
         "            // > currently supported methods.\n            //\n            // See: https://httpwg.org/specs/rfc9110.html#status.405\n"
         "            if let Some(hdrs) = err.headers.as_deref_mut() {\n                hdrs.reserve(node.methods.len());\n            }\n" + _LOOP +
         "\n            Err(err)\n        } else {\n            Err(HttpError::for_not_found(\n                None,\n                format!(\n"
         "                    \"route has no handlers for version {}\",\n                    match version {\n                        Some(v) => v.to_string(),\n"
         "                        None => String::from(\"<none>\"),\n                    }\n                ),\n            ))\n        }\n")


def _fold(test="find_handler_matching_version(handlers, version).is_none()", value="allowed"):
    return ("        let method_not_allowed: Option<HttpError> = node.methods.iter().fold(None, |partial, (allowed, handlers)| {\n"
            "            if " + test + " {\n                return partial;\n            }\n"
            "            let mut err = partial.unwrap_or_else(|| {\n"
            "                HttpError::for_client_error_with_status(None, ClientErrorStatusCode::METHOD_NOT_ALLOWED)\n            });\n"
            "            err.add_header(http::header::ALLOW, " + value + ").expect(\"method should be a valid allow header\");\n"
            "            Some(err)\n        });\n"
            "        Err(method_not_allowed.unwrap_or_else(|| {\n"
            "            let label = version.map_or_else(|| String::from(\"<none>\"), Version::to_string);\n"
            "            HttpError::for_not_found(None, format!(\"route has no handlers for version {}\", label))\n        }))\n")


_HEAD = ("        let all_segments = input_path_to_segments(&path).map_err(|_| {\n            HttpError::for_bad_request(\n                None,\n"
         "                String::from(\"invalid path encoding\"),\n            )\n        })?;\n        let mut all_segments = all_segments.into_iter();\n")


def _split(version):
    return ("        let all_segments = input_path_to_segments(&path).map_err(|_| {\n            HttpError::for_bad_request(\n                None,\n"
            "                String::from(\"invalid path encoding\"),\n            )\n        })?;\n"
            "        self.lookup_segments(method, all_segments.into_iter(), " + version + ")\n    }\n\n"
            "    fn lookup_segments(\n        &self,\n        method: &Method,\n        mut all_segments: impl Iterator<Item = String>,\n"
            "        version: Option<&Version>,\n    ) -> Result<RouterLookupResult<Context>, HttpError> {\n")


_NF = ("        let status_code = ErrorStatusCode::NOT_FOUND;\n        let external_message =\n            status_code.canonical_reason().unwrap().to_string();\n"
       "        HttpError {\n            status_code,\n            error_code,\n            internal_message,\n            external_message,\n            headers: None,\n        }\n")


def _nf(const):
    return ("        const STATUS: ErrorStatusCode = ErrorStatusCode::" + const + ";\n"
            "        HttpError {\n            status_code: STATUS,\n            error_code,\n"
            "            external_message: String::from(STATUS.canonical_reason().unwrap()),\n            internal_message,\n            headers: None,\n        }\n")


SELFTEST += [
    {"name": "fold-lazy-405", "kind": "benign", "edits": [("dropshot/src/router.rs", _TAIL, _fold())],
     "why": "one fold over node.methods with an Option<HttpError> accumulator: the 405 is built lazily in the first step whose entry is served at the version, every such "
            "step adds its Allow value, the 404 is built when the fold ended with None"},
    {"name": "fold-keeps-unserved", "kind": "mutant", "expect": ["C04.R1", "C04.R2"], "edits": [("dropshot/src/router.rs", _TAIL, _fold(test="find_handler_matching_version(handlers, version).is_some()"))],
     "why": "fold idiom with the per-item test inverted: the accumulator becomes Some (405) for entries NOT served at the version and Allow lists them"},
    {"name": "fold-ignores-version", "kind": "mutant", "expect": ["C04.R1", "C04.R2"], "edits": [("dropshot/src/router.rs", _TAIL, _fold(test="find_handler_matching_version(handlers, None).is_none()"))],
     "why": "fold idiom filtering by `None` instead of the request's version"},
    {"name": "fold-allow-is-requested-method", "kind": "mutant", "expect": ["C04.R2"], "edits": [("dropshot/src/router.rs", _TAIL, _fold(value="&methodname"))],
     "why": "fold idiom whose Allow value is the requested (unserved) method name instead of the step's own entry"},
    {"name": "split-body", "kind": "benign", "edits": [("dropshot/src/router.rs", _HEAD, _split("version"))],
     "why": "the body of lookup_route moved into a private generic lookup_segments (too large for the engine's inliner): the rules follow the hand-over"},
    {"name": "split-body-drops-version", "kind": "mutant", "expect": ["C04.R1"], "edits": [("dropshot/src/router.rs", _HEAD, _split("None"))],
     "why": "the split-off body is handed `None` instead of the request's version"},
    {"name": "for_not_found-inner-const", "kind": "benign", "edits": [("dropshot/src/error.rs", _NF, _nf("NOT_FOUND"))], "why": "the 404 comes from a `const STATUS` declared inside for_not_found"},
    {"name": "for_not_found-inner-const-410", "kind": "mutant", "expect": ["C04.R1"], "edits": [("dropshot/src/error.rs", _NF, _nf("GONE"))], "why": "the inner const evaluates to 410"},
]

LEVEL_TEXT += " Also (R5): add_header appends and HttpError::into_response moves the error's header map into the response as a whole, so every collected Allow value reaches the wire."
LEVEL_TEXT += ' Also (R6 = C01.R3): the 404/405 decision reads the method table of the node the walk (trailing-wildcard step included) ended on. Also (R7 = C01.R4): insert and lookup_route key the method table identically.'
