"""C15 — following next-page tokens visits every item exactly once (structural necessary conditions only)."""
import re

from . import c14
from . import lib_c14 as L
from .lib import PLUMBING, result_split

LEVEL = "other"
TECHNIQUE = ("static analysis on the normalised MIR (Option/Result combinators desugared into switches with their closures spliced in, new helpers inlined): variant-aware value origins of the two "
             "fields of every ResultsPage built by ResultsPage::new, evaluated per edge of the test of <[T]>::last(items) (the values next_page can hold on the paths through the Some edge / the None edge; "
             "items moved unmodified), forward flow of the token error to the return, plus the C14 codec/bound/limit decisions re-evaluated")
LEVEL_TEXT = ("Only the framework's structural necessary conditions of a complete scan are decided, on the MIR of the current tree (extracted helpers inlined): every Ok payload of "
              "ResultsPage::new is a ResultsPage aggregate built after the one test of <[T]>::last(items), whose next_page is present exactly when last(items) is Some (i.e. the page is non-empty): "
              "on the paths through the Some edge of the test every value it can hold is Some(token), on the paths through the None edge None — whether the test is a match / if let / let-else or the "
              "switch of a desugared `.map(..).transpose()?` / `.map_or(Ok(None), ..)?` — the token is the Ok payload of "
              "serialize_page_token(get_page_selector(that last item, scan_params)) and the token error flows unchanged to the return on every path of its error edge (`?` or match + return) "
              "rather than being turned into `no more pages`; `items` reaches the result unmodified (no mutable borrow, no transformation); a token issued is accepted back and yields "
              "the same selector (C14.R1/R2 re-evaluated) and the effective limit is min(client limit, max) / default (C14.R5 re-evaluated). "
              "NOT decided: termination and exactly-once coverage of a scan — they depend on the consumer's handler (its query and its selector) and on run-time histories.")
LEVEL_NOTE = ("Trusts rustc MIR, the extractor, engine slices/dominators/helper inlining, rules/lib_c14.py, absint; <[T]>::last returns the final element and is None iff the slice is empty; "
              "Option::map / transpose / `?` preserve Some-ness. The consumer's get_page_selector and its query are outside the analysed crate.")
EXPLANATION = ("ORIGIN traces (lib_c14.trace, projection- and variant-sensitive, restricted to the definitions on the feasible paths through one edge of the test of last(items); lib_c14.option_cases looks "
               "through transpose) from ResultsPage{next_page, items} back to <[T]>::last(items) and serialize_page_token, on the normalised view where map / map_or / and_then / Result::map(Some) are "
               "switches; absence of &mut borrows on the items chain; forward ERROR FLOW of the token Result (lib_c14.err_flow: `?`, threaded ControlFlow aggregates, transpose, match); re-evaluation of C14.R1, C14.R2 "
               "(SIBLINGS-AGREE) and C14.R5 (DECIDE) under C15 rule ids.")
TRUSTED = ["rustc nightly MIR", "mirfacts extractor", "rules/engine.py (incl. combinator desugaring, helper inlining, jump threading)", "rules/lib_c14.py", "rules/absint.py", "core::slice::last, Option::map, Option::transpose semantics", "C14's trusted base for R2a-c"]

NEW = r"^pagination::ResultsPage::<ItemType>::new$"
PAGE_ADT = "pagination::ResultsPage"
LAST = r"^core::slice::<impl \[T\]>::last$"
FNCALL = r"^std::ops::(Fn|FnMut|FnOnce)::(call|call_mut|call_once)$"
VEC_VIEW = [r"Vec::<T, A>::as_slice$", r"^core::slice::<impl \[T\]>::iter$"]


def r1_results_page(ctx):
    R = ctx.rule("C15.R1", "ResultsPage::new: next_page is Some exactly when <[T]>::last(items) is, its value is serialize_page_token(get_page_selector(that last item, scan_params)) "
                 "with errors propagated, and items is moved into the page unmodified", floor=8)
    # normalised view: Option::map / map_or / and_then with their closures, Result::map(Some), helpers: all one body
    f = ctx.need_fn(ctx.dsn, R, NEW)
    fns = [f] + ctx.dsn.descendants(f)
    fields = [fl["name"] for fl in ctx.ds.adts[PAGE_ADT]["variants"][0]["fields"]]
    # every Ok(..) the constructor returns is a ResultsPage{next_page, items} built here (one, or one per early return)
    pages, _ = L.ok_payload(f)
    aggs = [o for o in pages if o.kind == "agg" and o.info.get("adt") == PAGE_ADT and not o.proj and not o.info.get("via_map")]
    if not aggs or len(aggs) != len(pages) or "next_page" not in fields or "items" not in fields:
        ctx.lost(R, "ResultsPage{next_page, items} aggregates as the only Ok payload of ResultsPage::new (payload originates from %s)" % L.describe(pages))
        return
    i_next, i_items = fields.index("next_page"), fields.index("items")
    page_sites = [a.bb for a in aggs]
    # ---- items
    ok_items, txt = True, []
    for a in aggs:
        o, st = L.trace(f, a.info["fields"][i_items], PLUMBING)
        muts = L.mut_borrows(f, st.locals)
        ok_items = ok_items and L.only_param(o, 1) and not muts
        txt.append("%s, &mut borrows of it: %d" % (L.describe(o), len(muts)))
    ctx.check(R, "items-moved-unmodified", ok_items, "ResultsPage.items originates from %s" % "; ".join(txt), (f, aggs[0].bb))
    # ---- the last item and the test of its existence, by role: `items.last()` (its result tested as an Option), or the
    # slice pattern `let [.., tail] = items.as_slice() else {..}` (the element at constant index 1 from the end, read
    # after the test `len >= 1` of the same slice)
    feas = L.Feas(f)
    lasts = [(bb, t) for bb, t in f.live_calls(LAST)]
    reads = [(g, r) for g in fns for r in L.indexed_reads(g)]
    tails = [r for g, r in reads if g is f and r[1] == "cidx" and r[2] == (1, True)]
    firsts = [t["callee"] for g in fns for bb, t in g.live_calls(r"slice::<impl \[T\]>::(first|get|split_first|first_chunk)$|ops::Index::index$")]
    firsts += ["[%s]" % ("computed index" if k == "idx" else "sub-slice" if k == "subslice" else "%s%d" % ("len-" if d[1] else "", d[0])) for g, (bb, k, d) in reads if g is not f or (k, d) != ("cidx", (1, True))]
    if len(lasts) == 1 and not tails:
        lbb, lt = lasts[0]
        o, _ = L.trace(f, lt["args"][0], PLUMBING + VEC_VIEW)
        tests = [(wbb, s_t, n_t) for wbb, s_t, n_t, optop in L.option_edges(f) if L.only_call(L.trace(f, optop, PLUMBING)[0], LAST, lbb, ())]
        how = "last()"

        def is_last_item(origins):
            return L.only_call(origins, LAST, lbb, L.SOME_0)
        item_through = PLUMBING
    elif tails and not lasts:
        lbb = tails[0][0]
        # the slice the pattern is matched against: the element read is `items[len-1]`, the test measures `items`
        o = [x for bb, k, d in tails for x in _slice_of_tail(f, bb)]
        tests = [t for t in L.emptiness_tests(f, lambda og: L.only_param(og, 1), PLUMBING + VEC_VIEW)
                 if all(feas.edge_dominates(t[0], t[1], bb) for bb, k, d in tails)]
        how = "the slice pattern [.., x]"

        def is_last_item(origins):
            return len(origins) == 1 and origins[0].kind == "param" and origins[0].info["index"] == 1 and L._same(origins[0].proj, L.LAST_ELEM)
        item_through = PLUMBING + VEC_VIEW
    else:
        ctx.lost(R, "<[T]>::last(items) in ResultsPage::new (%d call sites; %d slice-pattern reads of the last element; other element accessors: %s)" % (len(lasts), len(tails), firsts))
        return
    ctx.check(R, "last-of-items", L.only_param(o, 1) and not firsts,
              "receiver of %s originates from %s; other element accessors in the function: %s" % (how, L.describe(o), firsts), (f, lbb))
    # ---- the serialize call and the selector call feeding it
    sers = [(g, bb, t) for g in fns for bb, t in g.live_calls(c14.SER)]
    if len(sers) != 1 or sers[0][0] is not f:
        ctx.lost(R, "the one serialize_page_token call of ResultsPage::new (%d call sites, %d of them in closures that are not Option/Result combinator arguments)" % (
            len(sers), len([1 for g, _, _ in sers if g is not f])))
        return
    _, sbb, st = sers[0]
    so, _ = L.trace(f, st["args"][0], PLUMBING)
    sel = so[0] if len(so) == 1 and so[0].is_call(FNCALL) and not so[0].proj else None
    ctx.check(R, "token-is-of-the-selector", sel is not None, "serialize_page_token's argument originates from %s (must be the selector function's result)" % L.describe(so), (f, sbb))
    if sel is None:
        ctx.lost(R, "the get_page_selector(..) call feeding serialize_page_token")
        return
    cbb, ct = sel.bb, sel.node
    tup, _ = L.trace(f, ct["args"][1]) if len(ct["args"]) > 1 else ([], None)
    if len(tup) != 1 or tup[0].kind != "agg" or tup[0].info.get("agg") != "tuple" or len(tup[0].info["fields"]) != 2:
        ctx.lost(R, "argument tuple (item, scan_params) of the selector call")
        return
    o_item, _ = L.trace(f, tup[0].info["fields"][0], item_through)
    o_scan, _ = L.trace(f, tup[0].info["fields"][1], PLUMBING)
    o_fn, _ = L.trace(f, ct["args"][0], PLUMBING)
    ctx.check(R, "selector-item-is-the-last-item", is_last_item(o_item),
              "selector's item argument originates from %s (must be the Some payload of last(items) / the element [len-1] of items)" % L.describe(o_item), (f, cbb))
    ctx.check(R, "selector-and-scan-params-are-the-arguments", L.only_param(o_fn, 3) and L.only_param(o_scan, 2),
              "the selector function is %s, its second argument %s (must be new()'s get_page_selector and scan_params)" % (L.describe(o_fn), L.describe(o_scan)), (f, cbb))
    # ---- next_page, case by case of the test of last(items) (match / if let / let-else / the switch of a desugared map / map_or):
    # on the paths through its Some edge every value next_page can have is Some(Ok payload of serialize_page_token), on the paths
    # through its None edge it is None; `.transpose()?` is looked through; every page is built after the test
    n_some = n_none = 0
    tok_ok = iff_ok = len(tests) == 1
    bad = []
    if tok_ok:
        wbb, s_t, n_t = tests[0]
        for want, tgt in (("some", s_t), ("none", n_t)):
            after = feas.after_edge(wbb, tgt)
            on = L.blocks_through_edge(f, feas, wbb, tgt)
            n = 0
            for a in aggs:
                if not f.dominates(wbb, a.bb):
                    iff_ok = False
                    bad.append("a page is built without testing last(items)")
                if a.bb not in after:
                    continue
                for kind, pay, bb in L.option_cases(f, a.info["fields"][i_next], PLUMBING, blocks=on):
                    n += 1
                    if kind != want:
                        iff_ok = False
                        bad.append("%s where last(items) is %s" % ("None" if kind == "none" else "Some(..)" if kind == "some" else pay.describe(), "Some" if want == "some" else "None"))
                    elif kind == "some":
                        po = L.trace_payload(f, pay, PLUMBING, blocks=on)
                        if not L.only_call(po, c14.SER, sbb, L.OK_0):
                            tok_ok = False
                            bad.append("Some(%s)" % L.describe(po))
            if want == "some":
                n_some = n
            else:
                n_none = n
        iff_ok = iff_ok and n_some > 0 and n_none > 0 and feas.edge_dominates(wbb, s_t, sbb)
        tok_ok = tok_ok and n_some > 0
    ctx.check(R, "closure-returns-the-token", tok_ok, "required: every Some(..) next_page can hold is the Ok payload of the serialize_page_token(..) call; %d value(s) examined on the Some edge of the test of last(items)%s" % (
        n_some, "; found: " + "; ".join(bad) if bad else ""), (f, sbb))
    ctx.check(R, "next_page-present-iff-last-is", iff_ok, "required: one test of last(items) (found %d), before every page is built; on the paths through its Some edge next_page can only be Some(token) (%d value(s) examined), "
              "through its None edge only None (%d value(s) examined)%s" % (len(tests), n_some, n_none, "; found: " + "; ".join(bad) if bad else ""), (f, lbb))
    # ---- token errors propagate (`?`, match + return Err, map_err, transpose: the same flow)
    ends = L.err_flow(f, st["dest"]["l"])
    returned = [e for e in ends if e["kind"] == "returned"]
    unknown = [e for e in ends if e["kind"] != "returned"]
    passthrough = re.compile(r"convert::(From::from|Into::into)$")
    plain = all(all(t == ("from",) or (t[0] == "fn" and passthrough.search(t[1])) for t in e["transforms"]) for e in returned)
    sites = [e["bb"] for e in returned if e["bb"] is not None]
    # where the token Result (or the Result it was moved / transposed into) is split into its cases
    split = None
    for l in ends.results:
        split = result_split(f, l)
        if split:
            break
    prop = bool(returned) and not unknown and plain and split is not None
    if prop:
        after = feas.after_edge(split["switch_bb"], split["err"])
        prop = feas.must_pass_after(split["switch_bb"], split["err"], sites) and not any(b in after for b in page_sites)
    ctx.check(R, "token-error-propagates", prop,
              "the token error is returned unchanged on %d path(s), other uses of it: %s; its error edge builds no page: a token that cannot be issued is an error, not a silent end of the scan" % (
                  len(returned), [e["detail"] for e in unknown] or "none"), (f, split["switch_bb"]) if split else f)


def _slice_of_tail(f, bb):
    """Origins of the slice whose last element is read (constant index 1 from the end) in block bb."""
    out = []

    def walk(o):
        if isinstance(o, dict):
            if "l" in o and "p" in o and isinstance(o["p"], list):
                for i, e in enumerate(o["p"]):
                    if isinstance(e, dict) and e.get("cidx") == 1 and e.get("from_end"):
                        out.extend(L.trace(f, {"l": o["l"], "p": o["p"][:i]}, PLUMBING + VEC_VIEW)[0])
                return
            for v in o.values():
                walk(v)
        elif isinstance(o, list):
            for v in o:
                walk(v)
    walk(f.blocks[bb]["st"])
    walk(f.blocks[bb]["term"])
    # one origin per distinct source
    seen, uniq = set(), []
    for x in out:
        k = (x.kind, x.bb, x.proj, x.info.get("index"))
        if k not in seen:
            seen.add(k)
            uniq.append(x)
    return uniq


def r2a(ctx):
    c14.r1_codec(ctx, "C15.R2a")


def r2b(ctx):
    c14.r2_bound(ctx, "C15.R2b")


def r2c(ctx):
    c14.r5_limit(ctx, "C15.R2c")


def r2d(ctx):
    # the next-page / first-page decision reads the query parameters as sent (adversary change C15-F made every percent-escaped token a parse error)
    c14.r4_token_wins(ctx, "C15.R2d")


def r2e(ctx):
    # the first page's scan parameters are decoded by from_map exactly as sent (adversary change C15-H made from_map guess the type of
    # flattened members, so `?prefix=10` could not start a scan).  This is C09.R2.
    from . import c09
    from .lib_c01 import Renamed
    c09.r2_primitive_table(Renamed(ctx, "C15.R2e", "the scan parameters of a first-page request are decoded by the map deserialiser as the declared types from the text as sent"))


RULES = [("C15.R1", r1_results_page), ("C15.R2a", r2a), ("C15.R2b", r2b), ("C15.R2c", r2c), ("C15.R2d", r2d), ("C15.R2e", r2e)]

PG = "dropshot/src/pagination.rs"
_BUILD = "        Ok(ResultsPage { next_page, items })"
_CHAIN = """        let next_page = items
            .last()
            .map(|last_item| {
                let selector = get_page_selector(last_item, scan_params);
                serialize_page_token(selector)
            })
            .transpose()?;
"""

_SLICE_PAT = ("        let %s = items.as_slice() else {\n            return Ok(ResultsPage { next_page: None, items });\n        };\n"
              "        let token = %s;\n        Ok(ResultsPage { next_page: %s, items })")

SELFTEST = [
    {"name": "token-from-first-item", "kind": "mutant", "edits": [(PG, "            .last()\n            .map(|last_item| {", "            .first()\n            .map(|last_item| {")],
     "expect": ["C15.R1"], "why": "the next page restarts after the first item: items are visited repeatedly and the scan never ends (Appendix B)"},
    {"name": "token-error-swallowed", "kind": "mutant", "edits": [(PG, "            .transpose()?;\n\n        Ok(ResultsPage", "            .and_then(|r| r.ok());\n\n        Ok(ResultsPage")],
     "expect": ["C15.R1"], "why": "an over-long token silently ends the scan: remaining items are never visited"},
    {"name": "items-reversed", "kind": "mutant", "edits": [(PG, _BUILD, "        Ok(ResultsPage { next_page, items: items.into_iter().rev().collect() })")],
     "expect": ["C15.R1"], "why": "items are returned out of order"},
    {"name": "last-item-dropped", "kind": "mutant", "edits": [(PG, _BUILD, "        let mut items = items;\n        items.pop();\n        Ok(ResultsPage { next_page, items })")],
     "expect": ["C15.R1"], "why": "the item the token points after is never delivered"},
    {"name": "selector-of-first-element", "kind": "mutant", "edits": [(PG, "get_page_selector(last_item, scan_params);", "get_page_selector(&items[0], scan_params);")],
     "expect": ["C15.R1"], "why": "token derived from the first item of the page"},
    {"name": "no-token-for-single-item-page", "kind": "mutant", "edits": [(PG, "            .last()\n            .map(|last_item| {", "            .last()\n            .filter(|_| items.len() > 1)\n            .map(|last_item| {")],
     "expect": ["C15.R1"], "why": "a non-empty page without a token: with limit=1 the scan stops after one item"},
    {"name": "dec-rejects-ge-max", "kind": "mutant", "edits": [(PG, "if token_str.len() > MAX_TOKEN_LENGTH {", "if token_str.len() >= MAX_TOKEN_LENGTH {")],
     "expect": ["C15.R2b"], "why": "an issued token is refused: the scan cannot continue"},
    {"name": "inline-token-error-becomes-none", "kind": "mutant",
     "edits": [(PG, _CHAIN, "        let next_page = match items.last() {\n            Some(last_item) => match serialize_page_token(get_page_selector(last_item, scan_params)) {\n                Ok(token) => Some(token),\n                Err(_) => None,\n            },\n            None => None,\n        };\n")],
     "expect": ["C15.R1"], "why": "a token that cannot be issued silently ends the scan (match form of token-error-swallowed)"},
    {"name": "match-on-transposed", "kind": "benign",
     "edits": [(PG, "            .transpose()?;\n\n        Ok(ResultsPage", "            .transpose();\n        let next_page = match next_page {\n            Ok(token) => token,\n            Err(error) => return Err(error),\n        };\n\n        Ok(ResultsPage")],
     "why": "behaviour-preserving: `?` written as match + return Err"},
    {"name": "let-else-early-return", "kind": "benign",
     "edits": [(PG, _CHAIN + "\n" + _BUILD, "        let Some(last_item) = items.last() else {\n            return Ok(ResultsPage { next_page: None, items });\n        };\n        let token = serialize_page_token(get_page_selector(last_item, scan_params))?;\n        Ok(ResultsPage { next_page: Some(token), items })")],
     "why": "behaviour-preserving: let-else with an early return for the empty page; two ResultsPage literals"},
    {"name": "rename-closure-param", "kind": "benign",
     "edits": [(PG, "            .map(|last_item| {\n                let selector = get_page_selector(last_item, scan_params);", "            .map(|tail| {\n                let selector = get_page_selector(tail, scan_params);")],
     "why": "behaviour-preserving: renamed closure parameter"},
    {"name": "match-instead-of-map", "kind": "benign",
     "edits": [(PG, _CHAIN, "        let next_page = match items.last() {\n            Some(last_item) => Some(serialize_page_token(get_page_selector(last_item, scan_params))?),\n            None => None,\n        };\n")],
     "why": "behaviour-preserving: Option::map + transpose + ? written as a match"},
    {"name": "as-slice-and-len", "kind": "benign",
     "edits": [(PG, "        let next_page = items\n            .last()", "        let _n = items.len();\n        let next_page = items\n            .as_slice()\n            .last()")],
     "why": "behaviour-preserving: explicit as_slice(), an extra shared read of items"},
    {"name": "items-through-local", "kind": "benign", "edits": [(PG, _BUILD, "        let page_items = items;\n        Ok(ResultsPage { items: page_items, next_page })")],
     "why": "behaviour-preserving: items moved through a local, field order swapped in the literal"},
    {"name": "map_or-ok-none", "kind": "benign",
     "edits": [(PG, _CHAIN, "        let next_page = items.last().map_or(Ok(None), |final_item| {\n            serialize_page_token(get_page_selector(final_item, scan_params)).map(Some)\n        })?;\n"
                "        debug_assert_eq!(next_page.is_some(), !items.is_empty());\n")],
     "why": "behaviour-preserving: `.map(f).transpose()?` written as `.map_or(Ok(None), |i| f(i).map(Some))?` (the default Ok(None) is built before the test of last(items): "
            "what counts is which value next_page can have on the paths through each edge of the test), plus a debug_assert! restating the rule"},
    {"name": "token-helper-and-then", "kind": "benign",
     "edits": [(PG, _CHAIN, "        let next_page = match items.last() {\n            None => None,\n            Some(tail) => Some(Ok(get_page_selector(tail, scan_params)).and_then(serialize_page_token)?),\n        };\n")],
     "why": "behaviour-preserving: arms reordered, the token built by `Ok(selector).and_then(serialize_page_token)` (fn item as the combinator argument)"},
    {"name": "slice-pattern-let-else", "kind": "benign",
     "edits": [(PG, _CHAIN + "\n" + _BUILD, _SLICE_PAT % ("[.., tail]", "serialize_page_token(get_page_selector(tail, scan_params))?", "Some(token)"))],
     "why": "behaviour-preserving: `let [.., tail] = items.as_slice() else { return <page without token> }`: the last element is read by a constant-index projection from the end "
            "after the pattern's `len >= 1` test, not by a last() call; the rule finds the last item and the test of its existence by role"},
    {"name": "slice-pattern-first-element", "kind": "mutant", "expect": ["C15.R1"],
     "edits": [(PG, _CHAIN + "\n" + _BUILD, _SLICE_PAT % ("[tail, ..]", "serialize_page_token(get_page_selector(tail, scan_params))?", "Some(token)"))],
     "why": "twin of slice-pattern-let-else: the token is derived from the first item of the page"},
    {"name": "slice-pattern-needs-two-items", "kind": "mutant", "expect": ["C15.R1"],
     "edits": [(PG, _CHAIN + "\n" + _BUILD, _SLICE_PAT % ("[_, .., tail]", "serialize_page_token(get_page_selector(tail, scan_params))?", "Some(token)"))],
     "why": "twin of slice-pattern-let-else: the pattern needs two items, so a one-item page gets no token and the scan stops early"},
    {"name": "slice-pattern-token-error-becomes-none", "kind": "mutant", "expect": ["C15.R1"],
     "edits": [(PG, _CHAIN + "\n" + _BUILD, _SLICE_PAT % ("[.., tail]", "serialize_page_token(get_page_selector(tail, scan_params)).ok()", "token"))],
     "why": "twin of slice-pattern-let-else: a token that cannot be issued silently ends the scan"},
    {"name": "map_or-token-error-becomes-none", "kind": "mutant",
     "edits": [(PG, _CHAIN, "        let next_page = items.last().map_or(Ok::<_, HttpError>(None), |final_item| {\n            Ok(serialize_page_token(get_page_selector(final_item, scan_params)).ok())\n        })?;\n")],
     "expect": ["C15.R1"], "why": "twin of map_or-ok-none: a token that cannot be issued silently ends the scan"},
    {"name": "map_or-default-for-nonempty", "kind": "mutant",
     "edits": [(PG, _CHAIN, "        let next_page = items.last().filter(|_| items.len() > 1).map_or(Ok(None), |final_item| {\n            serialize_page_token(get_page_selector(final_item, scan_params)).map(Some)\n        })?;\n")],
     "expect": ["C15.R1"], "why": "twin of map_or-ok-none: a one-item page gets no token"},
]
LEVEL_TEXT += (" The last item and the test of its existence are found by role: `items.last()` tested as an Option, or the slice pattern `[.., x]` on items (element at constant index 1 from the end, "
               "read after the pattern's `len >= 1` test; lib_c14.emptiness_tests / indexed_reads); any other element accessor (call or projection) is reported.")
LEVEL_TEXT += " Also (R2d = C14.R4): a presented token is looked up in the owned query map and is the only thing consulted when present."
LEVEL_TEXT += " Also (R2e = C09.R2): first-page scan parameters are decoded by from_map from the text as sent."
