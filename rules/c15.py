"""C15 — following next-page tokens visits every item exactly once (structural necessary conditions only)."""
import re

from . import c14
from . import lib_c14 as L
from .lib import PLUMBING, closure_of_operand, result_split

LEVEL = "other"
TECHNIQUE = ("static analysis: variant-aware value origins of the two fields of every ResultsPage built by ResultsPage::new (token from the LAST item through Option::map+transpose or "
             "match / if let / let-else, items moved unmodified), forward flow of the token error to the return, plus the C14 codec/bound/limit decisions re-evaluated")
LEVEL_TEXT = ("Only the framework's structural necessary conditions of a complete scan are decided, on the MIR of the current tree (extracted helpers inlined): every Ok payload of "
              "ResultsPage::new is a ResultsPage aggregate whose next_page is present exactly when <[T]>::last(items) is Some (i.e. the page is non-empty) — either "
              "transpose(map(last(items), token closure)) or Some(token) built only on the Some edge / None only on the None edge of the test of last(items) — the token is the Ok payload of "
              "serialize_page_token(get_page_selector(that last item, scan_params)) and the token error flows unchanged to the return on every path of its error edge (`?` or match + return) "
              "rather than being turned into `no more pages`; `items` reaches the result unmodified (no mutable borrow, no transformation); a token issued is accepted back and yields "
              "the same selector (C14.R1/R2 re-evaluated) and the effective limit is min(client limit, max) / default (C14.R5 re-evaluated). "
              "NOT decided: termination and exactly-once coverage of a scan — they depend on the consumer's handler (its query and its selector) and on run-time histories.")
LEVEL_NOTE = ("Trusts rustc MIR, the extractor, engine slices/dominators/helper inlining, rules/lib_c14.py, absint; <[T]>::last returns the final element and is None iff the slice is empty; "
              "Option::map / transpose / `?` preserve Some-ness. The consumer's get_page_selector and its query are outside the analysed crate.")
EXPLANATION = ("ORIGIN traces (lib_c14.trace, projection- and variant-sensitive) from ResultsPage{next_page, items} back to <[T]>::last(items) and serialize_page_token; FEASIBLE-PATH dominance for "
               "the inline (match / if let / let-else) form; absence of &mut borrows on the items chain; forward ERROR FLOW of the token Result; re-evaluation of C14.R1, C14.R2 "
               "(SIBLINGS-AGREE) and C14.R5 (DECIDE) under C15 rule ids.")
TRUSTED = ["rustc nightly MIR", "mirfacts extractor", "rules/engine.py", "rules/lib_c14.py", "rules/absint.py", "core::slice::last, Option::map, Option::transpose semantics", "C14's trusted base for R2a-c"]

NEW = r"^pagination::ResultsPage::<ItemType>::new$"
PAGE_ADT = "pagination::ResultsPage"
LAST = r"^core::slice::<impl \[T\]>::last$"
FNCALL = r"^std::ops::(Fn|FnMut|FnOnce)::(call|call_mut|call_once)$"
VEC_VIEW = [r"Vec::<T, A>::as_slice$", r"^core::slice::<impl \[T\]>::iter$"]


def _origin_in_parent(f, g, node, o):
    """An origin inside closure g that is a captured variable (field k of the environment): its origins in the parent f,
    through the operands of the closure aggregate `node`.  Anything else: None."""
    if o.kind != "param" or o.info["index"] != 1 or len(o.proj) != 1 or o.proj[0][0] != "f" or node is None:
        return None
    k = o.proj[0][1]
    if k >= len(node["rv"]["ops"]):
        return None
    return L.trace(f, node["rv"]["ops"][k], PLUMBING)[0]


def r1_results_page(ctx):
    R = ctx.rule("C15.R1", "ResultsPage::new: next_page is Some exactly when <[T]>::last(items) is, its value is serialize_page_token(get_page_selector(that last item, scan_params)) "
                 "with errors propagated, and items is moved into the page unmodified", floor=8)
    f = ctx.need_fn(ctx.ds, R, NEW)
    fns = [f] + ctx.ds.descendants(f)
    fields = [fl["name"] for fl in ctx.ds.adts[PAGE_ADT]["variants"][0]["fields"]]
    # every Ok(..) the constructor returns is a ResultsPage{next_page, items} built here (one, or one per early return)
    pages, _ = L.ok_payload(f)
    aggs = [o for o in pages if o.kind == "agg" and o.info.get("adt") == PAGE_ADT and not o.proj and not o.info.get("via_map")]
    if not aggs or len(aggs) != len(pages) or "next_page" not in fields or "items" not in fields:
        ctx.lost(R, "ResultsPage{next_page, items} aggregates as the only Ok payload of ResultsPage::new (payload originates from %s)" % L.describe(pages))
        return
    i_next, i_items = fields.index("next_page"), fields.index("items")
    page_sites = [a.bb for a in aggs]
    # ---- items
    ok_items, txt = True, []
    for a in aggs:
        o, st = L.trace(f, a.info["fields"][i_items], PLUMBING)
        muts = L.mut_borrows(f, st.locals)
        ok_items = ok_items and L.only_param(o, 1) and not muts
        txt.append("%s, &mut borrows of it: %d" % (L.describe(o), len(muts)))
    ctx.check(R, "items-moved-unmodified", ok_items, "ResultsPage.items originates from %s" % "; ".join(txt), (f, aggs[0].bb))
    # ---- last()
    lasts = [(bb, t) for bb, t in f.live_calls(LAST)]
    firsts = [t["callee"] for g in fns for bb, t in g.live_calls(r"slice::<impl \[T\]>::(first|get|split_first|first_chunk)$|ops::Index::index$")]
    if len(lasts) != 1:
        ctx.lost(R, "<[T]>::last(items) in ResultsPage::new (%d call sites; other element accessors: %s)" % (len(lasts), firsts))
        return
    lbb, lt = lasts[0]
    o, _ = L.trace(f, lt["args"][0], PLUMBING + VEC_VIEW)
    ctx.check(R, "last-of-items", L.only_param(o, 1) and not firsts,
              "receiver of last() originates from %s; other element accessors in the function: %s" % (L.describe(o), firsts), (f, lbb))
    # ---- the serialize call and the selector call feeding it
    sers = [(g, bb, t) for g in fns for bb, t in g.live_calls(c14.SER)]
    if len(sers) != 1:
        ctx.lost(R, "serialize_page_token call in ResultsPage::new or its closures (%d)" % len(sers))
        return
    g, sbb, st = sers[0]
    so, _ = L.trace(g, st["args"][0], PLUMBING)
    sel = so[0] if len(so) == 1 and so[0].is_call(FNCALL) and not so[0].proj else None
    ctx.check(R, "token-is-of-the-selector", sel is not None, "serialize_page_token's argument originates from %s (must be the selector function's result)" % L.describe(so), (g, sbb))
    if sel is None:
        ctx.lost(R, "the get_page_selector(..) call feeding serialize_page_token")
        return
    cbb, ct = sel.bb, sel.node
    tup, _ = L.trace(g, ct["args"][1]) if len(ct["args"]) > 1 else ([], None)
    if len(tup) != 1 or tup[0].kind != "agg" or tup[0].info.get("agg") != "tuple" or len(tup[0].info["fields"]) != 2:
        ctx.lost(R, "argument tuple (item, scan_params) of the selector call")
        return
    o_item, _ = L.trace(g, tup[0].info["fields"][0], PLUMBING)
    o_scan, _ = L.trace(g, tup[0].info["fields"][1], PLUMBING)
    o_fn, _ = L.trace(g, ct["args"][0], PLUMBING)
    # the token value(s) stored in next_page, and how Some-ness follows last()
    nexts = []
    for a in aggs:
        nexts += [o for o in L.trace(f, a.info["fields"][i_next], PLUMBING)[0] if o not in nexts]
    feas = L.Feas(f)
    closure_node = None
    if g is not f:
        # closure form: last(items).map(|item| serialize_page_token(selector(item, scan))).transpose() -> `?` / match
        tr = [o for o in nexts if o.is_call(r"Option::<std::result::Result<T, E>>::transpose$", None, L.OK_0)]
        mp, recv = [], []
        for o in tr:
            mp += L.trace(f, o.node["args"][0], PLUMBING)[0]
        maps = [o for o in mp if o.is_call(r"Option::<T>::map$") and not o.proj and len(o.node["args"]) > 1 and closure_of_operand(f, o.node["args"][1])[0] is g]
        for o in maps:
            recv += L.trace(f, o.node["args"][0], PLUMBING + VEC_VIEW)[0]
            closure_node = closure_of_operand(f, o.node["args"][1])[1]
        shape = len(tr) == len(nexts) >= 1 and len(maps) == len(mp) == 1
        ctx.check(R, "selector-item-is-the-last-item", L.only_param(o_item, 2) and shape and L.only_call(recv, LAST, lbb, ()),
                  "selector's item argument originates from %s of the closure, which is mapped over %s" % (L.describe(o_item), L.describe(recv)), (g, cbb))
        ro, _ = L.trace(g, (0, ()), PLUMBING)
        ctx.check(R, "closure-returns-the-token", L.only_call(ro, c14.SER, sbb, ()), "closure result originates from %s (must be the serialize_page_token(..) result)" % L.describe(ro), g)
        pf = [_origin_in_parent(f, g, closure_node, x) for x in o_fn] if len(o_fn) == 1 else [None]
        ps = [_origin_in_parent(f, g, closure_node, x) for x in o_scan] if len(o_scan) == 1 else [None]
        ctx.check(R, "selector-and-scan-params-are-the-arguments", pf[0] is not None and ps[0] is not None and L.only_param(pf[0], 3) and L.only_param(ps[0], 2),
                  "the selector function is %s, its second argument %s (must be new()'s get_page_selector and scan_params)" % (
                      L.describe(pf[0] or o_fn), L.describe(ps[0] or o_scan)), (g, cbb))
        ctx.check(R, "next_page-present-iff-last-is", shape and L.only_call(recv, LAST, lbb, ()),
                  "ResultsPage.next_page originates from %s, i.e. transpose(map(%s, token closure)): Some exactly when last(items) is" % (L.describe(nexts), L.describe(recv)), (f, aggs[0].bb))
        err_local = tr[0].node["dest"]["l"] if shape else None
    else:
        # inline form: Some(token) built where last(items) is known Some, None where it is known None (match / if let / let-else)
        ctx.check(R, "selector-item-is-the-last-item", L.only_call(o_item, LAST, lbb, L.SOME_0),
                  "selector's item argument originates from %s (must be the Some payload of last(items))" % L.describe(o_item), (f, cbb))
        ctx.check(R, "selector-and-scan-params-are-the-arguments", L.only_param(o_fn, 3) and L.only_param(o_scan, 2),
                  "the selector function is %s, its second argument %s (must be new()'s get_page_selector and scan_params)" % (L.describe(o_fn), L.describe(o_scan)), (f, cbb))
        somes = [o for o in nexts if o.kind == "agg" and o.info.get("adt") == "std::option::Option" and o.info.get("variant") == "Some" and not o.proj]
        nones = [o for o in nexts if o.kind == "agg" and o.info.get("adt") == "std::option::Option" and o.info.get("variant") == "None" and not o.proj]
        tok_ok = bool(somes)
        for o in somes:
            po, _ = L.trace(f, o.info["fields"][0], PLUMBING)
            tok_ok = tok_ok and L.only_call(po, c14.SER, sbb, L.OK_0)
        ctx.check(R, "closure-returns-the-token", tok_ok, "the Some(..) payload of next_page must be the Ok payload of serialize_page_token(..) (%d Some sites)" % len(somes), (f, sbb))
        tests = [(wbb, s_t, n_t) for wbb, s_t, n_t, optop in L.option_edges(f) if L.only_call(L.trace(f, optop, PLUMBING)[0], LAST, lbb, ())]
        ok = len(tests) == 1 and bool(somes) and bool(nones) and len(somes) + len(nones) == len(nexts)
        if ok:
            wbb, s_t, n_t = tests[0]
            ok = all(feas.edge_dominates(wbb, s_t, o.bb) for o in somes) and all(feas.edge_dominates(wbb, n_t, o.bb) for o in nones) and feas.edge_dominates(wbb, s_t, sbb)
        ctx.check(R, "next_page-present-iff-last-is", ok, "next_page originates from %s: Some(token) built only where last(items) is Some (%d), None only where it is None (%d); tests of last(items): %d" % (
            L.describe(nexts), len(somes), len(nones), len(tests)), (f, lbb))
        err_local = st["dest"]["l"]
    # ---- token errors propagate (`?`, match + return Err, map_err: the same flow)
    if err_local is None:
        ctx.lost(R, "the Result carrying the token error in ResultsPage::new")
        return
    ends = L.err_flow(f, err_local)
    returned = [e for e in ends if e["kind"] == "returned"]
    unknown = [e for e in ends if e["kind"] != "returned"]
    passthrough = re.compile(r"convert::(From::from|Into::into)$")
    plain = all(all(t == ("from",) or (t[0] == "fn" and passthrough.search(t[1])) for t in e["transforms"]) for e in returned)
    sites = [e["bb"] for e in returned if e["bb"] is not None]
    split = result_split(f, err_local)
    prop = bool(returned) and not unknown and plain and split is not None
    if prop:
        after = feas.after_edge(split["switch_bb"], split["err"])
        prop = feas.must_pass_after(split["switch_bb"], split["err"], sites) and not any(b in after for b in page_sites)
    ctx.check(R, "token-error-propagates", prop,
              "the token error is returned unchanged on %d path(s), other uses of it: %s; its error edge builds no page: a token that cannot be issued is an error, not a silent end of the scan" % (
                  len(returned), [e["detail"] for e in unknown] or "none"), (f, split["switch_bb"]) if split else f)


def r2a(ctx):
    c14.r1_codec(ctx, "C15.R2a")


def r2b(ctx):
    c14.r2_bound(ctx, "C15.R2b")


def r2c(ctx):
    c14.r5_limit(ctx, "C15.R2c")


RULES = [("C15.R1", r1_results_page), ("C15.R2a", r2a), ("C15.R2b", r2b), ("C15.R2c", r2c)]

PG = "dropshot/src/pagination.rs"
_BUILD = "        Ok(ResultsPage { next_page, items })"
_CHAIN = """        let next_page = items
            .last()
            .map(|last_item| {
                let selector = get_page_selector(last_item, scan_params);
                serialize_page_token(selector)
            })
            .transpose()?;
"""

SELFTEST = [
    {"name": "token-from-first-item", "kind": "mutant", "edits": [(PG, "            .last()\n            .map(|last_item| {", "            .first()\n            .map(|last_item| {")],
     "expect": ["C15.R1"], "why": "the next page restarts after the first item: items are visited repeatedly and the scan never ends (Appendix B)"},
    {"name": "token-error-swallowed", "kind": "mutant", "edits": [(PG, "            .transpose()?;\n\n        Ok(ResultsPage", "            .and_then(|r| r.ok());\n\n        Ok(ResultsPage")],
     "expect": ["C15.R1"], "why": "an over-long token silently ends the scan: remaining items are never visited"},
    {"name": "items-reversed", "kind": "mutant", "edits": [(PG, _BUILD, "        Ok(ResultsPage { next_page, items: items.into_iter().rev().collect() })")],
     "expect": ["C15.R1"], "why": "items are returned out of order"},
    {"name": "last-item-dropped", "kind": "mutant", "edits": [(PG, _BUILD, "        let mut items = items;\n        items.pop();\n        Ok(ResultsPage { next_page, items })")],
     "expect": ["C15.R1"], "why": "the item the token points after is never delivered"},
    {"name": "selector-of-first-element", "kind": "mutant", "edits": [(PG, "get_page_selector(last_item, scan_params);", "get_page_selector(&items[0], scan_params);")],
     "expect": ["C15.R1"], "why": "token derived from the first item of the page"},
    {"name": "no-token-for-single-item-page", "kind": "mutant", "edits": [(PG, "            .last()\n            .map(|last_item| {", "            .last()\n            .filter(|_| items.len() > 1)\n            .map(|last_item| {")],
     "expect": ["C15.R1"], "why": "a non-empty page without a token: with limit=1 the scan stops after one item"},
    {"name": "dec-rejects-ge-max", "kind": "mutant", "edits": [(PG, "if token_str.len() > MAX_TOKEN_LENGTH {", "if token_str.len() >= MAX_TOKEN_LENGTH {")],
     "expect": ["C15.R2b"], "why": "an issued token is refused: the scan cannot continue"},
    {"name": "inline-token-error-becomes-none", "kind": "mutant",
     "edits": [(PG, _CHAIN, "        let next_page = match items.last() {\n            Some(last_item) => match serialize_page_token(get_page_selector(last_item, scan_params)) {\n                Ok(token) => Some(token),\n                Err(_) => None,\n            },\n            None => None,\n        };\n")],
     "expect": ["C15.R1"], "why": "a token that cannot be issued silently ends the scan (match form of token-error-swallowed)"},
    {"name": "match-on-transposed", "kind": "benign",
     "edits": [(PG, "            .transpose()?;\n\n        Ok(ResultsPage", "            .transpose();\n        let next_page = match next_page {\n            Ok(token) => token,\n            Err(error) => return Err(error),\n        };\n\n        Ok(ResultsPage")],
     "why": "behaviour-preserving: `?` written as match + return Err"},
    {"name": "let-else-early-return", "kind": "benign",
     "edits": [(PG, _CHAIN + "\n" + _BUILD, "        let Some(last_item) = items.last() else {\n            return Ok(ResultsPage { next_page: None, items });\n        };\n        let token = serialize_page_token(get_page_selector(last_item, scan_params))?;\n        Ok(ResultsPage { next_page: Some(token), items })")],
     "why": "behaviour-preserving: let-else with an early return for the empty page; two ResultsPage literals"},
    {"name": "rename-closure-param", "kind": "benign",
     "edits": [(PG, "            .map(|last_item| {\n                let selector = get_page_selector(last_item, scan_params);", "            .map(|tail| {\n                let selector = get_page_selector(tail, scan_params);")],
     "why": "behaviour-preserving: renamed closure parameter"},
    {"name": "match-instead-of-map", "kind": "benign",
     "edits": [(PG, _CHAIN, "        let next_page = match items.last() {\n            Some(last_item) => Some(serialize_page_token(get_page_selector(last_item, scan_params))?),\n            None => None,\n        };\n")],
     "why": "behaviour-preserving: Option::map + transpose + ? written as a match"},
    {"name": "as-slice-and-len", "kind": "benign",
     "edits": [(PG, "        let next_page = items\n            .last()", "        let _n = items.len();\n        let next_page = items\n            .as_slice()\n            .last()")],
     "why": "behaviour-preserving: explicit as_slice(), an extra shared read of items"},
    {"name": "items-through-local", "kind": "benign", "edits": [(PG, _BUILD, "        let page_items = items;\n        Ok(ResultsPage { items: page_items, next_page })")],
     "why": "behaviour-preserving: items moved through a local, field order swapped in the literal"},
]
