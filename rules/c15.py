"""C15 — following next-page tokens visits every item exactly once (structural necessary conditions only)."""
import re

from . import c14
from .lib import PLUMBING, callee_allow, closure_of_operand, try_edges, operand_local

LEVEL = "other"
TECHNIQUE = ("static analysis: backward slices of the two fields of the ResultsPage built by ResultsPage::new (token from the LAST item through Option::map / match, items moved unmodified, "
             "token errors propagated), plus the C14 codec/bound/limit decisions re-evaluated")
LEVEL_TEXT = ("Only the framework's structural necessary conditions of a complete scan are decided, on the MIR of the current tree: in ResultsPage::new the next_page token is present "
              "exactly when <[T]>::last(items) is Some (i.e. the page is non-empty), it is serialize_page_token(get_page_selector(that last item, scan_params)) and a token error is "
              "propagated rather than turned into `no more pages`; `items` reaches the result unmodified (no mutable borrow, no transformation); a token issued is accepted back and yields "
              "the same selector (C14.R1/R2 re-evaluated) and the effective limit is min(client limit, max) / default (C14.R5 re-evaluated). "
              "NOT decided: termination and exactly-once coverage of a scan — they depend on the consumer's handler (its query and its selector) and on run-time histories.")
LEVEL_NOTE = ("Trusts rustc MIR, the extractor, engine slices/dominators, absint; <[T]>::last returns the final element and is None iff the slice is empty; Option::map / transpose / `?` "
              "preserve Some-ness. The consumer's get_page_selector and its query are outside the analysed crate.")
EXPLANATION = ("CHAIN slices from ResultsPage{next_page, items} back to <[T]>::last(items) and serialize_page_token with short allow-lists; DOM for the inline (match) form; "
               "absence of &mut borrows on the items chain; re-evaluation of C14.R1, C14.R2 (SIBLINGS-AGREE) and C14.R5 (DECIDE) under C15 rule ids.")
TRUSTED = ["rustc nightly MIR", "mirfacts extractor", "rules/engine.py", "rules/absint.py", "core::slice::last, Option::map, Option::transpose semantics", "C14's trusted base for R2a-c"]

NEW = r"^pagination::ResultsPage::<ItemType>::new$"
PAGE_ADT = "pagination::ResultsPage"
LAST = r"^core::slice::<impl \[T\]>::last$"
FNCALL = r"^std::ops::(Fn|FnMut|FnOnce)::(call|call_mut|call_once)$"
VEC_VIEW = [r"Vec::<T, A>::as_slice$", r"^core::slice::<impl \[T\]>::iter$"]


def _mut_borrows(f, locals_):
    out = []
    for bb, i, st in f.stmts():
        rv = st["rv"]
        if rv["rv"] in ("ref", "rawptr") and rv.get("mut", rv["rv"] == "rawptr") and rv["pl"]["l"] in locals_:
            out.append(bb)
    return out


def _tuple_elem0(g, op):
    """First element operand of the argument tuple of an Fn::call."""
    l = operand_local(op)
    if l is None:
        return None
    ds = [n for bb, k, n in g.defs().get(l, []) if k == "assign" and not n["pl"]["p"]]
    if len(ds) != 1 or ds[0]["rv"]["rv"] != "agg" or ds[0]["rv"].get("agg") != "tuple" or not ds[0]["rv"]["ops"]:
        return None
    return ds[0]["rv"]["ops"][0]


def r1_results_page(ctx):
    R = ctx.rule("C15.R1", "ResultsPage::new: next_page is Some exactly when <[T]>::last(items) is, its value is serialize_page_token(get_page_selector(that last item, scan_params)) "
                 "with errors propagated, and items is moved into the page unmodified", floor=8)
    f = ctx.need_fn(ctx.ds, R, NEW)
    fns = [f] + ctx.ds.descendants(f)
    reach = f.reachable(0)
    aggs = [(bb, st) for bb, i, st in f.aggregates("^" + re.escape(PAGE_ADT) + "$") if bb in reach]
    fields = [fl["name"] for fl in ctx.ds.adts[PAGE_ADT]["variants"][0]["fields"]]
    if len(aggs) != 1 or "next_page" not in fields or "items" not in fields:
        ctx.lost(R, "the single ResultsPage{next_page, items} aggregate in ResultsPage::new (%d)" % len(aggs))
        return
    abb, ast = aggs[0]
    op_next, op_items = ast["rv"]["ops"][fields.index("next_page")], ast["rv"]["ops"][fields.index("items")]
    # ---- items
    si = f.slice(op_items)
    muts = _mut_borrows(f, si.locals())
    ctx.check(R, "items-moved-unmodified", si.params() == [1] and not si.callees and not muts and not [a for a in si.atoms if a[0] in ("const", "lit", "agg")],
              "ResultsPage.items slices to params %s, callees %s, &mut borrows of it: %d" % (si.params(), si.callee_names(), len(muts)), (f, abb))
    # ---- last()
    lasts = [(bb, t) for bb, t in f.live_calls(LAST)]
    firsts = [t["callee"] for g in fns for bb, t in g.live_calls(r"slice::<impl \[T\]>::(first|get|split_first|first_chunk)$|ops::Index::index$")]
    if len(lasts) != 1:
        ctx.lost(R, "<[T]>::last(items) in ResultsPage::new (%d call sites; other element accessors: %s)" % (len(lasts), firsts))
        return
    lbb, lt = lasts[0]
    sl = f.slice(lt["args"][0])
    bad = callee_allow(sl, PLUMBING + VEC_VIEW)
    ctx.check(R, "last-of-items", sl.params() == [1] and not bad and not firsts,
              "receiver of last() slices to params %s via %s; other element accessors in the function: %s" % (sl.params(), [b[0] for b in bad] or "Deref only", firsts), (f, lbb))
    # ---- the serialize call
    sers = [(g, bb, t) for g in fns for bb, t in g.live_calls(c14.SER)]
    if len(sers) != 1:
        ctx.lost(R, "serialize_page_token call in ResultsPage::new or its closures (%d)" % len(sers))
        return
    g, sbb, st = sers[0]
    ss = g.slice(st["args"][0])
    sel = [(c, bb, t) for c, bb, t in ss.calls(FNCALL)]
    bad = callee_allow(ss, PLUMBING + [FNCALL, LAST, r"Option::<T>::map$"] + VEC_VIEW)
    if len(sel) != 1:
        ctx.lost(R, "the get_page_selector(..) call feeding serialize_page_token (%d)" % len(sel))
        return
    ctx.check(R, "token-is-of-the-selector", not bad, "serialize_page_token's argument is the selector function's result via %s" % ([b[0] for b in bad] or "moves only"), (g, sbb))
    _, cbb, ct = sel[0]
    item = _tuple_elem0(g, ct["args"][1]) if len(ct["args"]) > 1 else None
    if item is None:
        ctx.lost(R, "argument tuple of the selector call")
        return
    s_item = g.slice(item)
    s_fn = g.slice(ct["args"][0])
    next_sl = f.slice(op_next)
    if g is not f:
        # closure form: g is passed to Option::map over last()
        maps = []
        for mbb, mt in f.live_calls(r"Option::<T>::(map|and_then)$"):
            h, _n = closure_of_operand(f, mt["args"][1])
            if h is g:
                maps.append((mbb, mt))
        if len(maps) != 1:
            ctx.lost(R, "Option::map taking the token closure (%d)" % len(maps))
            return
        mbb, mt = maps[0]
        rs = f.slice(mt["args"][0])
        badr = callee_allow(rs, PLUMBING + [LAST] + VEC_VIEW)
        ctx.check(R, "selector-item-is-the-last-item", s_item.params() == [2] and not s_item.callees and any(b == lbb for _, b, _ in rs.calls(LAST)) and not badr,
                  "selector's item argument = closure parameter (params %s, callees %s); the closure is mapped over last(items) via %s" % (s_item.params(), s_item.callee_names(), [b[0] for b in badr] or "nothing else"), (g, cbb))
        retg = g.slice({"l": 0, "p": []})
        badg = callee_allow(retg, PLUMBING + [FNCALL, c14.SER])
        ctx.check(R, "closure-returns-the-token", any(b == sbb for _, b, _ in retg.calls(c14.SER)) and not badg, "closure result is serialize_page_token(..) via %s" % ([b[0] for b in badg] or "nothing else"), g)
        # selector function & scan params are the function's own parameters
        _h, node = closure_of_operand(f, mt["args"][1])
        caps = set()
        for o in node["rv"]["ops"]:
            caps |= set(f.slice(o).params())
        ctx.check(R, "selector-and-scan-params-are-the-arguments", caps == {2, 3}, "closure captures parameters %s (scan_params, get_page_selector)" % sorted(caps), (f, mbb))
        badn = callee_allow(next_sl, PLUMBING + [LAST, r"Option::<T>::(map|and_then)$", r"Option::<std::result::Result<T, E>>::transpose$"] + VEC_VIEW)
        guarded_sites = [abb]
        ctx.check(R, "next_page-present-iff-last-is", any(b == mbb for _, b, _ in next_sl.calls(r"Option::<T>::(map|and_then)$")) and not badn,
                  "ResultsPage.next_page derives from last(items).map(token closure) via %s (Some-ness preserving)" % ([b[0] for b in badn] or "transpose and `?` only"), (f, abb))
    else:
        # inline form: match items.last() { Some(x) => Some(token(x)?), None => None }
        bads = callee_allow(s_item, PLUMBING + [LAST] + VEC_VIEW)
        ctx.check(R, "selector-item-is-the-last-item", any(b == lbb for _, b, _ in s_item.calls(LAST)) and not bads,
                  "selector's item argument is the payload of last(items) via %s" % ([b[0] for b in bads] or "nothing else"), (f, cbb))
        ctx.check(R, "selector-and-scan-params-are-the-arguments", set(s_fn.params()) | set(g.slice(ct["args"][1]).params()) >= {2, 3},
                  "selector call uses parameters %s" % sorted(set(s_fn.params()) | set(g.slice(ct["args"][1]).params())), (f, cbb))
        sw = [(b, info) for b, info in ((b, f.switch_on(b)) for b, _ in f.switches())
              if info["kind"] == "discr" and info["place"]["l"] == lt["dest"]["l"] and not info["place"]["p"]]
        if len(sw) != 1:
            ctx.lost(R, "match on last(items) (%d switches)" % len(sw))
            return
        wbb, info = sw[0]
        vidx = {n: v for v, n in info["variants"].items()}
        some_t, none_t = f.switch_target(wbb, vidx["Some"]), f.switch_target(wbb, vidx["None"])
        somes = [bb for bb, i, s in f.aggregates(r"^std::option::Option$", "Some") if bb in reach and next_sl.touches_local(s["pl"]["l"])]
        nones = [bb for bb, i, s in f.aggregates(r"^std::option::Option$", "None") if bb in reach and next_sl.touches_local(s["pl"]["l"])]
        badn = callee_allow(next_sl, PLUMBING + [LAST, FNCALL, c14.SER] + VEC_VIEW)
        ok = bool(somes) and bool(nones) and all(f.edge_dominates(wbb, some_t, b) for b in somes) and all(f.edge_dominates(wbb, none_t, b) for b in nones) \
            and not any(b in f.reachable(none_t) for b in somes) and not any(b in f.reachable(some_t) for b in nones if not f.edge_dominates(wbb, none_t, b)) and not badn \
            and f.edge_dominates(wbb, some_t, sbb)
        tok_ok = bool(somes)
        for bb, i, s_ in f.aggregates(r"^std::option::Option$", "Some"):
            if bb in somes:
                ps = f.slice(s_["rv"]["ops"][0])
                tok_ok = tok_ok and any(b == sbb for _, b, _ in ps.calls(c14.SER)) and not callee_allow(ps, PLUMBING + [LAST, FNCALL, c14.SER] + VEC_VIEW)
        ctx.check(R, "closure-returns-the-token", tok_ok, "the Some(..) payload is the `?` payload of serialize_page_token(..)", (f, sbb))
        guarded_sites = somes
        ctx.check(R, "next_page-present-iff-last-is", ok, "Some(token) built only on the Some edge of last(items) (%d), None only on the None edge (%d); other callees %s" % (len(somes), len(nones), [b[0] for b in badn]), (f, wbb))
    # ---- token errors propagate
    tries = []
    for tbb, tt in f.live_calls(r"ops::Try::branch$"):
        s = f.slice(tt["args"][0])
        if s.has_call(c14.SER) or s.has_call(r"Option::<T>::map$"):
            tries.append((tbb, tt))
    te = try_edges(f, operand_local(tries[0][1]["args"][0])) if len(tries) == 1 else None
    if not te:
        ctx.lost(R, "`?` on the token result in ResultsPage::new (%d candidates)" % len(tries))
        return
    ctx.check(R, "token-error-propagates", abb not in f.reachable(te["brk"]) and all(f.edge_dominates(te["switch_bb"], te["cont"], b) for b in guarded_sites),
              "the Break edge of the `?` builds no page and the token value exists only on its Continue edge; a token that cannot be issued is an error, not a silent end of the scan", (f, te["switch_bb"]))


def r2a(ctx):
    c14.r1_codec(ctx, "C15.R2a")


def r2b(ctx):
    c14.r2_bound(ctx, "C15.R2b")


def r2c(ctx):
    c14.r5_limit(ctx, "C15.R2c")


RULES = [("C15.R1", r1_results_page), ("C15.R2a", r2a), ("C15.R2b", r2b), ("C15.R2c", r2c)]

PG = "dropshot/src/pagination.rs"
_BUILD = "        Ok(ResultsPage { next_page, items })"
_CHAIN = """        let next_page = items
            .last()
            .map(|last_item| {
                let selector = get_page_selector(last_item, scan_params);
                serialize_page_token(selector)
            })
            .transpose()?;
"""

SELFTEST = [
    {"name": "token-from-first-item", "kind": "mutant", "edits": [(PG, "            .last()\n            .map(|last_item| {", "            .first()\n            .map(|last_item| {")],
     "expect": ["C15.R1"], "why": "the next page restarts after the first item: items are visited repeatedly and the scan never ends (Appendix B)"},
    {"name": "token-error-swallowed", "kind": "mutant", "edits": [(PG, "            .transpose()?;\n\n        Ok(ResultsPage", "            .and_then(|r| r.ok());\n\n        Ok(ResultsPage")],
     "expect": ["C15.R1"], "why": "an over-long token silently ends the scan: remaining items are never visited"},
    {"name": "items-reversed", "kind": "mutant", "edits": [(PG, _BUILD, "        Ok(ResultsPage { next_page, items: items.into_iter().rev().collect() })")],
     "expect": ["C15.R1"], "why": "items are returned out of order"},
    {"name": "last-item-dropped", "kind": "mutant", "edits": [(PG, _BUILD, "        let mut items = items;\n        items.pop();\n        Ok(ResultsPage { next_page, items })")],
     "expect": ["C15.R1"], "why": "the item the token points after is never delivered"},
    {"name": "selector-of-first-element", "kind": "mutant", "edits": [(PG, "get_page_selector(last_item, scan_params);", "get_page_selector(&items[0], scan_params);")],
     "expect": ["C15.R1"], "why": "token derived from the first item of the page"},
    {"name": "no-token-for-single-item-page", "kind": "mutant", "edits": [(PG, "            .last()\n            .map(|last_item| {", "            .last()\n            .filter(|_| items.len() > 1)\n            .map(|last_item| {")],
     "expect": ["C15.R1"], "why": "a non-empty page without a token: with limit=1 the scan stops after one item"},
    {"name": "dec-rejects-ge-max", "kind": "mutant", "edits": [(PG, "if token_str.len() > MAX_TOKEN_LENGTH {", "if token_str.len() >= MAX_TOKEN_LENGTH {")],
     "expect": ["C15.R2b"], "why": "an issued token is refused: the scan cannot continue"},
    {"name": "rename-closure-param", "kind": "benign",
     "edits": [(PG, "            .map(|last_item| {\n                let selector = get_page_selector(last_item, scan_params);", "            .map(|tail| {\n                let selector = get_page_selector(tail, scan_params);")],
     "why": "behaviour-preserving: renamed closure parameter"},
    {"name": "match-instead-of-map", "kind": "benign",
     "edits": [(PG, _CHAIN, "        let next_page = match items.last() {\n            Some(last_item) => Some(serialize_page_token(get_page_selector(last_item, scan_params))?),\n            None => None,\n        };\n")],
     "why": "behaviour-preserving: Option::map + transpose + ? written as a match"},
    {"name": "as-slice-and-len", "kind": "benign",
     "edits": [(PG, "        let next_page = items\n            .last()", "        let _n = items.len();\n        let next_page = items\n            .as_slice()\n            .last()")],
     "why": "behaviour-preserving: explicit as_slice(), an extra shared read of items"},
    {"name": "items-through-local", "kind": "benign", "edits": [(PG, _BUILD, "        let page_items = items;\n        Ok(ResultsPage { items: page_items, next_page })")],
     "why": "behaviour-preserving: items moved through a local, field order swapped in the literal"},
]
