"""C08 — converting a type's JSON Schema (schemars) to OpenAPI (openapiv3) preserves its meaning."""
import json
import re

from . import absint as A
from .lib import PLUMBING, closure_args_of_call, operand_local, root_fn
from .lib_c07 import ITER_SUMMARIES, OTHER, StrInterp
from .lib_c08 import ChainOps, Flow, Origins, closure_upvars, controllers, field_writes, gen_role, map_stores, pslice, root_of, strip_ref

LEVEL = "other"
TECHNIQUE = ("static analysis: field-sensitive interprocedural source->sink mapping of the converter extracted from MIR (projection-carrying slices that also follow accumulators "
             "filled through `&mut` in loops and private carrier structs / tuples; post-dominator control dependence; unknown helpers inlined; Option/Result combinators desugared "
             "into switches — the normalised view) and compared with a frozen table; "
             "source field list taken from the compiled schemars ADTs; decision tables extracted from the CFG: instance type -> OpenAPI type by reachability restricted to one InstanceType variant, "
             "format string -> typed format by path-sensitive facts about the string comparisons at each typed-variant construction, or — when the names live in a constant lookup table — "
             "by interpreting the lookup (rules/absint.py, strings as equality-only symbols) over the evaluated constant for every name of the table and one outside it")
LEVEL_TEXT = ("Decides, for every write of a field of an openapiv3 schema type in the call-graph closure of schema_util::j2oas_schema, exactly which fields of the compiled "
              "schemars::schema::{SchemaObject, Metadata, SubschemaValidation, NumberValidation, StringValidation, ArrayValidation, ObjectValidation} it is computed from "
              "(data flow — an iterator chain + collect and a `for` loop pushing into an accumulator are the same flow; for constant-valued flags the controlling predicates), and that this mapping equals the reviewed table: no enumerated keyword or annotation is dropped, "
              "swapped or fed from a different keyword, and (R1b) that the value travels only through value-preserving operations — no filter, comparison, arithmetic, clamp or substituted "
              "constant, helpers and closures included; every field of those source structs is mapped, selects the output kind, or is on the documented "
              "not-representable-in-OpenAPI-3.0 list (a field added by a schemars upgrade is reported); every nested schema position recurses through the converter; "
              "every built piece reaches the returned schema; openapiv3::Schema values are built only by the converter (plus the explicit free-form `Any`) and every schema "
              "placed in the document comes from it; JSON type -> OpenAPI type and the nine format names map by identity. "
              "A flag may be a constant written under the listed predicate or the stored predicate itself (`nullable = get(\"nullable\") == Some(&Bool(true))`: one `eq`, never negated, constant true). "
              "A conversion handed over as `impl Fn` / a shared closure / a function item is examined where it is applied; a private carrier enum is followed per variant. "
              "The exclusive-bound flags must be decided by the presence of the exclusive keyword (the inclusive one may take part, as in the `match (min, exclusive_min)` spelling that rejects both). "
              "Not decided: validator-level equivalence on instances, numeric narrowing (`f64 as i64`), per-value enum conversion, which polarity each flag arm writes. Also (R5): schema_extract_description replaces an allOf by its first element only under a test that the list has exactly one element. Also (R6): is_empty (which responses are published without content) answers true only after an exhaustive test of the keywords of the schema objects it looked into.")
LEVEL_NOTE = ("Trusts rustc MIR, the extractor, the slice over-approximation (extra origins can only raise alarms), std/indexmap adapter semantics "
              "(Option::map, Iterator::map/collect, clone_from, BTreeMap::get), and that openapiv3 serialises its fields under the OpenAPI keyword of the same name.")
EXPLANATION = ("TABLE by field-sensitive flow: each aggregate operand / field assignment / `&mut field` call argument of an openapiv3 ADT in the converter region is sliced backwards "
               "(through closures, parameters resolved at call sites) to owner-qualified reads of schemars fields; the per-site source set must be one the frozen table allows and every "
               "table row must be witnessed; coverage is quantified over the field list of the compiled schemars ADTs. Evaluated on the normalised view (map / map_or_else / unwrap_or_else ... "
               "are switches with the closure body in place), so a value is followed field by field through a private carrier struct, a tuple, a helper or a closure alike. "
               "TABLE from CFG for type selection (code reachable only for one InstanceType variant) and format selection (the one string test known true where a typed format variant is built). "
               "WHO-CONSTRUCTS census for openapiv3::Schema and provenance of every schema stored in the document.")
TRUSTED = ["rustc nightly MIR + type tables of schemars 0.8 / openapiv3 as compiled", "mirfacts extractor", "rules/engine.py slices, rules/lib_c08.py flow",
           "openapiv3 serde field naming", "std Option/Iterator adapters, BTreeMap::get, Clone::clone_from"]

SRC_PREFIX = "schemars::schema::"
SOURCE_ADTS = ["SchemaObject", "Metadata", "SubschemaValidation", "NumberValidation", "StringValidation", "ArrayValidation", "ObjectValidation"]
SINK_PREFIX = "openapiv3::"
ENTRY = "schema_util::j2oas_schema"
ENTRY_OBJ = "schema_util::j2oas_schema_object"

# --------------------------------------------------------------------------- frozen tables
# sink field  ->  allowed source sets (each must be witnessed by at least one write site), one reason per row.
# "-" = a write that depends on no schemars field.
MAPPING = [
    ("ReferenceOr::Reference.reference", "SchemaObject.reference", "$ref is copied verbatim"),
    ("SchemaData.title", "SchemaObject.metadata Metadata.title", "annotation: title"),
    ("SchemaData.title", "-", "the generator-supplied schema name (argument `name`) overrides the title of a named top-level schema"),
    ("SchemaData.description", "SchemaObject.metadata Metadata.description", "annotation: description"),
    ("SchemaData.default", "SchemaObject.metadata Metadata.default", "annotation: default"),
    ("SchemaData.deprecated", "SchemaObject.metadata Metadata.deprecated", "annotation: deprecated"),
    ("SchemaData.read_only", "SchemaObject.metadata Metadata.read_only", "annotation: readOnly"),
    ("SchemaData.write_only", "SchemaObject.metadata Metadata.write_only", "annotation: writeOnly"),
    ("SchemaData.extensions", "SchemaObject.extensions", "x-* extensions are preserved"),
    ("SchemaData.example", "SchemaObject.extensions", "extensions[\"example\"] -> example"),
    ("StringType.format", "SchemaObject.format", "format (typed names checked by C08.R4)"),
    ("StringType.pattern", "SchemaObject.string StringValidation.pattern", "pattern"),
    ("StringType.min_length", "SchemaObject.string StringValidation.min_length", "minLength"),
    ("StringType.max_length", "SchemaObject.string StringValidation.max_length", "maxLength"),
    ("StringType.enumeration", "SchemaObject.enum_values", "enum of a string"),
    ("StringType.enumeration", "-", "instance type null is rendered as a string whose only enum value is null"),
    ("IntegerType.format", "SchemaObject.format", "format"),
    ("IntegerType.multiple_of", "SchemaObject.number NumberValidation.multiple_of", "multipleOf"),
    ("IntegerType.minimum", "SchemaObject.number NumberValidation.minimum NumberValidation.exclusive_minimum", "minimum / exclusiveMinimum value (draft-7 numeric form -> 3.0 value+flag)"),
    ("IntegerType.maximum", "SchemaObject.number NumberValidation.maximum NumberValidation.exclusive_maximum", "maximum / exclusiveMaximum value"),
    ("IntegerType.enumeration", "SchemaObject.enum_values", "enum of an integer"),
    ("NumberType.format", "SchemaObject.format", "format"),
    ("NumberType.multiple_of", "SchemaObject.number NumberValidation.multiple_of", "multipleOf"),
    ("NumberType.minimum", "SchemaObject.number NumberValidation.minimum NumberValidation.exclusive_minimum", "minimum / exclusiveMinimum value"),
    ("NumberType.maximum", "SchemaObject.number NumberValidation.maximum NumberValidation.exclusive_maximum", "maximum / exclusiveMaximum value"),
    ("NumberType.enumeration", "SchemaObject.enum_values", "enum of a number"),
    ("BooleanType.enumeration", "SchemaObject.enum_values", "enum of a boolean"),
    ("ArrayType.items", "SchemaObject.array ArrayValidation.items", "items (single schema; tuple form is rejected loudly)"),
    ("ArrayType.min_items", "SchemaObject.array ArrayValidation.min_items", "minItems"),
    ("ArrayType.max_items", "SchemaObject.array ArrayValidation.max_items", "maxItems"),
    ("ArrayType.unique_items", "SchemaObject.array ArrayValidation.unique_items", "uniqueItems"),
    ("ObjectType.properties", "SchemaObject.object ObjectValidation.properties", "properties"),
    ("ObjectType.required", "SchemaObject.object ObjectValidation.required", "required"),
    ("ObjectType.additional_properties", "SchemaObject.object ObjectValidation.additional_properties", "additionalProperties"),
    ("ObjectType.min_properties", "SchemaObject.object ObjectValidation.min_properties", "minProperties"),
    ("ObjectType.max_properties", "SchemaObject.object ObjectValidation.max_properties", "maxProperties"),
    ("AdditionalProperties::Any.0", "SchemaObject.object ObjectValidation.additional_properties", "additionalProperties: true/false"),
    ("AdditionalProperties::Schema.0", "SchemaObject.object ObjectValidation.additional_properties", "additionalProperties: {schema}"),
    ("SchemaKind::AllOf.all_of", "SchemaObject.subschemas SubschemaValidation.all_of", "allOf"),
    ("SchemaKind::AnyOf.any_of", "SchemaObject.subschemas SubschemaValidation.any_of", "anyOf"),
    ("SchemaKind::OneOf.one_of", "SchemaObject.subschemas SubschemaValidation.one_of", "oneOf"),
    ("SchemaKind::Not.not", "SchemaObject.subschemas SubschemaValidation.not", "not"),
]
# constant-valued flags: sink -> (controlling source fields that MUST decide it, further fields that MAY, string keys on the predicate, literal values written).
# The flag of a bound is `exclusiveX is present` (draft-7 numeric form); the repo's `match (x, exclusive_x)` also looks at `x` to reject the
# combination of both loudly, a guard-clause spelling (`if both { panic }; if exclusive.is_some() { (exclusive, true) } else { (x, false) }`)
# decides the flag by `exclusive_x` alone — the panicking arm is not an alternative outcome, so `x` is optional.
FLAGS = {
    "SchemaData.nullable": ("SchemaObject.extensions SchemaObject.reference", "", ["nullable"], [True],
                            "extensions[\"nullable\"] == true -> nullable (only reached when the schema is not a bare $ref); `if test { nullable = true }` over the "
                            "default false, or `nullable = test` (both constants)"),
    "IntegerType.exclusive_minimum": ("SchemaObject.number NumberValidation.exclusive_minimum", "NumberValidation.minimum", [], [False, True], "whether exclusiveMinimum (rather than minimum) is present"),
    "IntegerType.exclusive_maximum": ("SchemaObject.number NumberValidation.exclusive_maximum", "NumberValidation.maximum", [], [False, True], "whether exclusiveMaximum (rather than maximum) is present"),
    "NumberType.exclusive_minimum": ("SchemaObject.number NumberValidation.exclusive_minimum", "NumberValidation.minimum", [], [False, True], "whether exclusiveMinimum (rather than minimum) is present"),
    "NumberType.exclusive_maximum": ("SchemaObject.number NumberValidation.exclusive_maximum", "NumberValidation.maximum", [], [False, True], "whether exclusiveMaximum (rather than maximum) is present"),
}
# string keys that must be on the data slice of a sink
KEYED = {"SchemaData.example": "example", "SchemaData.extensions": "x-"}
# sinks that only wrap other sinks (their content is checked by `delivered:`), one reason per row
WRAPPERS = {
    "Schema.schema_data": "wraps SchemaData", "Schema.schema_kind": "wraps SchemaKind",
    "SchemaKind::Type.0": "wraps Type", "SchemaKind::Any.0": "AnySchema::default() — the permissive schema",
    "Type::String.0": "wraps StringType", "Type::Number.0": "wraps NumberType", "Type::Integer.0": "wraps IntegerType",
    "Type::Object.0": "wraps ObjectType", "Type::Array.0": "wraps ArrayType", "Type::Boolean.0": "wraps BooleanType",
    "ReferenceOr::Item.0": "wraps Schema", "VariantOrUnknownOrEmpty::Item.0": "typed format (C08.R4)", "VariantOrUnknownOrEmpty::Unknown.0": "free-form format string (C08.R4)",
}
# schemars fields with no OpenAPI 3.0 counterpart (DESIGN C08.R1; none is among the property's enumerated constraints)
UNREPRESENTABLE = {
    "SchemaObject.const_value": "`const` does not exist in OpenAPI 3.0",
    "Metadata.id": "`$id` does not exist in OpenAPI 3.0",
    "Metadata.examples": "`examples` (array) does not exist on a 3.0 Schema Object; the single `example` extension is mapped",
    "ArrayValidation.additional_items": "tuple validation is not available in 3.0 (tuple `items` is rejected loudly)",
    "ArrayValidation.contains": "`contains` does not exist in 3.0",
    "ObjectValidation.pattern_properties": "`patternProperties` does not exist in 3.0",
    "ObjectValidation.property_names": "`propertyNames` does not exist in 3.0",
    "SubschemaValidation.if_schema": "`if` does not exist in 3.0",
    "SubschemaValidation.then_schema": "`then` does not exist in 3.0",
    "SubschemaValidation.else_schema": "`else` does not exist in 3.0",
}
# fields consumed by selection rather than copied
SELECTORS = {"SchemaObject.instance_type": "selects the OpenAPI type (table checked by C08.R4); an array of types is rejected loudly"}

# value-preserving operations allowed on any source -> sink chain (C08.R1b); everything else needs a per-sink reason below
CARRY_BASE = PLUMBING + [
    r"option::Option::<T>::(map|as_ref|as_deref|cloned|copied|unwrap|expect)$",     # map: the closure body is examined; unwrap/expect fail loudly
    r"option::Option::<&(mut )?T>::(cloned|copied)$",
    r"vec::Vec::<T, A>::as_slice$", r"string::String::as_str$", r"string::ToString::to_string$", r"borrow::ToOwned::to_owned$", r"clone::Clone::clone_from$",
    r"convert::(TryFrom::try_from|TryInto::try_into)$", r"result::Result::<T, E>::(unwrap|expect)$",    # checked conversion, loud on failure
    r"ops::(Fn::call|FnMut::call_mut|FnOnce::call_once)<examined-callable>$",    # applying a closure / fn item whose body is examined in place (see _qualify)
    r"convert::identity$",
    r"default::Default::default<absent>$",   # the "nothing" of an Option / flag / collection (or of a private carrier made of those) on the path where the source is
                                             # absent: the same constant as a literal `None` / `false` / `vec![]` (see _qualify)
]
# element-wise rebuilding of a collection: iterator chain + collect, or a `for` loop filling an accumulator (same elements, same order)
_COLLECT = [r"iter::Iterator::flatten<option-of-collection>$",    # `opt_vec.iter().flatten()` == `opt_vec.iter().flat_map(|v| v.iter())` (see _qualify)
            r"slice::<impl \[T\]>::iter$", r"BTreeMap::<K, V, A>::iter$", r"BTreeSet::<T, A>::iter$", r"option::Option::<T>::iter$",
            r"iter::Iterator::(map|flat_map|cloned|copied|collect)$",
            r"iter::IntoIterator::into_iter$", r"iter::Iterator::next$", r"iter::FromIterator::from_iter$",   # `Vec::from_iter(it)` == `it.collect()`
            r"(vec::Vec::<T>|indexmap::IndexMap::<K, V>|BTreeMap::<K, V>)::(new|with_capacity)$",
            r"vec::Vec::<T, A>::push$", r"(indexmap::IndexMap::<K, V, S>|BTreeMap::<K, V, A>)::insert$"]
# (`flat_map` whose closure yields an Option / Result is a filter_map: _qualify renames it, so it is not accepted here)
_RECURSE = [r"^schema_util::j2oas_schema(_object)?$", r"openapiv3::ReferenceOr::<T>::boxed_item$", r"boxed::Box::<T>::new$"]
_ENUM = _COLLECT + [r"option::Option::<T>::unwrap_or_default$", r"serde_json::Number::as_(i64|f64|u64)$",
                    r"serde_json::Value::as_(bool|number|str|i64|u64|f64)$",      # typed accessor == `match v { Value::X(p) => Some(p), _ => None }` (a None element still has to be produced, not skipped: filters are not on this list)
                    r"boxed::Box::<T>::new_uninit$", r"boxed::box_assume_init_into_vec_unsafe$"]
_FORMAT = [("ctrl-call", r"cmp::PartialEq::eq$"), r"slice::<impl \[T\]>::iter$", r"iter::Iterator::find_map$", r"cmp::PartialEq::eq$", r"bool::<impl bool>::then_some$"]
CARRY_EXTRA = {      # sink -> (extra allowed operations, reason)
    "StringType.enumeration": (_ENUM, "element-wise conversion of the enum list (null -> None, string -> Some); vec![None] for the null type"),
    "IntegerType.enumeration": (_ENUM, "element-wise conversion (as_i64().unwrap() fails loudly on a non-integer)"),
    "NumberType.enumeration": (_ENUM, "element-wise conversion"),
    "BooleanType.enumeration": (_ENUM, "element-wise conversion"),
    "StringType.format": (_FORMAT, "the format string selects a typed variant: by string tests, or by a lookup in a constant table (both decided exactly by C08.R4)"),
    "IntegerType.format": (_FORMAT, "as above"),
    "NumberType.format": (_FORMAT, "as above"),
    "ArrayType.items": (_RECURSE, "the item schema is converted recursively"),
    "ArrayType.unique_items": ([r"option::Option::<T>::unwrap_or$", r"option::Option::<T>::unwrap_or_default$"], "absent uniqueItems means false in both dialects (`unwrap_or(false)` and `unwrap_or_default()` of an Option<bool> alike)"),
    "ObjectType.properties": (_COLLECT + _RECURSE, "each property schema is converted recursively"),
    "ObjectType.required": (_COLLECT, "set -> list"),
    "ObjectType.additional_properties": (_RECURSE, "schema form is converted recursively"),
    "AdditionalProperties::Schema.0": (_RECURSE, "schema form is converted recursively"),
    "SchemaKind::AllOf.all_of": (_COLLECT + _RECURSE, "members converted recursively"),
    "SchemaKind::AnyOf.any_of": (_COLLECT + _RECURSE, "members converted recursively"),
    "SchemaKind::OneOf.one_of": (_COLLECT + _RECURSE, "members converted recursively"),
    "SchemaKind::Not.not": (_RECURSE, "converted recursively"),
    "SchemaData.example": ([r"BTreeMap::<K, V, A>::get$"], "extensions[\"example\"]"),
    "SchemaData.extensions": (_COLLECT + [r"iter::Iterator::filter$", r"str::<impl str>::starts_with$", ("ctrl-call", r"str::<impl str>::starts_with$")],
                              "only keys starting with x- are extensions in OpenAPI (filter closure or `if key.starts_with(..)` in a loop)"),
}



def _default_is_absent(ds, ty, depth=0):
    """`<ty as Default>::default()` is the value that means "no constraint": None, false, an empty collection / string,
    or a crate-local struct / tuple made only of those (a private carrier such as `struct Limits { minimum: Option<f64>,
    exclusive: bool }`).  A numeric default (0) is a substituted constant and is not accepted."""
    ty = (ty or "").strip()
    head = ty.split("<", 1)[0]
    if ty == "bool" or ty == "()" or head in ("std::option::Option", "std::vec::Vec", "std::string::String", "std::collections::BTreeMap", "std::collections::BTreeSet",
                                             "indexmap::IndexMap", "indexmap::IndexSet", "std::collections::HashMap", "std::collections::HashSet"):
        return True
    if depth > 3:
        return False
    if ty.startswith("(") and ty.endswith(")"):
        from .lib_c08 import split_top
        return all(_default_is_absent(ds, x, depth + 1) for x in split_top(ty[1:-1]))
    adt = ds.adts.get(head)
    if adt and adt.get("kind") == "struct" and adt.get("local"):
        return all(_default_is_absent(ds, fld["ty"], depth + 1) for fld in adt["variants"][0]["fields"])
    return False


def _callable_known(ds, fn, op, depth=0):
    """The callable value `op` is, on every definition, a closure of the crate or a function item (through moves, borrows and
    closure captures: `values.iter().map(|v| typed(v))` captures `&typed`)."""
    if depth > 4:
        return False
    sl = pslice(fn, op)
    known = False
    for a in sl.atoms:
        if a[0] == "fnitem" or (a[0] == "agg" and isinstance(a[1], str) and a[1] in ds.F and ds.F[a[1]].raw["kind"] == "Closure"):
            known = True
        elif a[0] == "param" and a[1] == 1 and fn.raw["kind"] == "Closure":
            k = next((int(e[1:].split(":")[0]) for e in a[2] if e.startswith("f")), None)
            sites = Flow(ds).closure_sites(fn)
            if k is None or not sites:
                return False
            for p, bb, st in sites:
                ops = st["rv"]["ops"]
                if k >= len(ops) or not _callable_known(ds, p, ops[k], depth + 1):
                    return False
            known = True
        elif a[0] in ("param", "call", "budget", "resume"):
            return False
    return known


def _make_qualify(ds):
    def qualify(fn, t):
        c = t.get("callee") or ""
        ga = t.get("gargs") or []
        if c.endswith("iter::Iterator::flatten") and ga:
            # Self = option::Iter<'_, C> / option::IntoIter<C> with C a collection: every element of the (optional) collection, in order
            m = re.match(r"^std::option::(Iter|IntoIter)<(?:'[^ ,]+,? *)?&?(?:'[^ ]+ )?(.*)>$", ga[0])
            if m and re.match(r"^(std::vec::Vec<|\[|std::collections::(BTreeSet|BTreeMap|VecDeque)<|indexmap::)", m.group(2).strip()):
                return c + "<option-of-collection>"
            return c
        if c.endswith("iter::Iterator::flat_map") and len(ga) >= 2 and re.match(r"^std::(option::Option|result::Result)<", ga[1]):
            return c + "<filtering>"        # flat_map(|x| -> Option<_>) is filter_map
        if re.search(r"ops::(Fn::call|FnMut::call_mut|FnOnce::call_once)$", c) and t.get("args"):
            # `convert(x)` with `convert: impl Fn(..)`: after helper inlining the callable is a value of the caller.  When it is
            # one of the caller's closures / a function item, its body (or name) is on the chain and examined like any other call.
            if _callable_known(ds, fn, t["args"][0]):
                return c + "<examined-callable>"
            return c
        if c.endswith("default::Default::default"):
            d = t.get("dest") or {}
            ty = fn.local_ty(d["l"]) if d and not d.get("p") else None
            if ty is None and ga:
                ty = ga[0]
            if _default_is_absent(ds, ty):
                return c + "<absent>"
        return None
    return qualify


KIND_TABLE = {"Null": "String", "Boolean": "Boolean", "Object": "Object", "Array": "Array", "Number": "Number", "String": "String", "Integer": "Integer"}
FORMAT_TABLE = {"int32": ("IntegerFormat", "Int32"), "int64": ("IntegerFormat", "Int64"), "float": ("NumberFormat", "Float"), "double": ("NumberFormat", "Double"),
                "date": ("StringFormat", "Date"), "date-time": ("StringFormat", "DateTime"), "password": ("StringFormat", "Password"),
                "byte": ("StringFormat", "Byte"), "binary": ("StringFormat", "Binary")}
SCHEMA_BUILDERS = {
    "schema_util::j2oas_schema": "Schema::Bool(true) -> the permissive Any schema",
    "schema_util::j2oas_schema_object": "the converter proper",
    "api_description::ApiDescription::<Context>::gen_openapi": "free-form (hand-rolled) response body: explicit Any schema under */*",
}


def _set(s):
    return frozenset(x for x in s.split() if x != "-")


def _sink_name(adt, variant, field):
    a = adt[len(SINK_PREFIX):] if adt.startswith(SINK_PREFIX) else adt
    if variant is None or variant == a.split("::")[-1]:
        return "%s.%s" % (a, field)
    return "%s::%s.%s" % (a, variant, field)


def _src(fields):
    out = set()
    for owner, name in fields:
        if owner.startswith(SRC_PREFIX) and owner[len(SRC_PREFIX):] in SOURCE_ADTS:
            out.add("%s.%s" % (owner[len(SRC_PREFIX):], name))
    return frozenset(out)


def _fname(ds, f):
    """Keys name the enclosing *named* function (closure numbers shift when code is edited; writes inside an
    extracted helper are seen in the caller because unknown helpers are inlined)."""
    r = root_of(ds, f)
    return r.id.split("::", 1)[-1] if r.id.startswith("schema_util::") else r.id


class _Model:
    """Everything R1/R2 need, computed once per check."""

    def __init__(self, ctx, R):
        ds = ctx.dsn      # normalised view: Option/Result combinators are switches with the closure body spliced in
        self.ds = ds
        self.entry = ctx.need_fn(ds, R, "^" + re.escape(ENTRY) + "$")
        self.entry_obj = ctx.need_fn(ds, R, "^" + re.escape(ENTRY_OBJ) + "$")
        self.region = sorted(ds.region([self.entry.id]))
        self.flow = Flow(ds, entries=[ENTRY, ENTRY_OBJ], precise=True)
        self.sites = []
        is_sink = lambda a: a.startswith(SINK_PREFIX)
        for fid in self.region:
            f = ds.F[fid]
            live = f.reachable(0)
            for adt, var, field, kind, bb, ops in field_writes(f, self.flow.tw, is_sink):
                if bb not in live:
                    continue
                o = Origins()
                for op in ops:
                    o.update(self.flow.origins(f, op))
                if (adt, field) in o.fields:
                    continue        # re-wrap / `..Default::default()`: value read from the same sink field
                oc = None
                if o.bool_lits and not _src(o.fields):
                    oc = Origins()
                    for op in ops:
                        oc.update(self.flow.origins(f, op, control=True))
                    for sb in controllers(f, bb):
                        oc.update(self.flow.origins(f, f.blocks[sb]["term"]["discr"], control=True))
                self.sites.append({"fn": f, "bb": bb, "sink": _sink_name(adt, var, field), "adt": adt, "variant": var, "kind": kind, "o": o, "oc": oc, "ops": ops})


_model_cache = {}


def _model(ctx, R):
    k = id(ctx)
    if k not in _model_cache:
        _model_cache.clear()
        _model_cache[k] = _Model(ctx, R)
    return _model_cache[k]


def _source_fields(ctx, R):
    """(ADT.field -> type) for the seven source structs, from the compiled schemars."""
    out = {}
    for a in SOURCE_ADTS:
        adt = ctx.ds.adts.get(SRC_PREFIX + a)
        if not adt or not adt["variants"]:
            ctx.lost(R, "ADT table entry of %s%s (the field list of the compiled schemars)" % (SRC_PREFIX, a))
            continue
        for fld in adt["variants"][0]["fields"]:
            out["%s.%s" % (a, fld["name"])] = fld["ty"]
    return out


# --------------------------------------------------------------------------- R1
def r1_mapping(ctx):
    R = ctx.rule("C08.R1", "every openapiv3 schema field written by the converter is computed from exactly the schemars fields the reviewed table lists (constant flags: decided by exactly "
                 "the listed predicates); every table row is witnessed; every field of the compiled schemars source structs is mapped, a selector, or documented as not representable; "
                 "every built piece reaches the returned schema", floor=150)
    m = _model(ctx, R)
    allowed = {}
    for sink, srcs, why in MAPPING:
        allowed.setdefault(sink, []).append(_set(srcs))
    witnessed = set()
    consumed = set()
    for s in m.sites:
        sink, o, f = s["sink"], s["o"], s["fn"]
        data = _src(o.fields)
        consumed |= data
        fn = _fname(m.ds, f)
        if o.unresolved & set(n.split(".")[1] for n in _source_fields_cached(ctx, R)):
            ctx.check(R, "write:%s:%s:unresolved" % (fn, sink), False,
                      "a field read named %s on the slice could not be attributed to an ADT: the mapping cannot be decided" % sorted(o.unresolved), (f, s["bb"]))
            continue
        if sink in WRAPPERS:
            continue
        if sink in FLAGS and data and _flag_by_test(m, s):
            # `flag = (lookup(key) == Some(&CONST))`: the predicate itself is stored instead of a constant written under it.
            ctrl_req, ctrl_opt, keys, vals, why = FLAGS[sink]
            oc = Origins()
            for sb in controllers(f, s["bb"]):
                oc.update(m.flow.origins(f, f.blocks[sb]["term"]["discr"], control=True))
            ctrl = data | _src(oc.fields)
            consumed |= ctrl
            ok = _set(ctrl_req) <= ctrl <= (_set(ctrl_req) | _set(ctrl_opt)) and all(k in o.lits for k in keys) and sorted(o.bool_lits) == [True]
            ctx.check(R, "flag:%s:%s" % (fn, sink), ok,
                      "%s is assigned the test `<value looked up under %s> == <constant %s>` over {%s}; table: true exactly under {%s}%s (%s)" % (
                          sink, sorted(o.lits), sorted(o.bool_lits), ", ".join(sorted(ctrl)),
                          ", ".join(sorted(_set(ctrl_req)) + ["[%s]" % x for x in sorted(_set(ctrl_opt))]), (" key %s" % keys) if keys else "", why), (f, s["bb"]))
            if ok:
                witnessed.add((sink, "flag"))
            continue
        if sink in FLAGS and not data:
            ctrl_req, ctrl_opt, keys, vals, why = FLAGS[sink]
            oc = s["oc"]
            ctrl = _src(oc.fields) if oc else frozenset()
            consumed |= ctrl
            # a flag that defaults to false may be written only on the true side (`if p { f = true }`) or on both (`f = p` lowered to two constants)
            vals_ok = sorted(o.bool_lits) == sorted(vals) or (vals == [True] and sorted(o.bool_lits) == [False, True])
            ok = _set(ctrl_req) <= ctrl <= (_set(ctrl_req) | _set(ctrl_opt)) and all(k in (oc.lits if oc else ()) for k in keys) and vals_ok
            ctx.check(R, "flag:%s:%s" % (fn, sink), ok,
                      "%s is written with constant(s) %s under predicates over {%s}%s; table: constants %s under {%s}%s (%s)" % (
                          sink, sorted(o.bool_lits), ", ".join(sorted(ctrl)), (" keys %s" % sorted(oc.lits)) if oc and oc.lits else "", vals,
                          ", ".join(sorted(_set(ctrl_req)) + ["[%s]" % x for x in sorted(_set(ctrl_opt))]), (" key %s" % keys) if keys else "", why), (f, s["bb"]))
            if ok:
                witnessed.add((sink, "flag"))
            continue
        if sink not in allowed:
            ctx.check(R, "write:%s:%s<-%s" % (fn, sink, "+".join(sorted(data)) or "-"), False,
                      "the converter writes %s, which is in neither the mapping table nor the wrapper list: unreviewed output field" % sink, (f, s["bb"]))
            continue
        ok = data in allowed[sink]
        keyok = True
        if ok and data and sink in KEYED:
            keyok = KEYED[sink] in o.lits or _key_on_guard(m, s, KEYED[sink])
        ctx.check(R, "write:%s:%s<-%s" % (fn, sink, "+".join(sorted(data)) or "-"), ok and keyok,
                  "%s is computed from {%s}%s; the table allows %s%s" % (sink, ", ".join(sorted(data)) or "no schemars field", (" with keys %s" % sorted(o.lits)) if o.lits else "",
                                                                       " or ".join("{%s}" % (", ".join(sorted(a)) or "no schemars field") for a in allowed[sink]),
                                                                       (" with key %r" % KEYED[sink]) if sink in KEYED else ""), (f, s["bb"]))
        if ok and keyok:
            witnessed.add((sink, data))
    # every table row is witnessed (a dropped mapping leaves its row without a site)
    for sink, srcs, why in MAPPING:
        ctx.check(R, "witness:%s<-%s" % (sink, "+".join(sorted(_set(srcs))) or "-"), (sink, _set(srcs)) in witnessed,
                  "table row `%s <- %s` (%s) %s by a write site of the converter" % (sink, srcs, why, "is witnessed" if (sink, _set(srcs)) in witnessed else "is NOT witnessed: this keyword is no longer translated"),
                  m.entry_obj)
    for sink in FLAGS:
        ctx.check(R, "witness:%s<-flag" % sink, (sink, "flag") in witnessed, "flag row %s (%s) %s" % (sink, FLAGS[sink][4], "is witnessed" if (sink, "flag") in witnessed else "is NOT witnessed"), m.entry_obj)
    # coverage over the compiled schemars field list
    sf = _source_fields_cached(ctx, R)
    table_srcs = set()
    for sink, srcs, why in MAPPING:
        table_srcs |= _set(srcs)
    for sink, (c, copt, k, v, w) in FLAGS.items():
        table_srcs |= _set(c)
    sel_read = _selector_reads(m)
    for name in sorted(sf):
        if name in UNREPRESENTABLE:
            ctx.check(R, "source:%s" % name, True, "documented as not representable in OpenAPI 3.0: %s" % UNREPRESENTABLE[name], m.entry_obj, nontrivial=False)
        elif name in SELECTORS:
            ctx.check(R, "source:%s" % name, name in sel_read, "%s; read by a branch of the converter: %s" % (SELECTORS[name], name in sel_read), m.entry_obj)
        elif name in table_srcs:
            ctx.check(R, "source:%s" % name, name in consumed, "schemars field %s %s" % (name, "reaches its OpenAPI field(s)" if name in consumed else "is in the table but no write site of the converter is computed from it"), m.entry_obj)
        else:
            ctx.check(R, "source:%s" % name, False,
                      "schemars field %s (type %s) is neither mapped, nor a selector, nor on the documented not-representable list: the converter would drop it silently "
                      "(new field after a dependency upgrade?)" % (name, sf[name]), m.entry_obj)
    for name in sorted(set(UNREPRESENTABLE) | set(SELECTORS) | table_srcs):
        if name not in sf:
            ctx.check(R, "source:%s" % name, False, "the table names %s but the compiled schemars has no such field: the table is stale" % name, m.entry_obj)
    # every built piece is delivered into the returned schema
    delivered = _delivered(m)
    built = sorted(set((s["adt"], s["variant"]) for s in m.sites if s["kind"] == "agg"))
    for adt, var in built:
        ctx.check(R, "delivered:%s::%s" % (adt[len(SINK_PREFIX):], var), (adt, var) in delivered,
                  "%s::%s built in the converter %s on the value returned by j2oas_schema" % (adt, var, "lies" if (adt, var) in delivered else "does NOT lie"), m.entry)


_TEST_CARRY = [r"cmp::PartialEq::eq$", r"BTreeMap::<K, V, A>::get$"]


def _flag_by_test(m, s):
    """The flag is not a constant written under a predicate but the predicate's value itself:
    `data.nullable = obj.extensions.get("nullable") == Some(&Value::Bool(true))`.  Accepted shape (decided on the
    value's slice, wherever the pieces are let-bound): the stored bool is the result of exactly one `PartialEq::eq`
    (not `ne`), nothing on the slice negates or combines it (no unary / binary operator), the only other calls are
    the map lookup and value-preserving plumbing, and the constant side is built from a boolean literal.  Which
    literal, which key and which schemars fields is then compared with the table by the caller."""
    f = s["fn"]
    if s["kind"] != "assign" or len(s["ops"]) != 1:
        return False
    sl = m.flow.slice(f, s["ops"][0])
    if any(a[0] in ("binop", "unop", "budget") for a in sl.atoms):
        return False
    base = [re.compile(x) for x in CARRY_BASE + _TEST_CARRY]
    names = [t.get("resolved") or c for c, bb, t in sl.callees]
    if sum(1 for c, bb, t in sl.callees if re.search(r"cmp::PartialEq::eq$", c)) != 1:
        return False
    if any(not any(r.search(c) for r in base) for c, bb, t in sl.callees):
        return False
    # the defining call of the stored operand is the comparison (through moves)
    l = operand_local(s["ops"][0])
    for _ in range(6):
        ds_ = f.defs().get(l, [])
        if len(ds_) != 1:
            return False
        bb, kind, node = ds_[0]
        if kind == "call":
            return bool(re.search(r"cmp::PartialEq::eq$", node.get("callee") or ""))
        if kind == "assign" and node["rv"]["rv"] == "use" and not node["pl"]["p"]:
            l = operand_local(node["rv"]["op"])
            continue
        return False
    return False


def _key_on_guard(m, s, key):
    """The key literal is not on the data slice (filter closure / map lookup) but on a predicate that guards the
    write: `for (k, v) in map { if k.starts_with("x-") { out.insert(k, v) } }`.  Accepted when a bool-returning
    call that takes the literal is established TRUE on every path to the write (path facts, so `!`, named flags
    and early `continue` are all the same)."""
    f, bb = s["fn"], s["bb"]
    atoms = []
    for sb in controllers(f, bb):
        d = m.flow.slice(f, f.blocks[sb]["term"]["discr"])
        for c, cb, ct in d.callees:
            if ct["dest"]["p"] or f.local_ty(ct["dest"]["l"]) != "bool":
                continue
            if any(key in m.flow.origins(f, a).lits for a in ct["args"]):
                atoms.append(("call", cb))
    if not atoms:
        return False
    ok, cex = f.guarded_by(bb, atoms_true=atoms)
    return ok


_sf_cache = {}


def _source_fields_cached(ctx, R):
    k = id(ctx)
    if k not in _sf_cache:
        _sf_cache.clear()
        _sf_cache[k] = _source_fields(ctx, R)
    return _sf_cache[k]


def _selector_reads(m):
    """Source fields read by switch discriminants of the converter proper."""
    out = set()
    f = m.entry_obj
    live = f.reachable(0)
    for sb, t in f.switches():
        if sb in live:
            out |= _src(m.flow.origins(f, t["discr"]).fields)
    return out


def _delivered(m):
    """(adt, variant) aggregates on the return slice of j2oas_schema, transitively through the
    crate-local callees on the slice (closures on a slice are entered by Flow.origins)."""
    seen, out = set(), set()
    work = [m.entry]
    while work:
        f = work.pop()
        if f.id in seen:
            continue
        seen.add(f.id)
        o = m.flow.origins(f, {"l": 0, "p": []})
        out |= set(a for a in o.aggs if isinstance(a[0], str) and a[0].startswith(SINK_PREFIX))
        for c in o.calls:
            g = m.ds.F.get(c)
            if g is not None and g.id in m.region:
                work.append(g)
    return out


# --------------------------------------------------------------------------- R1b
def r1b_carried_unmodified(ctx):
    R = ctx.rule("C08.R1b", "between the schemars field and the OpenAPI field a constraint value passes only through value-preserving operations (moves, clones, casts, Option::map of such, "
                 "reviewed per-field conversions); no filter, comparison, arithmetic, min/max or substituted constant — also inside crate-local helpers and closures on the chain", floor=42)
    m = _model(ctx, R)
    co = ChainOps(m.flow, no_descend=[ENTRY, ENTRY_OBJ], qualify=_make_qualify(m.ds))
    base = [re.compile(x) for x in CARRY_BASE]
    for s in m.sites:
        sink = s["sink"]
        if sink in WRAPPERS or (sink in FLAGS and (not _src(s["o"].fields) or _flag_by_test(m, s))):
            continue        # a flag is decided by C08.R1 (constants under predicates, or the stored predicate)
        f = s["fn"]
        ops = set()
        for op in s["ops"]:
            ops |= co.ops(f, op)
        extra = CARRY_EXTRA.get(sink, ([], ""))[0]
        bad = []
        for o in sorted(ops):
            kind, what = o
            if kind == "call":
                g = m.ds.F.get(what)
                if g is not None and g.raw["kind"] != "Closure" and g.raw["id"] not in (ENTRY, ENTRY_OBJ):
                    continue        # crate-local helper: its body has been examined in place of the call
                if any(r.search(what) for r in base) or any(isinstance(x, str) and re.search(x, what) for x in extra):
                    continue
                bad.append("call %s" % what)
            elif kind == "ctrl-call":
                if any(isinstance(x, tuple) and x[0] == kind and re.search(x[1], what) for x in extra):
                    continue
                bad.append("branch on %s" % what)
            else:
                bad.append("%s %s" % (kind.replace("ctrl-", "branch on "), what))
        data = _src(s["o"].fields)
        ctx.check(R, "carried:%s:%s<-%s" % (_fname(m.ds, f), sink, "+".join(sorted(data)) or "-"), not bad,
                  "%s: operations on the chain from the schemars value %s" % (sink, ("are all value-preserving / reviewed (%d)" % len(ops)) if not bad else
                                                                              ("include %s — the published constraint can differ from the type's own" % bad)), (f, s["bb"]))


# --------------------------------------------------------------------------- R2
def r2_recursion(ctx):
    R = ctx.rule("C08.R2", "every nested schema position that OpenAPI can express (items, property values, additionalProperties, allOf/anyOf/oneOf members, not) is passed to "
                 "j2oas_schema / j2oas_schema_object, and the OpenAPI field for that position is computed from the recursive call's result", floor=21)
    m = _model(ctx, R)
    sf = _source_fields_cached(ctx, R)
    nested = sorted(n for n, ty in sf.items() if "schemars::schema::Schema" in ty.replace("SchemaObject", "") and n not in UNREPRESENTABLE)
    rec_rx = r"^schema_util::j2oas_schema(_object)?$"
    fed = set()
    ncalls = 0
    for fid in m.region:
        f = m.ds.F[fid]
        for bb, t in f.live_calls(rec_rx):
            if len(t["args"]) < 2:
                continue
            o = m.flow.origins(f, t["args"][1])
            srcs = _src(o.fields)
            if not srcs and f.id == m.entry.id:
                continue    # j2oas_schema delegating its own argument to j2oas_schema_object
            ncalls += 1
            pos = sorted(s for s in srcs if s in nested)
            fed |= set(pos)
            ctx.check(R, "recursive-call:%s<-%s" % (_fname(m.ds, f), "+".join(pos) or "?"), bool(pos),
                      "recursive conversion in %s is applied to the schema(s) found at %s" % (_fname(m.ds, f), pos or "no nested schema position (cannot tell what is converted)"), (f, bb))
    for n in nested:
        ctx.check(R, "position:%s" % n, n in fed, "nested schema position %s (type %s) %s converted recursively" % (n, sf[n], "is" if n in fed else "is NOT"), m.entry_obj)
    # the sink of each nested position takes the recursive result
    for s in m.sites:
        if s["sink"] in WRAPPERS:
            continue
        data = _src(s["o"].fields)
        pos = sorted(x for x in data if x in nested)
        if not pos:
            continue
        has_rec = any(re.search(rec_rx, c) for c in s["o"].calls)
        # `ObjectType.additional_properties` wraps AdditionalProperties built in a closure: the closure's own sinks are examined separately
        ctx.check(R, "sink-from-recursion:%s:%s" % (_fname(m.ds, s["fn"]), s["sink"]), has_rec or s["sink"] == "AdditionalProperties::Any.0",
                  "%s (from %s) %s" % (s["sink"], pos, "is computed from a recursive j2oas_schema call" if has_rec else
                                      ("is the boolean form, which has no nested schema" if s["sink"] == "AdditionalProperties::Any.0" else "is NOT computed from a recursive conversion")), (s["fn"], s["bb"]))


# --------------------------------------------------------------------------- R3
def r3_single_entry(ctx):
    R = ctx.rule("C08.R3", "openapiv3::Schema values are constructed only by the converter (and the explicit free-form Any schema), and every schema stored in the document "
                 "(media types, parameters, headers, components.schemas) is the result of j2oas_schema applied to the endpoint's / generator's schemars schema", floor=11)
    ds = ctx.ds
    ctx.need_fn(ds, R, "^" + re.escape(ENTRY) + "$")
    gen = ctx.need_fn(ds, R, r"^api_description::ApiDescription::<Context>::gen_openapi$")
    n = 0
    for f in ds.F.values():
        live = None
        for bb, i, st in f.aggregates(r"^openapiv3::Schema$"):
            if live is None:
                live = f.reachable(0)
            if bb not in live:
                continue
            n += 1
            owner = root_of(ds, f).id
            ok = owner in SCHEMA_BUILDERS
            detail = "openapiv3::Schema constructed in %s: %s" % (owner, SCHEMA_BUILDERS.get(owner, "NOT a reviewed construction site — a schema that bypasses the converter"))
            if ok and owner != ENTRY_OBJ:
                fl = Flow(ds)
                k = fl.origins(f, st["rv"]["ops"][1])
                d = fl.origins(f, st["rv"]["ops"][0])
                anyk = ("openapiv3::SchemaKind", "Any") in k.aggs and not [a for a in k.aggs if a[0] == "openapiv3::SchemaKind" and a[1] != "Any"] and not _srcany(k) \
                    and any("AnySchema as std::default::Default" in c for c in k.calls)
                dd = any("SchemaData as std::default::Default" in c for c in d.calls) and not d.fields
                ok = anyk and dd
                detail += "; it is exactly {SchemaData::default(), SchemaKind::Any(AnySchema::default())}: %s" % ok
            ctx.check(R, "schema-built-in:%s" % f.id, ok, detail, (f, bb))
    ctx.check(R, "schema-construction-sites", n >= 3, "construction sites of openapiv3::Schema in the crate: %d" % n, gen, nontrivial=False)
    # provenance of every schema placed in the document
    fl = Flow(ds)
    region = [gen] + ds.descendants(gen)
    placed = 0
    for f in region:
        live = f.reachable(0)
        for bb, i, st in f.stmts():
            rv = st["rv"]
            if bb not in live or rv["rv"] != "agg" or rv.get("agg") != "adt":
                continue
            slot = None
            if rv["adt"] == "openapiv3::MediaType":
                slot = ("MediaType.schema", rv["ops"][(rv.get("fields") or ["schema"]).index("schema")])
            elif rv["adt"] == "openapiv3::ParameterSchemaOrContent" and rv.get("variant") == "Schema":
                slot = ("ParameterSchemaOrContent::Schema", rv["ops"][0])
            if slot:
                placed += 1
                _placed(ctx, R, fl, f, bb, slot[0], slot[1])
        # components.schemas[..] = v : `map.insert(k, v)` or `map.entry(k).or_insert(v)` / `.or_insert_with(|| v)`
        stores = [(bb, vop) for bb, kop, vop in map_stores(fl, f, ("openapiv3::Components", "schemas"))]
        for bb, vop in stores:
            placed += 1
            vo = fl.origins(f, vop)
            src = "generator" if any(c.endswith("into_root_schema_for") for c in vo.calls) else "definitions"
            _placed(ctx, R, fl, f, bb, "components.schemas<-%s" % src, vop)
    ctx.check(R, "placement-sites", placed >= 8, "places where a schema is stored in the document: %d" % placed, gen, nontrivial=False)


def _srcany(o):
    return bool(_src(o.fields))


def _placed(ctx, R, fl, f, bb, slot, op):
    o = fl.origins(f, op)
    conv = any(re.search(r"^schema_util::j2oas_schema$", c) for c in o.calls)
    free = ("openapiv3::SchemaKind", "Any") in o.aggs and ("openapiv3::Schema", "Schema") in o.aggs and not conv
    what = "j2oas_schema(..)" if conv else ("the explicit free-form Any schema" if free else "NEITHER the converter NOR the reviewed free-form schema")
    ctx.check(R, "placed:%s:%s%s" % (gen_role(f) if not slot.startswith("components.") else "flush", slot, ":free-form" if free else ""), conv or free,
              "schema stored in %s comes from %s" % (slot, what), (f, bb))


# --------------------------------------------------------------------------- R4
def r4_tables(ctx):
    R = ctx.rule("C08.R4", "JSON Schema instance type -> OpenAPI type and format string -> typed format are the identity tables "
                 "(null -> string with enum [null]); every InstanceType variant of the compiled schemars is handled", floor=17)
    m = _model(ctx, R)
    f = m.entry_obj
    it = ctx.ds.adts.get(SRC_PREFIX + "InstanceType")
    if not it:
        ctx.lost(R, "ADT table entry of schemars::schema::InstanceType")
        return
    # The decision is read off the CFG, not off one particular `match`: restrict every switch over an InstanceType discriminant to
    # the edge taken for variant v; the blocks reachable for v but not for every variant are v's own code (one big match, a
    # match inside an extracted helper, `(subschemas, ty)` tuple matches, two nested matches: all the same).  What is built there —
    # openapiv3::Type aggregates, or calls to crate-local functions returning a SchemaKind / Type, through their return slices —
    # is the OpenAPI type published for v.
    live = f.reachable(0)
    sws = [sb for sb, t in f.switches() for info in [f.switch_on(sb)] if info["kind"] == "discr" and info["adt"] == SRC_PREFIX + "InstanceType" and sb in live]
    if not sws:
        ctx.lost(R, "a switch over InstanceType in j2oas_schema_object (helpers inlined)")
        return
    reach = {}
    for idx, v in enumerate(it["variants"]):
        avoid = [(sb, to) for sb in sws for to in f.succ(sb) if to != f.switch_target(sb, idx)]
        reach[idx] = set(b_ for b_ in f.reachable(0, avoid_edges=avoid) if not f.blocks[b_]["cleanup"])
    common = set.intersection(*reach.values()) if reach else set()
    for idx, v in enumerate(it["variants"]):
        name = v["name"]
        own = reach[idx] - common
        got = set()
        explicit = any(val == idx for sb in sws for val, to in f.blocks[sb]["term"]["targets"])
        for bb, i, st in f.stmts():
            rv = st["rv"]
            if bb not in own or rv["rv"] != "agg" or rv.get("agg") != "adt":
                continue
            if rv["adt"] == "openapiv3::Type":
                got.add(rv.get("variant"))
            elif rv["adt"] == "openapiv3::SchemaKind" and rv.get("variant") != "Type":
                got.add("kind:%s" % rv.get("variant"))
        for bb, t in f.calls():
            if bb not in own or t["dest"]["p"] or f.local_ty(t["dest"]["l"]) not in ("openapiv3::SchemaKind", "openapiv3::Type"):
                continue
            g = m.ds.F.get(t.get("callee") or "")
            if g is None:
                got.add("?call:%s" % t.get("callee"))
                continue
            o = m.flow.origins(g, {"l": 0, "p": []})
            got |= set(a_[1] for a_ in o.aggs if a_[0] == "openapiv3::Type")
            got |= set("kind:" + a_[1] for a_ in o.aggs if a_[0] == "openapiv3::SchemaKind" and a_[1] != "Type")
        exp = KIND_TABLE.get(name)
        ctx.check(R, "type:%s" % name, explicit and exp is not None and got == {exp},
                  "instance type %s -> %s; table: %s%s" % (name, sorted(got) or "nothing built on the code specific to that type", exp or "(variant unknown to the table: new schemars instance type)",
                                                           "" if explicit else " [no explicit arm]"), (f, sws[0]))
    # null is a string whose only enum value is null
    null_sites = [s for s in m.sites if s["sink"] == "StringType.enumeration" and s["fn"].id == f.id]
    ctx.check(R, "type:Null:enum-null", len(null_sites) == 1 and ("std::option::Option", "None") in null_sites[0]["o"].aggs and not _src(null_sites[0]["o"].fields),
              "the null type's string carries a constant enumeration built from `None` (JSON null)", f)
    # format tables — derived from where the string constants are compared: every construction site of a typed-format variant
    # (StringFormat::Date ...) must lie on paths where exactly one `<schema's format> == "<literal>"` test is known TRUE (match arm on
    # the &str, `if f == ".."`, guard, named flag, a helper returning Option<StringFormat>: the same path facts), the pair
    # (literal, variant) must be the table's, and the typed variants are what the `Item(..)` format values are built from.
    seen = {}
    fmt_rx = r"^openapiv3::(String|Number|Integer)Format$"
    built, delivered_fmt = {}, set()
    for fid in m.region:
        g = m.ds.F[fid]
        live = g.reachable(0)
        tests = []
        for bb, t in g.live_calls(r"cmp::PartialEq::eq$"):
            if len(t["args"]) != 2:
                continue
            # the literal side: an operand whose slice is one string literal and no schemars field
            sides = []
            for a in t["args"]:
                oa = m.flow.origins(g, a)
                sides.append((a, oa.lits if not _src(oa.fields) and not oa.roots else set()))
            lit_sides = [(a, l) for a, l in sides if len(l) == 1]
            if len(lit_sides) != 1:
                continue
            other = [a for a, l in sides if a is not lit_sides[0][0]]
            tests.append((sorted(lit_sides[0][1])[0], other[0] if other else None, bb))
        for bb, i, st in g.aggregates(fmt_rx):
            if bb not in live:
                continue
            fmt = (st["rv"]["adt"].split("::")[-1], st["rv"].get("variant"))
            built.setdefault(fmt, []).append((g, bb))
            states = g.bool_states_at(bb)
            doms = [(lit, cbb, oth) for lit, oth, cbb in tests if states and all(fs.get(("call", cbb)) is True for fs in states)]
            if len(doms) != 1:
                ctx.check(R, "format-site:%s:%s::%s" % (_fname(m.ds, g), fmt[0], fmt[1]), False,
                          "typed format %s::%s is built where %d string tests are known true (expected exactly one: the format name)%s" % (
                              fmt[0], fmt[1], len(doms), "" if states is not None else " [path-state budget exceeded]"), (g, bb))
                continue
            lit, sbb, oth = doms[0]
            from_format = oth is not None and "SchemaObject.format" in _src(m.flow.origins(g, oth).fields)
            exp = FORMAT_TABLE.get(lit)
            ok = exp == fmt and from_format and seen.get(lit, fmt) == fmt
            seen[lit] = fmt
            ctx.check(R, "format:%s" % lit, ok,
                      "format %r -> %s::%s (table: %s); the tested string is the schema's `format`: %s" % (lit, fmt[0], fmt[1], "::".join(exp) if exp else "not in table", from_format), (g, bb))
        for bb, i, st in g.aggregates(r"^openapiv3::VariantOrUnknownOrEmpty$", "Item"):
            if bb not in live:
                continue
            o = m.flow.origins(g, st["rv"]["ops"][0])
            fmts = sorted((a[0].split("::")[-1], a[1]) for a in o.aggs if a[0].startswith("openapiv3::") and a[0].endswith("Format"))
            delivered_fmt |= set(fmts)
            if not fmts:
                # no variant is constructed on the way: the typed value may be the hit of a lookup in a constant table
                # (`KNOWN.iter().find_map(|&(name, v)| (name == format).then_some(v))`); decided by interpreting the lookup
                lk = _table_lookup(m, g, st["rv"]["ops"][0])
                if lk is not None:
                    table, decided, from_format, problem = lk
                    ctx.check(R, "format-item:%s:table:%s" % (_fname(m.ds, g), table.split("::")[-1]), problem is None,
                              "the typed format published here is the hit of a lookup in constant table %s: %s" % (table, problem or "interpreted for every name of the table and for a name outside it"), (g, bb))
                    if problem is None:
                        for lit, fmt in sorted(decided.items(), key=lambda kv: str(kv[0])):
                            if lit == OTHER:
                                ctx.check(R, "format-table-miss:%s" % table.split("::")[-1], fmt is None,
                                          "a format name that is not in %s yields %s (expected: no typed variant, the name is kept as Unknown)" % (table, "::".join(fmt) if fmt else "no hit"), (g, bb))
                                continue
                            exp = FORMAT_TABLE.get(lit)
                            ok = fmt is not None and exp == fmt and from_format and seen.get(lit, fmt) == fmt
                            if fmt is not None:
                                seen[lit] = fmt
                                delivered_fmt.add(fmt)
                            ctx.check(R, "format:%s" % lit, ok,
                                      "format %r -> %s by lookup in %s (table: %s); the string looked up is the schema's `format`: %s" % (
                                          lit, "::".join(fmt) if fmt else "no hit", table, "::".join(exp) if exp else "not in table", from_format), (g, bb))
                    continue
            # a typed format value that is not one of the examined variant constructions (parsed, transmuted, returned by a foreign call ...)
            ctx.check(R, "format-item:%s:%s" % (_fname(m.ds, g), "+".join("%s::%s" % x for x in fmts) or "?"), bool(fmts),
                      "the typed format published here is %s" % ("one of the examined constructions %s" % fmts if fmts else "NOT built from a StringFormat / NumberFormat / IntegerFormat variant the check can see"), (g, bb))
    for fmt in sorted(built):
        if fmt not in delivered_fmt:
            g, bb = built[fmt][0]
            ctx.check(R, "format-delivered:%s::%s" % fmt, False, "%s::%s is built but never reaches a published `format` (VariantOrUnknownOrEmpty::Item)" % fmt, (g, bb))
    for lit in FORMAT_TABLE:
        if lit not in seen:
            ctx.check(R, "format:%s" % lit, False, "format %r is no longer translated to %s" % (lit, "::".join(FORMAT_TABLE[lit])), m.entry_obj)


def _table_lookup(m, g, op):
    """`op` (in g) is the payload of the hit of `<constant table>.iter().find_map(<closure>)` and nothing else.
    Returns None when it is not that shape at all, else (table path, {name | OTHER: (FormatAdt, Variant) | None}, the string looked up
    comes from SchemaObject.format, problem | None).  The lookup is *interpreted* (rules/absint.py through lib_c07.StrInterp: strings are
    symbols that can only be compared for equality) over the evaluated constant for every name in the table and one name outside it,
    so what the closure does — `(k == name).then_some(v)`, `if name == k { Some(v) } else { None }`, a negated test — is decided, not matched."""
    ds = m.ds
    sl = m.flow.slice(g, op, stop_at_calls=r"iter::Iterator::find_map$")
    fm = [(c, bb, t) for c, bb, t in sl.callees if re.search(r"iter::Iterator::find_map$", c)]
    if len(fm) != 1:
        return None
    if len(sl.callees) != 1 or any(a[0] in ("agg", "binop", "unop", "lit", "const", "param", "fnitem", "budget") for a in sl.atoms):
        return None         # something else than moves between the hit and the published value
    t = fm[0][2]
    if len(t["args"]) != 2:
        return None
    # the iterator itself (not what `find_map(&mut it, ..)` does to it): plain definitions only
    isl = pslice(g, t["args"][0], mutations=False)
    tables = []
    for path, v in [(a[1], a[2]) for a in isl.atoms if a[0] == "const"]:
        try:
            d = json.loads(v)
        except Exception:
            d = None
        if isinstance(d, dict) and isinstance(d.get("list"), list):
            tables.append((path, d["list"]))
    if len(tables) != 1:
        return None
    path, rows = tables[0]
    icalls = sorted(set(c for c, cb, ct in isl.callees))
    iter_ok = all(re.search(r"(slice::<impl \[T\]>::iter|iter::IntoIterator::into_iter|ops::Deref::deref|convert::AsRef::as_ref)$", c) for c in icalls)
    if not iter_ok or any(a[0] in ("param", "agg", "binop", "unop", "fnitem", "budget") for a in isl.atoms):
        return (path, {}, False, "the iterator searched is not simply the table's elements in order (calls on it: %s)" % icalls)
    pairs = []
    for r in rows:
        tup = r.get("tuple") if isinstance(r, dict) else None
        if not tup or len(tup) != 2 or "str" not in (tup[0] or {}) or not isinstance(tup[1], dict) or "variant" not in tup[1]:
            return (path, {}, False, "a row of the table is not a (string, field-less enum value) pair: %r" % (r,))
        pairs.append((tup[0]["str"], tup[1]["adt"], tup[1]["variant"]))
    clos = closure_args_of_call(g, t)
    if len(clos) != 1:
        return (path, {}, False, "the lookup predicate is not one closure of the crate")
    cf, node = clos[0]
    ups = closure_upvars(strip_ref(cf.local_ty(1)) or cf.local_ty(1)) or []
    caps = node["rv"]["ops"]
    from_format = False
    cap_depth = []
    for k, cop in enumerate(caps):
        co = m.flow.origins(g, cop)
        ty = ups[k] if k < len(ups) else ""
        depth = 0
        while strip_ref(ty) is not None:
            depth, ty = depth + 1, strip_ref(ty)
        if "SchemaObject.format" in _src(co.fields) and ty.strip() == "str" and depth >= 1:
            from_format = True
            cap_depth.append(depth)
        else:
            return (path, {}, False, "the lookup closure captures something else than the format string (capture %d: %s)" % (k, ups[k] if k < len(ups) else "?"))
    decided = {}
    for name in [s_ for s_, a_, v_ in pairs] + [OTHER]:
        if name in decided:
            continue
        try:
            it = StrInterp(ds)
            # (an enum nobody constructs or matches on is not in the ADT table: its values are only copied, any distinct index will do)
            vix = lambda a_, v_: it.vidx(a_, v_) if a_ in ds.adts else 1000 + sorted(set(p_[2] for p_ in pairs)).index(v_)
            elems = [A.V_tuple([StrInterp.string(s_), A.V_enum(a_, vix(a_, v_), v_, [])]) for s_, a_, v_ in pairs]
            iterv = ("struct", "#iter", [A.V_tuple([A.V_ref(A.Cell(x)) for x in elems]), A.V_int(0)])
            cv = []
            for d_ in cap_depth:
                v = StrInterp.string(name)
                for _ in range(d_ - 1):
                    v = A.V_ref(A.Cell(v))
                cv.append(v)
            r = it.deref_all(ITER_SUMMARIES["std::iter::Iterator::find_map"](it, [A.V_ref(A.Cell(iterv)), ("closure", cf.raw["id"], cv)], t))
            bad = sorted(set(o_ for o_, x, y in it.cmp_log if o_.lower() not in ("eq", "ne")))
            if bad:
                raise A.LeavesFragment("the names are ordered (%s), not compared for equality" % ",".join(bad))
            if r is None or r[0] != "enum" or r[1] != "std::option::Option":
                raise A.LeavesFragment("the lookup does not yield an Option")
            if r[3] == "None":
                decided[name] = None
            else:
                pv = it.deref_all(r[4][0])
                if pv is None or pv[0] != "enum":
                    raise A.LeavesFragment("the hit is not an enum value")
                decided[name] = (pv[1].split("::")[-1], pv[3])
        except A.LeavesFragment as e:
            return (path, {}, from_format, "the lookup closure %s cannot be interpreted: %s" % (cf.id, e))
    return (path, decided, from_format, None)


def r5_lone_allof_only(ctx):
    """Added after adversary change C08-L (the `(Some(subschema), 1)` arm of schema_extract_description became `if let Some(subschema) =
    subschemas.first()`: a parameter or header member documented as `allOf: [A, B]` was published as just `A`, dropping B's limits).  The
    helper every parameter / header member passes through before conversion replaces an `allOf` by its first element only when that is its
    only element."""
    R = ctx.rule("C08.R5", "schema_extract_description hands back the first element of an allOf in place of the schema only under a test that the allOf has exactly one element", floor=1)
    f = ctx.need_fn(ctx.ds, R, r"^schema_util::schema_extract_description$")
    firsts = r"slice::<impl \[T\]>::first$|slice::<impl \[T\]>::get$|ops::Index::index$|Iterator::next$|slice::<impl \[T\]>::iter$|Vec::<T, A>::pop$|Vec::<T, A>::remove$"
    # locals that borrow one element of a slice through a slice pattern (`[only]`, `[first, ..]`: a constant index)
    elem_refs = set(st["pl"]["l"] for bb, i, st in f.stmts() if st["rv"]["rv"] == "ref" and any(isinstance(e, dict) and "cidx" in e for e in st["rv"]["pl"]["p"]))
    sites = [(bb, t) for bb, t in f.live_calls(r"clone::Clone::clone$")
             if f.slice(t["args"][0]).has_call(firsts) or any(f.slice(t["args"][0]).touches_local(l) for l in elem_refs)]

    def is_one(o):
        if o.get("k") == "const":
            return (o.get("val") or {}).get("int") == 1
        sl1 = f.slice(o)
        lits = [a for a in sl1.atoms if a[0] == "lit"]
        return not sl1.callees and not sl1.params() and len(lits) == 1 and '"int": 1,' in lits[0][1] + ","
    # an element reached through a slice pattern `[only]` has no call on the way; its guard is the same length test
    guards = []
    for sbb, t in f.switches():
        d = t["discr"]
        if d.get("k") not in ("copy", "move"):
            continue
        sl = f.slice(d)
        if sl.has_call(r"::len$") or any(a[0] == "len" or (a[0] == "unop" and a[1] == "PtrMetadata") for a in sl.atoms):
            for v, tgt in t["targets"]:
                if v == 1 and f.local_ty(d["pl"]["l"]) != "bool" or (v == 1 and d["pl"]["p"]):
                    guards.append((sbb, tgt))
            # `len == 1` / `1 == len`
            if f.local_ty(d["pl"]["l"]) == "bool" and not d["pl"]["p"]:
                for dbb, kind, node in f.defs().get(d["pl"]["l"], []):
                    if kind == "assign" and node["rv"]["rv"] == "binop" and node["rv"]["op"] == "Eq" and any(is_one(o) for o in (node["rv"]["a"], node["rv"]["b"])):
                        tb, fb = f.bool_edges(sbb)
                        if tb is not None:
                            guards.append((sbb, tb))
    ctx.check(R, "first-element-sites", len(sites) >= 1, "places where schema_extract_description clones an element of the allOf list: %d" % len(sites), f, nontrivial=False)
    for n, (bb, t) in enumerate(sites):
        ok = any(f.edge_dominates(sbb, tgt, bb) for sbb, tgt in guards)
        ctx.check(R, "unwrapped-only-when-alone#%d" % n, ok, "the element is taken only on the `length is 1` edge of a test of the allOf list's length (length tests found: %d): %s" % (len(guards), ok), (f, bb))


def r6_void_schema_test_is_exhaustive(ctx):
    """Added after adversary change C08-M (the inner pattern of `is_empty` for `not: {..}` was "simplified" to `SchemaObject { instance_type:
    None, subschemas: None, .. }`: a response whose schema is `not: {$ref: ..}` / `not: {enum: ..}` was classed as the void schema and
    published without content).  is_empty decides which response schemas are dropped from the document, so it may answer true only for the
    schemas that match nothing: wherever it answers true after looking at some validation keyword of a schema object, it has looked at all
    of them (a keyword that is not looked at can be present, and then the schema is not the one the pattern describes)."""
    R = ctx.rule("C08.R6", "api_description::is_empty answers true only on paths that tested every validation keyword of each schema object (and every member of each "
                 "subschema group) they looked into: the void schema is recognised by an exhaustive pattern, not by a sample of its fields", floor=2)
    ds = ctx.ds
    f = ctx.need_fn(ds, R, r"^api_description::is_empty$")
    sites = [bb for bb, i, st in f.stmts() if st["pl"] == {"l": 0, "p": []} and st["rv"]["rv"] == "use" and st["rv"]["op"].get("k") == "const"
             and (st["rv"]["op"].get("val") or {}).get("int") == 1 and bb in f.reachable(0)]
    ctx.check(R, "true-sites", len(sites) >= 1, "places where is_empty answers true: %d" % len(sites), f, nontrivial=False)
    groups = {}
    for adt, skip in (("schemars::schema::SchemaObject", {"metadata", "extensions"}), ("schemars::schema::SubschemaValidation", set())):
        a = ds.adts.get(adt)
        if a:
            groups[adt] = set(x["name"] for x in a["variants"][0]["fields"]) - skip
    if len(groups) != 2:
        ctx.lost(R, "the field lists of schemars' SchemaObject / SubschemaValidation")
        return
    tests = []      # (switch bb, root local, field name, {value: target})
    for sbb, t in f.switches():
        info = f.switch_on(sbb)
        if info.get("kind") != "discr":
            continue
        pl = info["place"]
        names = [e.get("n") for e in pl["p"] if isinstance(e, dict) and "f" in e and e.get("n") is not None]
        if names:
            tests.append((sbb, pl["l"], names[-1], dict((v, tg) for v, tg in t["targets"])))
    for n, site in enumerate(sorted(sites)):
        seen = {}
        for sbb, root, name, tg in tests:
            if any(f.edge_dominates(sbb, tgt, site) for tgt in tg.values()):
                seen.setdefault(root, set()).add(name)
        missing = []
        for root, names in sorted(seen.items()):
            for adt, want in groups.items():
                if names & want and not want <= names and (len(names & want) >= 2 or adt.endswith("SubschemaValidation")):
                    missing.append("%s of local %d: not tested %s" % (adt.split("::")[-1], root, sorted(want - names)))
        ctx.check(R, "true-answer-after-exhaustive-tests#%d" % n, not missing, "keyword tests on the way to this `true`: %s%s" % (
            {r: len(v) for r, v in sorted(seen.items())} or "none (a constant-schema arm)", ("; " + "; ".join(missing)) if missing else ""), (f, site))


RULES = [("C08.R6", r6_void_schema_test_is_exhaustive), ("C08.R5", r5_lone_allof_only), ("C08.R1", r1_mapping), ("C08.R1b", r1b_carried_unmodified), ("C08.R2", r2_recursion), ("C08.R3", r3_single_entry), ("C08.R4", r4_tables)]

SU = "dropshot/src/schema_util.rs"
_EXT = "    data.extensions = obj\n        .extensions\n        .iter()\n        .filter(|(key, _)| key.starts_with(\"x-\"))\n        .map(|(key, value)| (key.clone(), value.clone()))\n        .collect();\n"
_PROPS = ("                properties: obj\n                    .properties\n                    .iter()\n                    .map(|(prop, schema)| {\n                        (\n                            prop.clone(),\n"
          "                            box_reference_or(j2oas_schema(None, schema)),\n                        )\n                    })\n                    .collect::<_>(),\n")
_INT_LIMITS = ("    let (multiple_of, minimum, exclusive_minimum, maximum, exclusive_maximum) =\n        match number {\n            None => (None, None, false, None, false),\n            Some(number) => {\n"
               "                let multiple_of = number.multiple_of.map(|f| f as i64);\n                let (minimum, exclusive_minimum) =\n                    match (number.minimum, number.exclusive_minimum) {\n"
               "                        (None, None) => (None, false),\n                        (Some(f), None) => (Some(f as i64), false),\n                        (None, Some(f)) => (Some(f as i64), true),\n"
               "                        _ => panic!(\"invalid\"),\n                    };\n                let (maximum, exclusive_maximum) =\n                    match (number.maximum, number.exclusive_maximum) {\n"
               "                        (None, None) => (None, false),\n                        (Some(f), None) => (Some(f as i64), false),\n                        (None, Some(f)) => (Some(f as i64), true),\n"
               "                        _ => panic!(\"invalid\"),\n                    };\n\n                (\n                    multiple_of,\n                    minimum,\n                    exclusive_minimum,\n"
               "                    maximum,\n                    exclusive_maximum,\n                )\n            }\n        };\n")
_INT_LIMITS_CARRIER = ("    let limits = number.as_deref().map_or_else(IntLimits::default, |validation| {\n        let (minimum, exclusive_minimum) = int_bound(validation.minimum, validation.exclusive_minimum);\n"
                       "        let (maximum, exclusive_maximum) = int_bound(validation.maximum, validation.exclusive_maximum);\n"
                       "        IntLimits { multiple_of: validation.multiple_of.map(|f| f as i64), minimum, exclusive_minimum, maximum, exclusive_maximum }\n    });\n")
_INT_FIELDS = ("            format,\n            multiple_of,\n            exclusive_minimum,\n            exclusive_maximum,\n            minimum,\n            maximum,\n            enumeration,\n        },\n    ))\n}\n\nfn j2oas_number(")
_INT_CARRIER_DEFS = ("\n#[derive(Default)]\nstruct IntLimits {\n    multiple_of: Option<i64>,\n    minimum: Option<i64>,\n    exclusive_minimum: bool,\n    maximum: Option<i64>,\n    exclusive_maximum: bool,\n}\n\n"
                     "fn int_bound(inclusive: Option<f64>, exclusive: Option<f64>) -> (Option<i64>, bool) {\n    if inclusive.is_some() && exclusive.is_some() {\n        panic!(\"invalid\");\n    }\n"
                     "    if exclusive.is_some() {\n        return (exclusive.map(|f| f as i64), true);\n    }\n    (inclusive.map(|f| f as i64), false)\n}\n\nfn j2oas_number(")


def _int_fields(minimum="limits.minimum", maximum="limits.maximum"):
    return ("            format,\n            multiple_of: limits.multiple_of,\n            exclusive_minimum: limits.exclusive_minimum,\n            exclusive_maximum: limits.exclusive_maximum,\n"
            "            minimum: %s,\n            maximum: %s,\n            enumeration,\n        },\n    ))\n}\n" % (minimum, maximum)) + _INT_CARRIER_DEFS


_INT_FORMAT = ("    let format = match format.as_ref().map(|s| s.as_str()) {\n        None => openapiv3::VariantOrUnknownOrEmpty::Empty,\n        Some(\"int32\") => openapiv3::VariantOrUnknownOrEmpty::Item(\n"
               "            openapiv3::IntegerFormat::Int32,\n        ),\n        Some(\"int64\") => openapiv3::VariantOrUnknownOrEmpty::Item(\n            openapiv3::IntegerFormat::Int64,\n        ),\n"
               "        Some(other) => {\n            openapiv3::VariantOrUnknownOrEmpty::Unknown(other.to_string())\n        }\n    };\n\n    let (multiple_of, minimum, exclusive_minimum, maximum, exclusive_maximum) =\n"
               "        match number {\n            None => (None, None, false, None, false),\n            Some(number) => {\n                let multiple_of = number.multiple_of.map(|f| f as i64);")
_INT_FORMAT_VIA_HELPER = ("    let format = format.as_deref().map_or(openapiv3::VariantOrUnknownOrEmpty::Empty, |f| {\n        known_int_format(f)\n            .map(openapiv3::VariantOrUnknownOrEmpty::Item)\n"
                          "            .unwrap_or_else(|| openapiv3::VariantOrUnknownOrEmpty::Unknown(f.to_owned()))\n    });\n\n    let (multiple_of, minimum, exclusive_minimum, maximum, exclusive_maximum) =\n"
                          "        match number {\n            None => (None, None, false, None, false),\n            Some(number) => {\n                let multiple_of = number.multiple_of.map(|f| f as i64);")


def _int_format_helper(i32="Int32"):
    return ("fn known_int_format(f: &str) -> Option<openapiv3::IntegerFormat> {\n    match f {\n        \"int64\" => Some(openapiv3::IntegerFormat::Int64),\n        \"int32\" => Some(openapiv3::IntegerFormat::%s),\n"
            "        _ => None,\n    }\n}\n\nfn j2oas_number(\n" % i32)


_BOOL_ENUM = ("            let enumeration = obj\n                .enum_values\n                .as_ref()\n                .map(|values| {\n                    values\n                        .iter()\n"
              "                        .map(|vv| match vv {\n                            serde_json::Value::Null => None,\n                            serde_json::Value::Bool(b) => Some(*b),\n"
              "                            _ => {\n                                panic!(\"unexpected enumeration value {:?}\", vv)\n                            }\n                        })\n"
              "                        .collect::<Vec<_>>()\n                })\n                .unwrap_or_default();\n")
_INT_ENUM = ("        .flat_map(|v| {\n            v.iter().map(|vv| match vv {\n                serde_json::Value::Null => None,\n                serde_json::Value::Number(value) => {\n"
             "                    Some(value.as_i64().unwrap())\n                }\n                _ => panic!(\"unexpected enumeration value {:?}\", vv),\n            })\n        })\n")
# --- third hardening round (shapes of benign/C08-R9..R11, C06-R12, C07-R10), each with a breaking twin
_NULLABLE_IF = "    if matches!(\n        &obj.extensions.get(\"nullable\"),\n        Some(serde_json::Value::Bool(true))\n    ) {\n        data.nullable = true;\n    }\n"


def _nullable_test(op="==", lit="true"):
    return "    data.nullable = obj.extensions.get(\"nullable\") %s Some(&serde_json::Value::Bool(%s));\n" % (op, lit)


_INT_ENUM_FULL = "    let enumeration = enum_values\n        .iter()\n" + _INT_ENUM + "        .collect::<Vec<_>>();\n"


def _int_enum_generic(convert="value.as_i64().unwrap()"):
    return "    let enumeration = j2oas_enumeration(enum_values, |member| {\n        member.as_number().map(|value| %s)\n    });\n" % convert


def _enum_helper(body=None):
    body = body or ("        .map(|vv| {\n            if vv.is_null() {\n                return None;\n            }\n            match convert(vv) {\n                converted @ Some(_) => converted,\n"
                    "                None => panic!(\"unexpected enumeration value {:?}\", vv),\n            }\n        })\n")
    return ("fn j2oas_enumeration<T>(\n    enum_values: &Option<Vec<serde_json::value::Value>>,\n    convert: impl Fn(&serde_json::Value) -> Option<T>,\n) -> Vec<Option<T>> {\n"
            "    let Some(values) = enum_values else {\n        return Vec::new();\n    };\n    values\n        .iter()\n" + body + "        .collect()\n}\n\nfn j2oas_number(\n")


_SUBSCHEMAS_MATCH = ("    match (\n        &subschemas.all_of,\n        &subschemas.any_of,\n        &subschemas.one_of,\n        &subschemas.not,\n    ) {\n"
                     "        (Some(all_of), None, None, None) => openapiv3::SchemaKind::AllOf {\n            all_of: all_of\n                .iter()\n                .map(|schema| j2oas_schema(None, schema))\n                .collect::<Vec<_>>(),\n        },\n"
                     "        (None, Some(any_of), None, None) => openapiv3::SchemaKind::AnyOf {\n            any_of: any_of\n                .iter()\n                .map(|schema| j2oas_schema(None, schema))\n                .collect::<Vec<_>>(),\n        },\n"
                     "        (None, None, Some(one_of), None) => openapiv3::SchemaKind::OneOf {\n            one_of: one_of\n                .iter()\n                .map(|schema| j2oas_schema(None, schema))\n                .collect::<Vec<_>>(),\n        },\n"
                     "        (None, None, None, Some(not)) => openapiv3::SchemaKind::Not {\n            not: Box::new(j2oas_schema(None, not)),\n        },\n        _ => panic!(\"invalid subschema {:#?}\", subschemas),\n    }\n}\n")
_SUBSCHEMAS_VIA_ENUM = ("    let Some(combinator) = J2oasCombinator::select(subschemas) else {\n        panic!(\"invalid subschema {:#?}\", subschemas)\n    };\n"
                        "    let convert_all = |members: &[schemars::schema::Schema]| {\n        members.iter().map(|member| j2oas_schema(None, member)).collect::<Vec<_>>()\n    };\n"
                        "    match combinator {\n        J2oasCombinator::AllOf(members) => openapiv3::SchemaKind::AllOf { all_of: convert_all(members) },\n"
                        "        J2oasCombinator::AnyOf(members) => openapiv3::SchemaKind::AnyOf { any_of: convert_all(members) },\n"
                        "        J2oasCombinator::OneOf(members) => openapiv3::SchemaKind::OneOf { one_of: convert_all(members) },\n"
                        "        J2oasCombinator::Not(negated) => openapiv3::SchemaKind::Not { not: Box::new(j2oas_schema(None, negated)) },\n    }\n}\n")


def _combinator_enum(any_of_as="AnyOf"):
    return ("enum J2oasCombinator<'a> {\n    AllOf(&'a [schemars::schema::Schema]),\n    AnyOf(&'a [schemars::schema::Schema]),\n    OneOf(&'a [schemars::schema::Schema]),\n    Not(&'a schemars::schema::Schema),\n}\n\n"
            "impl<'a> J2oasCombinator<'a> {\n    fn select(validation: &'a schemars::schema::SubschemaValidation) -> Option<Self> {\n"
            "        let schemars::schema::SubschemaValidation { all_of, any_of, one_of, not, .. } = validation;\n"
            "        let keywords_present = usize::from(all_of.is_some()) + usize::from(any_of.is_some()) + usize::from(one_of.is_some()) + usize::from(not.is_some());\n"
            "        if keywords_present != 1 {\n            return None;\n        }\n"
            "        if let Some(not) = not {\n            Some(J2oasCombinator::Not(not))\n        } else if let Some(one_of) = one_of {\n            Some(J2oasCombinator::OneOf(one_of.as_slice()))\n"
            "        } else if let Some(any_of) = any_of {\n            Some(J2oasCombinator::%s(any_of.as_slice()))\n        } else {\n            all_of.as_deref().map(J2oasCombinator::AllOf)\n        }\n    }\n}\n\nfn j2oas_subschemas(\n" % any_of_as)


_INT_FORMAT_MATCH = ("    let format = match format.as_ref().map(|s| s.as_str()) {\n        None => openapiv3::VariantOrUnknownOrEmpty::Empty,\n        Some(\"int32\") => openapiv3::VariantOrUnknownOrEmpty::Item(\n"
                     "            openapiv3::IntegerFormat::Int32,\n        ),\n        Some(\"int64\") => openapiv3::VariantOrUnknownOrEmpty::Item(\n            openapiv3::IntegerFormat::Int64,\n        ),\n"
                     "        Some(other) => {\n            openapiv3::VariantOrUnknownOrEmpty::Unknown(other.to_string())\n        }\n    };\n\n    let (multiple_of, minimum, exclusive_minimum, maximum, exclusive_maximum) =\n")
_INT_FORMAT_TABLE = "    let format = j2oas_format(format, &J2OAS_INTEGER_FORMATS);\n\n    let (multiple_of, minimum, exclusive_minimum, maximum, exclusive_maximum) =\n"


def _format_table_helper(i32="Int32", test="candidate == name"):
    return ("const J2OAS_INTEGER_FORMATS: [(&str, openapiv3::IntegerFormat); 2] = [\n    (\"int32\", openapiv3::IntegerFormat::%s),\n    (\"int64\", openapiv3::IntegerFormat::Int64),\n];\n\n"
            "fn j2oas_format<T: Copy>(\n    format: &Option<String>,\n    known: &[(&str, T)],\n) -> openapiv3::VariantOrUnknownOrEmpty<T> {\n"
            "    let Some(name) = format.as_deref() else {\n        return openapiv3::VariantOrUnknownOrEmpty::Empty;\n    };\n"
            "    known\n        .iter()\n        .find_map(|&(candidate, variant)| (%s).then_some(variant))\n"
            "        .map_or_else(\n            || openapiv3::VariantOrUnknownOrEmpty::Unknown(name.to_string()),\n            openapiv3::VariantOrUnknownOrEmpty::Item,\n        )\n}\n\nfn j2oas_number(\n" % (i32, test))


_INT_MULT_MIN = ("                let multiple_of = number.multiple_of.map(|f| f as i64);\n                let (minimum, exclusive_minimum) =\n                    match (number.minimum, number.exclusive_minimum) {\n"
                 "                        (None, None) => (None, false),\n                        (Some(f), None) => (Some(f as i64), false),\n")


def _int_mult_min_shared(closure="|f: f64| f as i64"):
    return ("                let truncate = %s;\n                let multiple_of = number.multiple_of.map(truncate);\n                let (minimum, exclusive_minimum) =\n                    match (number.minimum, number.exclusive_minimum) {\n"
            "                        (None, None) => (None, false),\n                        (Some(f), None) => (Some(truncate(f)), false),\n" % closure)


SELFTEST = [
    {"name": "maxlength-from-minlength", "kind": "mutant", "edits": [(SU, "string.max_length.map(|n| n as usize),", "string.min_length.map(|n| n as usize),")],
     "expect": ["C08.R1"], "why": "maxLength is published with the value of minLength (constraint altered, maxLength dropped)"},
    {"name": "unique-items-dropped", "kind": "mutant", "edits": [(SU, "unique_items: arr.unique_items.unwrap_or(false),", "unique_items: false,")],
     "expect": ["C08.R1"], "why": "uniqueItems is dropped in translation"},
    {"name": "anyof-as-oneof", "kind": "mutant", "edits": [(SU, "openapiv3::SchemaKind::AnyOf {\n            any_of: any_of", "openapiv3::SchemaKind::OneOf {\n            one_of: any_of")],
     "expect": ["C08.R1"], "why": "anyOf is published as oneOf (different acceptance set)"},
    {"name": "required-not-copied", "kind": "mutant", "edits": [(SU, "required: obj.required.iter().cloned().collect::<_>(),", "required: Default::default(),")],
     "expect": ["C08.R1"], "why": "required is dropped"},
    {"name": "no-recursion-additional-properties", "kind": "mutant",
     "edits": [(SU, "schemars::schema::Schema::Object(obj) => {\n                            openapiv3::AdditionalProperties::Schema(Box::new(\n                                j2oas_schema_object(None, obj),\n                            ))\n                        }",
                "schemars::schema::Schema::Object(_) => {\n                            openapiv3::AdditionalProperties::Any(true)\n                        }")],
     "expect": ["C08.R1", "C08.R2"], "why": "a schema-valued additionalProperties is replaced by `true`: nested constraint dropped"},
    {"name": "number-built-as-integer", "kind": "mutant", "edits": [(SU, "j2oas_number(&obj.format, &obj.number, &obj.enum_values)", "j2oas_integer(&obj.format, &obj.number, &obj.enum_values)")],
     "expect": ["C08.R4"], "why": "type number is published as type integer"},
    {"name": "date-as-datetime", "kind": "mutant", "edits": [(SU, "Some(\"date\") => openapiv3::VariantOrUnknownOrEmpty::Item(\n            openapiv3::StringFormat::Date,", "Some(\"date\") => openapiv3::VariantOrUnknownOrEmpty::Item(\n            openapiv3::StringFormat::DateTime,")],
     "expect": ["C08.R4"], "why": "format date is published as date-time"},
    {"name": "nullable-written-false", "kind": "mutant", "edits": [(SU, "data.nullable = true;", "data.nullable = false;")],
     "expect": ["C08.R1"], "why": "nullability is lost"},
    {"name": "description-dropped", "kind": "mutant", "edits": [(SU, "        data.description.clone_from(&metadata.description);\n", "")],
     "expect": ["C08.R1"], "why": "the description annotation is dropped"},
    {"name": "exclusive-minimum-flag-lost", "kind": "mutant", "edits": [(SU, "(None, Some(f)) => (Some(f as i64), true),\n                        _ => panic!(\"invalid\"),\n                    };\n                let (maximum", "(None, Some(f)) => (Some(f as i64), false),\n                        _ => panic!(\"invalid\"),\n                    };\n                let (maximum")],
     "expect": ["C08.R1"], "why": "an exclusive integer minimum is published as inclusive"},
    {"name": "kind-discarded", "kind": "mutant", "edits": [(SU, "        schema_data: data,\n        schema_kind: kind,", "        schema_data: data,\n        schema_kind: { let _ = kind; openapiv3::SchemaKind::Any(openapiv3::AnySchema::default()) },")],
     "expect": ["C08.R1"], "why": "every type-specific constraint is computed and then thrown away"},
    {"name": "schema-built-outside-converter", "kind": "mutant", "edits": [("dropshot/src/api_description.rs", "                            definitions.extend(dependencies.clone());\n                            j2oas_schema(None, schema)\n                        }\n                        _ => {\n                            unimplemented!(\"this may happen for complex types\")",
                "                            definitions.extend(dependencies.clone());\n                            let _ = j2oas_schema(None, schema);\n                            openapiv3::ReferenceOr::Item(openapiv3::Schema { schema_data: Default::default(), schema_kind: openapiv3::SchemaKind::Type(openapiv3::Type::String(Default::default())) })\n                        }\n                        _ => {\n                            unimplemented!(\"this may happen for complex types\")")],
     "expect": ["C08.R3"], "why": "a parameter schema is fabricated instead of converted"},
    {"name": "adv-zero-limits-dropped", "kind": "mutant",
     "edits": [(SU, "fn j2oas_string(\n", "fn j2oas_limit(limit: Option<u32>) -> Option<usize> {\n    limit.filter(|n| *n > 0).map(|n| n as usize)\n}\n\nfn j2oas_string(\n"),
               (SU, "string.max_length.map(|n| n as usize),", "j2oas_limit(string.max_length),"),
               (SU, "max_items: arr.max_items.map(|n| n as usize),", "max_items: j2oas_limit(arr.max_items),"),
               (SU, "max_properties: obj.max_properties.map(|n| n as usize),", "max_properties: j2oas_limit(obj.max_properties),")],
     "expect": ["C08.R1b"], "why": "adversary: a helper filters out zero limits, so maxItems/maxLength/maxProperties: 0 vanish and the published schema accepts more than the type"},
    {"name": "maxlength-clamped", "kind": "mutant", "edits": [(SU, "string.max_length.map(|n| n as usize),", "string.max_length.map(|n| (n as usize).min(65535)),")],
     "expect": ["C08.R1b"], "why": "maxLength is clamped: altered in translation"},
    {"name": "minitems-if-positive", "kind": "mutant", "edits": [(SU, "min_items: arr.min_items.map(|n| n as usize),", "min_items: match arr.min_items { Some(n) if n > 1 => Some(n as usize), _ => None },")],
     "expect": ["C08.R1b"], "why": "minItems: 1 is dropped by a comparison on the value"},
    {"name": "metadata-as-ref", "kind": "benign", "edits": [(SU, "if let Some(metadata) = &obj.metadata {", "if let Some(metadata) = obj.metadata.as_ref() {")],
     "why": "behaviour-preserving: borrow through Option::as_ref"},
    {"name": "title-assign-clone", "kind": "benign", "edits": [(SU, "data.title.clone_from(&metadata.title);", "data.title = metadata.title.clone();")],
     "why": "behaviour-preserving: assignment of a clone instead of clone_from"},
    {"name": "deprecated-via-local", "kind": "benign", "edits": [(SU, "data.deprecated = metadata.deprecated;", "let is_deprecated = metadata.deprecated;\n        data.deprecated = is_deprecated;")],
     "why": "behaviour-preserving: value goes through a named local"},
    {"name": "metadata-helper-extracted", "kind": "benign",
     "edits": [(SU, "        data.title.clone_from(&metadata.title);\n        data.description.clone_from(&metadata.description);\n        data.default.clone_from(&metadata.default);\n        data.deprecated = metadata.deprecated;\n        data.read_only = metadata.read_only;\n        data.write_only = metadata.write_only;\n",
                "        copy_metadata(&mut data, metadata);\n"),
               (SU, "fn j2oas_subschemas(\n", "fn copy_metadata(\n    data: &mut openapiv3::SchemaData,\n    metadata: &schemars::schema::Metadata,\n) {\n    data.title.clone_from(&metadata.title);\n    data.description.clone_from(&metadata.description);\n    data.default.clone_from(&metadata.default);\n    data.deprecated = metadata.deprecated;\n    data.read_only = metadata.read_only;\n    data.write_only = metadata.write_only;\n}\n\nfn j2oas_subschemas(\n")],
     "why": "behaviour-preserving: the metadata copy is extracted into a helper function"},
    {"name": "required-explicit-clone", "kind": "benign", "edits": [(SU, "required: obj.required.iter().cloned().collect::<_>(),", "required: obj.required.iter().map(|r| r.clone()).collect::<Vec<String>>(),")],
     "why": "behaviour-preserving: explicit clone closure and collection type"},
    {"name": "maxlength-try-from", "kind": "benign", "edits": [(SU, "string.max_length.map(|n| n as usize),", "string.max_length.map(|n| usize::try_from(n).unwrap()),")],
     "why": "behaviour-preserving on 32/64-bit targets: u32 always fits usize"},
    {"name": "format-if-chain", "kind": "benign", "edits": [(SU, "        Some(\"float\") => openapiv3::VariantOrUnknownOrEmpty::Item(\n            openapiv3::NumberFormat::Float,\n        ),\n        Some(\"double\") => openapiv3::VariantOrUnknownOrEmpty::Item(\n            openapiv3::NumberFormat::Double,\n        ),",
                "        Some(\"double\") => openapiv3::VariantOrUnknownOrEmpty::Item(\n            openapiv3::NumberFormat::Double,\n        ),\n        Some(f) if f == \"float\" => openapiv3::VariantOrUnknownOrEmpty::Item(\n            openapiv3::NumberFormat::Float,\n        ),")],
     "why": "behaviour-preserving: arms reordered, one literal pattern turned into a guard"},
    {"name": "widen-helper", "kind": "benign",
     "edits": [(SU, "fn j2oas_string(\n", "fn widen(x: Option<u32>) -> Option<usize> {\n    x.map(|n| n as usize)\n}\n\nfn j2oas_string(\n"),
               (SU, "string.max_length.map(|n| n as usize),", "widen(string.max_length),"),
               (SU, "string.min_length.map(|n| n as usize),", "widen(string.min_length),"),
               (SU, "min_items: arr.min_items.map(|n| n as usize),", "min_items: widen(arr.min_items),"),
               (SU, "max_properties: obj.max_properties.map(|n| n as usize),", "max_properties: widen(obj.max_properties),")],
     "why": "behaviour-preserving: the widening cast is moved into a shared helper"},
    {"name": "extra-read", "kind": "benign", "edits": [(SU, "    let mut data = openapiv3::SchemaData::default();\n", "    let _has_format = obj.format.is_some();\n    let mut data = openapiv3::SchemaData::default();\n")],
     "why": "behaviour-preserving: an unused extra read"},
    # --- idioms the rules accept since the hardening round (each shape has a breaking twin)
    {"name": "extensions-for-loop", "kind": "benign",
     "edits": [(SU, _EXT, "    for (key, value) in obj.extensions.iter() {\n        if !key.starts_with(\"x-\") {\n            continue;\n        }\n        data.extensions.insert(key.clone(), value.clone());\n    }\n")],
     "why": "behaviour-preserving: filter/map/collect into the (empty) default map == a for loop inserting the kept pairs"},
    {"name": "extensions-for-loop-negated", "kind": "mutant",
     "edits": [(SU, _EXT, "    for (key, value) in obj.extensions.iter() {\n        if key.starts_with(\"x-\") {\n            continue;\n        }\n        data.extensions.insert(key.clone(), value.clone());\n    }\n")],
     "expect": ["C08.R1"], "why": "every extension EXCEPT the x- ones is published"},
    {"name": "properties-for-loop", "kind": "benign",
     "edits": [(SU, _PROPS, "                properties: {\n                    let mut properties = indexmap::IndexMap::new();\n                    for (prop, schema) in obj.properties.iter() {\n                        properties.insert(prop.clone(), box_reference_or(j2oas_schema(None, schema)));\n                    }\n                    properties\n                },\n")],
     "why": "behaviour-preserving: map/collect == for loop filling an accumulator"},
    {"name": "properties-for-loop-skips", "kind": "mutant",
     "edits": [(SU, _PROPS, "                properties: {\n                    let mut properties = indexmap::IndexMap::new();\n                    for (prop, schema) in obj.properties.iter() {\n                        if prop.len() > 3 {\n                            properties.insert(prop.clone(), box_reference_or(j2oas_schema(None, schema)));\n                        }\n                    }\n                    properties\n                },\n")],
     "expect": ["C08.R1b"], "why": "properties with short names are dropped by a comparison inside the loop"},
    {"name": "properties-for-loop-no-recursion", "kind": "mutant",
     "edits": [(SU, _PROPS, "                properties: {\n                    let mut properties = indexmap::IndexMap::new();\n                    for (prop, _schema) in obj.properties.iter() {\n                        properties.insert(prop.clone(), box_reference_or(j2oas_schema(None, &schemars::schema::Schema::Bool(true))));\n                    }\n                    properties\n                },\n")],
     "expect": ["C08.R2", "C08.R1"], "why": "every property is published with the permissive schema: nested constraints dropped"},
    {"name": "integer-bound-helper", "kind": "benign",
     "edits": [(SU, "fn j2oas_number(\n", "fn j2oas_integer_bound(\n    inclusive: Option<f64>,\n    exclusive: Option<f64>,\n) -> (Option<i64>, bool) {\n    match (inclusive, exclusive) {\n        (None, None) => (None, false),\n        (Some(f), None) => (Some(f as i64), false),\n        (None, Some(f)) => (Some(f as i64), true),\n        _ => panic!(\"invalid\"),\n    }\n}\n\nfn j2oas_number(\n"),
               (SU, "                let (minimum, exclusive_minimum) =\n                    match (number.minimum, number.exclusive_minimum) {\n                        (None, None) => (None, false),\n                        (Some(f), None) => (Some(f as i64), false),\n                        (None, Some(f)) => (Some(f as i64), true),\n                        _ => panic!(\"invalid\"),\n                    };\n", "                let (minimum, exclusive_minimum) =\n                    j2oas_integer_bound(number.minimum, number.exclusive_minimum);\n")],
     "why": "behaviour-preserving: the (value, flag) pair is computed by an extracted helper and travels through a tuple"},
    {"name": "nullable-assigned", "kind": "benign",
     "edits": [(SU, "    if matches!(\n        &obj.extensions.get(\"nullable\"),\n        Some(serde_json::Value::Bool(true))\n    ) {\n        data.nullable = true;\n    }\n", "    data.nullable = matches!(\n        &obj.extensions.get(\"nullable\"),\n        Some(serde_json::Value::Bool(true))\n    );\n")],
     "why": "behaviour-preserving: the default is false, so `if p { f = true }` == `f = p`"},
    # --- second hardening round: the model is evaluated on the normalised view (combinators are switches), values are followed
    #     field-sensitively through a private carrier, tables are read off path facts wherever the comparison lives
    {"name": "limits-carrier-struct", "kind": "benign",
     "edits": [(SU, _INT_LIMITS, _INT_LIMITS_CARRIER), (SU, _INT_FIELDS, _int_fields())],
     "why": "behaviour-preserving: the five-element tuple becomes a private #[derive(Default)] struct built by map_or_else; the bound/flag pair comes from a guard-clause helper "
            "(the flag is decided by `exclusive.is_some()` alone, the both-present case still panics)"},
    {"name": "limits-carrier-struct-crossed", "kind": "mutant",
     "edits": [(SU, _INT_LIMITS, _INT_LIMITS_CARRIER), (SU, _INT_FIELDS, _int_fields(minimum="limits.maximum", maximum="limits.minimum"))],
     "expect": ["C08.R1"], "why": "the carrier's maximum is published as minimum and vice versa (field-sensitivity of the flow through the carrier struct)"},
    {"name": "format-helper-option", "kind": "benign",
     "edits": [(SU, _INT_FORMAT, _INT_FORMAT_VIA_HELPER), (SU, "fn j2oas_number(\n", _int_format_helper())],
     "why": "behaviour-preserving: the known format names move into a helper returning Option<IntegerFormat> (arms reordered), combined with map / unwrap_or_else / map_or"},
    {"name": "format-helper-option-wrong", "kind": "mutant",
     "edits": [(SU, _INT_FORMAT, _INT_FORMAT_VIA_HELPER), (SU, "fn j2oas_number(\n", _int_format_helper(i32="Int64"))],
     "expect": ["C08.R4"], "why": "inside the extracted helper int32 is mapped to IntegerFormat::Int64"},
    {"name": "boolean-enum-loop-over-flatten", "kind": "benign",
     "edits": [(SU, _BOOL_ENUM, "            let mut enumeration = Vec::new();\n            for vv in obj.enum_values.iter().flatten() {\n                enumeration.push(match vv {\n"
                "                    serde_json::Value::Bool(b) => Some(*b),\n                    serde_json::Value::Null => None,\n                    _ => panic!(\"unexpected enumeration value {:?}\", vv),\n                });\n            }\n")],
     "why": "behaviour-preserving: Option<Vec<_>>.iter().flatten() visits every value of the optional list; loop + push == map + collect"},
    {"name": "integer-enum-flat-map-filters", "kind": "mutant",
     "edits": [(SU, _INT_ENUM, "        .flat_map(|v| v.iter().flat_map(|vv| vv.as_i64().map(Some)))\n")],
     "expect": ["C08.R1b"], "why": "flat_map over an Option is a filter: enum values that are not integers (and null) silently vanish instead of failing loudly"},
    # --- third hardening round
    {"name": "nullable-stored-test", "kind": "benign", "edits": [(SU, _NULLABLE_IF, _nullable_test())],
     "why": "behaviour-preserving: the flag is assigned the comparison `extensions.get(\"nullable\") == Some(&Bool(true))` itself (stored predicate instead of a constant under a predicate)"},
    {"name": "nullable-stored-test-negated", "kind": "mutant", "edits": [(SU, _NULLABLE_IF, _nullable_test(op="!="))],
     "expect": ["C08.R1"], "why": "every schema WITHOUT nullable: true is published as nullable"},
    {"name": "nullable-stored-test-false", "kind": "mutant", "edits": [(SU, _NULLABLE_IF, _nullable_test(lit="false"))],
     "expect": ["C08.R1"], "why": "nullable: false is published as nullable, nullable: true is not"},
    {"name": "enumeration-generic-helper", "kind": "benign", "edits": [(SU, _INT_ENUM_FULL, _int_enum_generic()), (SU, "fn j2oas_number(\n", _enum_helper())],
     "why": "behaviour-preserving: the enum chain becomes a generic helper taking the per-type conversion as `impl Fn` (let-else, typed accessor, `convert(vv)` applied inside the map closure)"},
    {"name": "enumeration-generic-helper-clamps", "kind": "mutant",
     "edits": [(SU, _INT_ENUM_FULL, _int_enum_generic(convert="value.as_i64().unwrap().min(100)")), (SU, "fn j2oas_number(\n", _enum_helper())],
     "expect": ["C08.R1b"], "why": "the closure handed to the generic helper clamps every enum value: the callable applied through `impl Fn` must be examined"},
    {"name": "enumeration-generic-helper-filters", "kind": "mutant",
     "edits": [(SU, _INT_ENUM_FULL, _int_enum_generic()),
               (SU, "fn j2oas_number(\n", _enum_helper(body="        .filter_map(|vv| if vv.is_null() { Some(None) } else { convert(vv).map(Some) })\n"))],
     "expect": ["C08.R1b"], "why": "the generic helper silently skips enum values of the wrong JSON type instead of failing loudly"},
    {"name": "subschemas-private-enum", "kind": "benign", "edits": [(SU, _SUBSCHEMAS_MATCH, _SUBSCHEMAS_VIA_ENUM), (SU, "fn j2oas_subschemas(\n", _combinator_enum())],
     "why": "behaviour-preserving: the 4-tuple match becomes a private carrier enum built by select() (presence count + if-let chain) and matched afterwards; "
            "`(x as AllOf).0` reads only what was stored as AllOf (variant-sensitive flow)"},
    {"name": "subschemas-private-enum-crossed", "kind": "mutant", "edits": [(SU, _SUBSCHEMAS_MATCH, _SUBSCHEMAS_VIA_ENUM), (SU, "fn j2oas_subschemas(\n", _combinator_enum(any_of_as="OneOf"))],
     "expect": ["C08.R1"], "why": "inside select() anyOf is stored as the OneOf variant: anyOf is published as oneOf"},
    {"name": "format-lookup-table", "kind": "benign", "edits": [(SU, _INT_FORMAT_MATCH, _INT_FORMAT_TABLE), (SU, "fn j2oas_number(\n", _format_table_helper())],
     "why": "behaviour-preserving: the format match becomes a constant (name, variant) table searched with find_map + then_some by a generic helper; the lookup is interpreted over the evaluated constant"},
    {"name": "format-lookup-table-wrong-row", "kind": "mutant", "edits": [(SU, _INT_FORMAT_MATCH, _INT_FORMAT_TABLE), (SU, "fn j2oas_number(\n", _format_table_helper(i32="Int64"))],
     "expect": ["C08.R4"], "why": "the table pairs int32 with IntegerFormat::Int64"},
    {"name": "format-lookup-table-negated", "kind": "mutant", "edits": [(SU, _INT_FORMAT_MATCH, _INT_FORMAT_TABLE), (SU, "fn j2oas_number(\n", _format_table_helper(test="candidate != name"))],
     "expect": ["C08.R4"], "why": "the lookup returns the first row whose name DIFFERS from the format: int32 is published as int64 and unknown names as int32"},
    {"name": "shared-cast-closure", "kind": "benign", "edits": [(SU, _INT_MULT_MIN, _int_mult_min_shared())],
     "why": "behaviour-preserving: one `let truncate = |f| f as i64` closure is handed to Option::map for multipleOf and called directly for minimum: "
            "the item it is applied to is the argument of the call through which the value travels, not of every call that takes the closure"},
    {"name": "shared-cast-closure-clamps", "kind": "mutant", "edits": [(SU, _INT_MULT_MIN, _int_mult_min_shared(closure="|f: f64| (f as i64).max(0)"))],
     "expect": ["C08.R1b"], "why": "the shared closure clamps negative bounds to 0"},
]


SELFTEST += [
    {"name": "lone-allof-tested-with-len-eq-1", "kind": "benign", "why": "behaviour-preserving: `match (first, len) { (Some(s), 1) => .. }` written as `if len == 1 { if let Some(s) = first { .. } }`",
     "edits": [("dropshot/src/schema_util.rs", "            match (subschemas.first(), subschemas.len()) {\n                (Some(subschema), 1) => {\n                    let description = metadata\n                        .as_ref()\n                        .and_then(|m| m.as_ref().description.clone());\n                    return (description, subschema.clone());\n                }\n                _ => (),\n            }",
                "            if subschemas.len() == 1 {\n                if let Some(subschema) = subschemas.first() {\n                    let description = metadata\n                        .as_ref()\n                        .and_then(|m| m.as_ref().description.clone());\n                    return (description, subschema.clone());\n                }\n            }")]},
    {"name": "first-of-any-allof", "kind": "mutant", "expect": ["C08.R5"], "why": "an allOf with several elements is replaced by its first element: the other elements' limits vanish from parameter and header schemas",
     "edits": [("dropshot/src/schema_util.rs", "            match (subschemas.first(), subschemas.len()) {\n                (Some(subschema), 1) => {", "            match (subschemas.first(), subschemas.len()) {\n                (Some(subschema), _) => {")]},
]
