"""Helpers of rules/c03.py: role-based anchors of the path-normalisation code.

The roles (found by data flow from their defining calls, never by function name, loop or match shape):
 * the *per-segment step*: the function or closure that contains the percent-decoding call.  It takes one raw piece of
   `split(path, '/')` and yields the decoded segment or the error, whether it is a closure passed to map / filter_map,
   the closure of `cond.then(|| ..)` nested in one, a loop body, or the `next` of a crate-local Iterator whose state is
   that Split (a *carrier* struct built in input_path_to_segments and collected there);
 * the *raw piece*: the argument of the decoding call, followed backwards through closure captures, adaptor item
   parameters, `Iterator::next` / `Iterator::find` and the carrier's field to the split call;
 * *membership tests* of the decoded value: `v == "."`, `v != ".."`, `TABLE.contains(&v)`, `TABLE.iter().any(|d| *d == v)`
   with the table's evaluated contents.
Nothing here looks at source text, line numbers or block numbers.
"""
import json
import re

from .lib import PLUMBING, callee_allow, callers, closure_args_of_call, const_int, lit_strs, operand_local
from .lib_c01 import closure_site

DECODE = r"percent_encoding::percent_decode"
SPLIT = r"str::<impl str>::split$|str::<impl str>::split_terminator$"
IS_EMPTY = r"str::<impl str>::is_empty$"
ELEMENT_CALL = r"iter::Iterator::(next|find)$"
STRING_TYS = ("std::string::String", "alloc::string::String")


# --------------------------------------------------------------------------- the decoding region
def iterator_impls(facts):
    """crate-local ADT id -> Fn of its hand-written `Iterator::next`."""
    out = {}
    for im in facts.impls:
        if im.get("trait") != "std::iter::Iterator":
            continue
        adt = re.sub(r"<.*$", "", im.get("self") or "")
        for it in im.get("items", []):
            if it.get("name") == "next" and it.get("id") in facts.F:
                out[adt] = facts.F[it["id"]]
    return out


def decode_region(facts, top):
    """Functions that make up input_path_to_segments: the function, its closures (helpers are already inlined), and the
    `next` methods (with their closures) of crate-local iterator structs that are *built* inside the region — a trait impl
    method is reached through dispatch (`collect` calls it), so the engine never inlines it.
    Returns (region, carriers) with carriers = {adt: {"next": Fn, "sites": [(fn, bb, aggregate stmt)]}}."""
    impls = iterator_impls(facts)
    region = [top] + facts.descendants(top)
    carriers = {}
    changed = True
    while changed:
        changed = False
        for f in list(region):
            reach = f.reachable(0)
            for bb, i, st in f.stmts():
                rv = st["rv"]
                if bb not in reach or rv["rv"] != "agg" or rv.get("agg") != "adt" or rv.get("adt") not in impls:
                    continue
                c = carriers.setdefault(rv["adt"], {"next": impls[rv["adt"]], "sites": []})
                if not any(s[0] is f and s[1] == bb and s[2] is st for s in c["sites"]):
                    c["sites"].append((f, bb, st))
                nx = impls[rv["adt"]]
                if nx not in region:
                    region += [nx] + facts.descendants(nx)
                    changed = True
    return region, carriers


# --------------------------------------------------------------------------- where a raw piece comes from
def _upvar_index(proj):
    for e in proj:
        m = re.match(r"f(\d+):", e)
        if m:
            return int(m.group(1))
    return None


def _taker(facts, par, clo):
    """The call in `par` that receives closure `clo` as an argument: (bb, term) or None."""
    for bb, t in par.live_calls():
        for h, node in closure_args_of_call(par, t):
            if h is clo:
                return bb, t
    return None


def element_origins(facts, f, op, site, depth=4, levels=None, cond=None):
    """Where does the *element* value `op` (read in function f; `site` = the block of f where it is consumed) come from?
    Returns a list of origins {"fn": g, "it": iterator operand in g, "how": "next" | "find" | "adaptor:<name>", "call": (bb, term),
    "levels": [..]}.  Followed backwards through
      - `Iterator::next(&mut it)` / `Iterator::find(&mut it, pred)` in f itself                         [loops, hand-written next]
      - the item parameter of a closure passed to an iterator adaptor (origin = the adaptor's receiver)   [map, filter_map ..]
      - a captured variable of a closure (continue in the function that builds the closure)              [`cond.then(|| ..)`]
    `levels` records every function crossed: {"fn", "piece" (the element as that function sees it), "site" (the block where the
    next-inner level starts: the decode call, or the closure's construction), "cond" (the receiver of `bool::then` when the inner
    closure is its argument, i.e. the inner level runs only when cond is true)}."""
    levels = (levels or []) + [{"fn": f, "piece": op, "site": site, "cond": cond}]
    out = []
    sl = f.slice(op)
    for c, bb, t in sl.calls(ELEMENT_CALL):
        out.append({"fn": f, "it": t["args"][0], "how": c.split("::")[-1], "call": (bb, t), "levels": levels})
    if f.raw["kind"] != "Closure" or depth <= 0:
        return out
    cs = closure_site(facts, f)
    if cs is None:
        return out
    par, cbb, cst = cs
    taker = _taker(facts, par, f)
    pf = sl.param_fields()
    if any(p >= 2 for p, _ in pf) and taker and taker[1]["args"]:
        out.append({"fn": par, "it": taker[1]["args"][0], "how": "adaptor:" + (taker[1].get("callee") or "").split("::")[-1], "call": taker, "levels": levels})
    for p, proj in pf:
        if p != 1:
            continue
        idx = _upvar_index(proj)
        if idx is None or idx >= len(cst["rv"]["ops"]):
            continue
        c2 = None
        if taker and re.search(r"bool::<impl bool>::then$", taker[1].get("callee") or "") and taker[1]["args"]:
            c2 = taker[1]["args"][0]
        out += element_origins(facts, par, cst["rv"]["ops"][idx], cbb, depth - 1, levels, c2)
    return out


def _same_element(a, b):
    """Two slices are about the same element: they share the `next` / `find` call that produced it, or the same (closure) parameter."""
    na = set(bb for _, bb, _ in a.calls(ELEMENT_CALL))
    nb = set(bb for _, bb, _ in b.calls(ELEMENT_CALL))
    return bool(na & nb) or bool(a.params() and a.params() == b.params())


def nonempty_predicate(h):
    """Closure h returns `!is_empty(item)`."""
    hs = h.slice({"l": 0, "p": []})
    return hs.has_call(IS_EMPTY) and ("unop", "Not") in hs.atoms and any(p >= 2 for p in hs.params())


def _cond_is_nonempty(fn, cond, piece_slice):
    """Operand `cond` is `!is_empty(e)` with e the same element as piece_slice (through let-bound copies)."""
    neg = False
    op = cond
    for _ in range(6):
        l = operand_local(op)
        if l is None:
            return False
        ds = fn.defs().get(l, [])
        if len(ds) != 1:
            return False
        bb, kind, node = ds[0]
        if kind == "assign" and node["rv"]["rv"] == "use":
            op = node["rv"]["op"]
        elif kind == "assign" and node["rv"]["rv"] == "unop" and node["rv"]["op"] == "Not":
            neg = not neg
            op = node["rv"]["a"]
        elif kind == "call" and re.search(IS_EMPTY, node.get("callee") or ""):
            return neg and _same_element(fn.slice(node["args"][0]), piece_slice)
        else:
            return False
    return False


def empties_dropped(facts, origin):
    """How empty elements are kept away from the decoding call, or None:
      - `filter(|s| !s.is_empty())` between the split and the element;
      - the element is produced by `find(|s| !s.is_empty())`;
      - `(!piece.is_empty()).then(|| step)`: the step closure runs only for a non-empty piece;
      - at some level, the way into the step is reached only on paths where `is_empty(element)` was false."""
    g = origin["fn"]
    rs = g.slice(origin["it"])
    for c, bb, t in rs.calls(r"iter::Iterator::filter$"):
        if any(nonempty_predicate(h) for h, _ in closure_args_of_call(g, t)):
            return "filter(!is_empty)"
    if origin["how"] == "find" and any(nonempty_predicate(h) for h, _ in closure_args_of_call(g, origin["call"][1])):
        return "find(!is_empty)"
    for lv in origin["levels"]:
        F = lv["fn"]
        ps = F.slice(lv["piece"])
        if lv["cond"] is not None and _cond_is_nonempty(F, lv["cond"], ps):
            return "(!is_empty).then(step)"
        atoms = [("call", ebb) for ebb, et in F.live_calls(IS_EMPTY) if _same_element(F.slice(et["args"][0]), ps)]
        if atoms and F.guarded_by(lv["site"], atoms_false=atoms)[0]:
            return "is_empty guard"
    return None


def split_source(facts, top, origin, carriers):
    """Is the origin's iterator `split(<the path parameter of input_path_to_segments>, '/')`?  The iterator may be the
    field of a carrier struct (hand-written Iterator) built in input_path_to_segments.
    Returns {"split", "path", "nodecode", "carrier": adt or None}."""
    g = origin["fn"]
    rs = g.slice(origin["it"])
    res = {"split": False, "path": False, "nodecode": not rs.has_call(DECODE), "carrier": None}
    work = [(g, rs)]
    if not rs.calls(SPLIT):
        for adt, c in carriers.items():
            if c["next"] is not g:
                continue
            for p, proj in rs.param_fields():
                idx = _upvar_index(proj)      # same key format: the field of `self`
                if p != 1 or idx is None:
                    continue
                for cf, cbb, cst in c["sites"]:
                    if idx < len(cst["rv"]["ops"]):
                        res["carrier"] = adt
                        work.append((cf, cf.slice(cst["rv"]["ops"][idx])))
    for h, s in work:
        if s.has_call(DECODE):
            res["nodecode"] = False
        for c, sbb, st in s.calls(SPLIT):
            if const_int(st["args"][1]) == 47:
                res["split"] = True
                ps = h.slice(st["args"][0])
                if h is top and ps.params() == [1] and not callee_allow(ps, PLUMBING):
                    res["path"] = True
    return res


def feeds_output(top, origin, carriers, adt):
    """The origin's iterator is what input_path_to_segments returns (collects): the adaptor call / carrier aggregate is on the
    backward slice of the return value.  The loop form (elements taken with next/find in input_path_to_segments itself and
    pushed) is decided by the push sinks instead."""
    ret = top.slice({"l": 0, "p": []})
    if adt is not None:
        return any(a[0] == "agg" and a[1] == adt for a in ret.atoms)
    g = origin["fn"]
    if g is not top:
        return False
    bb = origin["call"][0]
    if origin["how"] in ("next", "find"):
        return True
    return any(b == bb for _, b, _ in ret.callees)


SEQUENCE_PRESERVING = r"iter::Iterator::(map|filter|filter_map|collect|next|find|try_fold|fold|by_ref|try_for_each|for_each)$"


def output_unmodified(facts, top, origins):
    """What input_path_to_segments returns is the sequence of the step's results and nothing else: on the backward slice of its
    return value every iterator adaptor is element-wise and order/length preserving apart from dropping (no skip / take / rev /
    chain / zip ..), and every closure handed to one is either on the step chain (it leads to the decoding call) or the
    `!is_empty` predicate.  Returns (ok, [offending callees / closures])."""
    ret = top.slice({"l": 0, "p": []})
    chain = set()
    for o in origins:
        for lv in o["levels"]:
            chain.add(lv["fn"].id)
    bad = []
    for c, bb, t in ret.callees:
        if re.search(r"iter::(Iterator|DoubleEndedIterator|ExactSizeIterator)::", c) and not re.search(SEQUENCE_PRESERVING, c):
            bad.append(c)
    for a in ret.atoms:
        if a[0] == "agg" and a[1] in facts.F and facts.F[a[1]].raw["kind"] == "Closure":
            h = facts.F[a[1]]
            if h.id not in chain and not nonempty_predicate(h):
                bad.append(h.id)
    return not bad, sorted(set(bad))


# --------------------------------------------------------------------------- segment sinks
def _flows_to_return(f, local, hops=4):
    """`local` is the return place, or is moved (whole) into it, possibly wrapped (`Some(x)`)."""
    cur = {local}
    for _ in range(hops):
        if 0 in cur:
            return True
        nxt = set()
        for bb, i, st in f.stmts():
            rv = st["rv"]
            if st["pl"]["p"]:
                continue
            ops = [rv["op"]] if rv["rv"] == "use" else rv.get("ops", []) if rv["rv"] == "agg" and rv.get("agg") in ("adt", "tuple") else []
            if any(operand_local(o) in cur for o in ops):
                nxt.add(st["pl"]["l"])
        if not nxt - cur:
            break
        cur |= nxt
    return 0 in cur


def sinks(f):
    """Places where a finished segment leaves the decoding code: `Ok(x: String)` that becomes the function's result
    (directly, or wrapped in `Some(..)` by a hand-written iterator), or `Vec::push(v, x)` in the loop form."""
    out = []
    reach = f.reachable(0)
    for b, i, st in f.aggregates(r"^std::result::Result$", "Ok"):
        if b in reach and not st["pl"]["p"] and f.local_ty(operand_local(st["rv"]["ops"][0]) or 0) in STRING_TYS and _flows_to_return(f, st["pl"]["l"]):
            out.append((b, st["rv"]["ops"][0], "Ok"))
    for b, t in f.live_calls(r"vec::Vec::<T, A>::push$|VecDeque::<T, A>::push_back$"):
        out.append((b, t["args"][1], "push"))
    return out


def error_yields(f):
    """Blocks where the step yields an *error*: an `Err(..)` that becomes the function's result (directly or wrapped in `Some`),
    or the residual of a failed Result written to the return place by `?`.  (`None` from `.ok()?` is not an error: it makes the
    segment vanish.)"""
    out = []
    reach = f.reachable(0)
    for b, i, st in f.aggregates(r"^std::result::Result$", "Err"):
        if b in reach and not st["pl"]["p"] and _flows_to_return(f, st["pl"]["l"]):
            out.append(b)
    for b, t in f.live_calls(r"ops::FromResidual::from_residual$"):
        if not t["dest"]["p"] and _flows_to_return(f, t["dest"]["l"]) and "std::result::Result<" in (t.get("resolved") or ""):
            out.append(b)
    return out


# --------------------------------------------------------------------------- membership tests of a value
def table_contents(facts, fn, op):
    """Evaluated contents of a constant lookup table: (set of strings, [names of tables whose value is not in the facts])."""
    sl = fn.slice(op)
    strs, unknown = set(), []
    for a in sl.atoms:
        if a[0] != "const":
            continue
        val = None
        try:
            val = json.loads(a[2]) if a[2] else None
        except Exception:
            val = None
        if not isinstance(val, dict) or "list" not in val:
            val = (facts.consts.get(a[1]) or {}).get("val")
        if isinstance(val, dict) and isinstance(val.get("list"), list) and all(isinstance(e, dict) and "str" in e for e in val["list"]):
            strs |= set(e["str"] for e in val["list"])
        else:
            unknown.append(a[1])
    return strs, unknown


def membership_tests(facts, f):
    """Boolean tests `value ∈ {strings}` in f: list of {"fn", "bb", "atom", "in_when" (the atom's truth value that means
    *member*), "strs", "val" (slice of the tested value), "what", "unknown" (tables without evaluated contents)}.
      v == "lit" / "lit" == v / v != "lit"; TABLE.contains(&v); TABLE.iter().any(|d| *d == v)."""
    out = []
    for bb, t in f.live_calls(r"cmp::PartialEq::(eq|ne)$"):
        if len(t["args"]) != 2:
            continue
        sa, sb = f.slice(t["args"][0]), f.slice(t["args"][1])
        for lit_side, val_side in ((sa, sb), (sb, sa)):
            ls = lit_strs(lit_side)
            if len(ls) == 1:
                out.append({"fn": f, "bb": bb, "atom": ("call", bb), "in_when": t["callee"].endswith("::eq"), "strs": ls, "val": val_side,
                            "what": "comparison with %r" % sorted(ls)[0], "unknown": []})
    for bb, t in f.live_calls(r"slice::<impl \[T\]>::contains$"):
        if len(t["args"]) != 2:
            continue
        strs, unknown = table_contents(facts, f, t["args"][0])
        out.append({"fn": f, "bb": bb, "atom": ("call", bb), "in_when": True, "strs": strs, "val": f.slice(t["args"][1]),
                    "what": "contains() over a table holding %s" % sorted(strs), "unknown": unknown})
    for bb, t in f.live_calls(r"iter::Iterator::any$"):
        strs, unknown = table_contents(facts, f, t["args"][0])
        if not strs and not unknown:
            continue
        for h, node in closure_args_of_call(f, t):
            ret = h.slice({"l": 0, "p": []})
            eqs = h.live_calls(r"cmp::PartialEq::eq$")
            if len(eqs) != 1 or ("unop", "Not") in ret.atoms or not any(a[0] == "call" and a[2] == eqs[0][0] for a in ret.atoms):
                continue
            et = eqs[0][1]
            sides = [h.slice(x) for x in et["args"]]
            for item, other in ((sides[0], sides[1]), (sides[1], sides[0])):
                if not any(p >= 2 for p in item.params()) or other.params() != [1]:
                    continue
                idxs = set(_upvar_index(proj) for p, proj in other.param_fields())
                if len(idxs) != 1 or None in idxs or list(idxs)[0] >= len(node["rv"]["ops"]):
                    continue
                out.append({"fn": f, "bb": bb, "atom": ("call", bb), "in_when": True, "strs": strs, "val": f.slice(node["rv"]["ops"][list(idxs)[0]]),
                            "what": "any(== v) over a table holding %s" % sorted(strs), "unknown": unknown})
    return out


# --------------------------------------------------------------------------- reaching a site from lookup_route
def entries_in(facts, root, fn, bb, depth=4):
    """Blocks of `root` through which the site (fn, bb) is reached: the site itself when fn is root; the construction site
    of the closure fn; the call sites of the (not inlined) helper fn — transitively.  None when some way to the site does not
    start in root (another caller) or cannot be followed."""
    if fn is root:
        return [bb]
    if depth <= 0:
        return None
    if fn.raw["kind"] == "Closure":
        cs = closure_site(facts, fn)
        if cs is None:
            return None
        return entries_in(facts, root, cs[0], cs[1], depth - 1)
    cs = callers(facts, "^" + re.escape(fn.id) + "$")
    if not cs:
        return None
    out = []
    for g, cbb, t in cs:
        sub = entries_in(facts, root, g, cbb, depth - 1)
        if sub is None:
            return None
        out += sub
    return out
