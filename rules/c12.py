"""C12 — typed responses are serialised faithfully with their declared status."""
import re

from .lib import PLUMBING, borrow_root, callee_allow, callers, closure_args_of_call, operand_local
from .lib_c01 import VALUE_PRESERVING, sources
from .lib_c12 import (STATUS_PATH, TO_STRING, CheckOutcome, Origin, agg_field_op, coded_impls, const_val, def_site, field_place, from_impls, norm_ty,
                      op_const_path, only_plumbing, result_payload_sources, ret_ok_sites, self_of_call, trace_value)

LEVEL = "other"
TECHNIQUE = ("static analysis: evaluated associated constants (status table), MIR slices from Builder::status/header/body operands, "
             "reachability order of HeaderMap::insert vs extend (insert sites in the function or in iterator-adaptor closures, resolved through captures), "
             "variant-sensitive value tracing on the normalised MIR view (sources of the Ok / Err payload of the redirect constructors; name / value of a declared header traced "
             "through conversions, closures and iterator pipelines to the key / value of an element of to_map's result), "
             "path knowledge about the outcome of the Location validation (fixed point over switches on the validation result and values re-wrapping it, is_ok/is_err facts)")
LEVEL_TEXT = ("Decides on the type-checked MIR of the current tree: (R1) the evaluated STATUS_CODE of every HttpCodedResponse impl equals the specified table "
              "(200/201/202/204/204/302/303/307) and the body type is Empty exactly for the 204/3xx kinds; (R2) for_object gives Self::STATUS_CODE to Builder::status and "
              "hands the untouched body and that builder to Body::to_response, no impl overrides it, and every `From<X> for HttpHandlerResult` calls for_object of its own X "
              "with the wrapped value; (R3) the JSON to_response serialises `self` with serde_json, sets CONTENT_TYPE to the constant whose value is application/json on the "
              "builder it was given (no second status/header) and returns that response; (R4) Empty::to_response uses Body::empty() and sets no header; "
              "(R5) in HttpResponseHeaders::to_result every declared header is inserted before — never after — extend(other_headers), on the response produced from `body`, every Ok return "
              "has passed the extend, and the inserted name / value are the typed conversions of the key / value of one element of the map returned by to_map(&structured_headers) "
              "(whether written as a loop, an adaptor closure, a conversion helper or a collect-then-insert pipeline); (R6) for each redirect constructor, on the normalised view: every "
              "source of the Ok payload of its return value is an HttpResponseHeaders built (new / struct literal with an empty explicit header map) only where "
              "HeaderValue::from_str(&location) is known to have returned Ok, whose RedirectHeaders.location is the argument unmodified and whose status type (from the return type) has the "
              "right evaluated code; every source of the Err payload is an HttpError constructor called only where the validation is known to have failed and given that validation's error; "
              "HttpResponseHeaders::new stores the given headers and an empty explicit map; the header is named `location`; (R7) to_map stores "
              "key and string value unmodified. Not decided: that serde_json's output parses back to the same value; http::HeaderMap::{insert,extend} semantics. Also (R7): serialize_field returns Ok only through the insert into the output map -- no declared header is dropped for its value.")
LEVEL_NOTE = ("Trusts rustc MIR construction + const evaluation, the fact extractor, the engine's normalisation (helper inlining, combinator desugaring, jump threading), serde_json::to_string, "
              "http::response::Builder, HeaderMap::insert/extend (extend replaces an existing name on its first occurrence), HeaderValue::from_str.")
EXPLANATION = ("CONST table over ctx.ds.const_list joined with the impl table; CHAIN slices of the operands of Builder::status / header / body and BTreeMap::insert with "
               "short allow-lists; ORDER by CFG reachability between HeaderMap::insert sites and Extend::extend; R6 by DATA FLOW on the normalised view: lib_c01.sources of `(_0 as Ok).0` / "
               "`(_0 as Err).0` (through inlined helpers, match arms, `?` residuals), each Ok source checked against lib_c12.CheckOutcome (edges on which the validation is known Ok / Err, "
               "computed as a fixed point so that neither the number nor the position of matches matters; is_ok()/is_err() via path-sensitive bool facts), the Location field traced to the "
               "parameter; R5 name / value by lib_c12.trace_value (variant-, field-, closure- and iterator-pipeline-sensitive value trace with an `[elem]` pseudo-projection); "
               "closure-transparent origins (captures resolved in the enclosing function) for the header map; SIBLINGS over the three redirect constructors and the eight From impls.")
TRUSTED = ["rustc nightly MIR construction + const evaluation", "mirfacts extractor", "rules/engine.py slices, dominators",
           "serde_json::to_string", "http::response::Builder::{status,header,body}", "http::HeaderMap::{insert,extend}", "http::HeaderValue::from_str"]

# specified status per typed response (property statement); body kind: "content" = the wrapped value, "empty" = no body
STATUS_TABLE = {
    "handler::HttpResponseOk<T>": (200, "content"),
    "handler::HttpResponseCreated<T>": (201, "content"),
    "handler::HttpResponseAccepted<T>": (202, "content"),
    "handler::HttpResponseDeleted": (204, "empty"),
    "handler::HttpResponseUpdatedNoContent": (204, "empty"),
    "handler::HttpResponseFoundStatus": (302, "empty"),
    "handler::HttpResponseSeeOtherStatus": (303, "empty"),
    "handler::HttpResponseTemporaryRedirectStatus": (307, "empty"),
}
REDIRECTS = {"http_response_found": 302, "http_response_see_other": 303, "http_response_temporary_redirect": 307}
EMPTY_TY = "handler::Empty"
BUILDER_NEW = [r"http::Response::<\(\)>::builder$", r"http::response::Builder::new$"]


def _body_kind(f, t):
    """Body type handed to for_object by a From impl: the type of the argument *is* <X as HttpCodedResponse>::Body."""
    l = operand_local(t["args"][0])
    if l is None:
        return None
    return "empty" if f.local_ty(l) == EMPTY_TY else "content"


def _for_object_call(f):
    cs = [(bb, t) for bb, t in f.live_calls() if (t.get("callee") or "").endswith("handler::HttpCodedResponse::for_object")]
    return cs


def r1_status_table(ctx):
    R = ctx.rule("C12.R1", "the evaluated STATUS_CODE of every HttpCodedResponse impl equals the specified table; Body = Empty exactly for 204 and 3xx", floor=16)
    impls = coded_impls(ctx.ds)
    froms = from_impls(ctx.ds)
    if not impls:
        ctx.lost(R, "impls of handler::HttpCodedResponse")
        return
    seen = set()
    for im in impls:
        x, v = im["self"], im["status"]
        seen.add(x)
        if v is None:
            ctx.check(R, "status:%s" % x, False, "STATUS_CODE of %s could not be evaluated" % x)
            continue
        if x in STATUS_TABLE:
            ctx.check(R, "status:%s" % x, v == STATUS_TABLE[x][0], "evaluated STATUS_CODE = %d, specified %d" % (v, STATUS_TABLE[x][0]))
        else:
            ctx.check(R, "status:%s" % x, 200 <= v < 400, "impl outside the table: STATUS_CODE = %d must be a 2xx/3xx success code" % v)
        f = froms.get(x)
        cs = _for_object_call(f) if f is not None else []
        if len(cs) != 1:
            ctx.check(R, "body-kind:%s" % x, False, "cannot determine <%s>::Body: its From conversion has %d for_object calls" % (x, len(cs)), f)
            continue
        kind = _body_kind(f, cs[0][1])
        must_be_empty = v in (204, 205, 304) or 300 <= v < 400
        if x in STATUS_TABLE:
            ok = kind == STATUS_TABLE[x][1] and (kind == "empty") == must_be_empty
        else:
            ok = (kind == "empty") or not must_be_empty
        ctx.check(R, "body-kind:%s" % x, ok, "Body is %s for status %d (a body is %s)" % (kind, v, "forbidden" if must_be_empty else "expected"), (f, cs[0][0]))
    ctx.notes["C12.status_table"] = {im["self"]: im["status"] for im in impls}
    missing = sorted(set(STATUS_TABLE) - seen)
    if missing:
        ctx.notes["C12.table_rows_without_impl"] = missing


def r2_for_object(ctx):
    R = ctx.rule("C12.R2", "for_object passes Self::STATUS_CODE to Builder::status and hands the untouched body plus that builder to <Self::Body>::to_response; no impl overrides "
                 "for_object; every From<X> for HttpHandlerResult returns <X>::for_object(wrapped value); HttpResponse::to_result is self.into()", floor=25)
    fo = ctx.need_fn(ctx.ds, R, r"^handler::HttpCodedResponse::for_object$")
    st = fo.live_calls(r"http::response::Builder::status$")
    ctx.check(R, "for_object:one-status-call", len(st) == 1, "Builder::status calls in for_object: %d" % len(st), fo)
    for bb, t in st:
        p = op_const_path(fo, t["args"][1])
        ctx.check(R, "for_object:status-is-Self::STATUS_CODE", bool(p and re.search(STATUS_PATH, p)),
                  "status argument is the constant %s (want the trait's own STATUS_CODE)" % p, (fo, bb))
        rs = fo.slice(t["args"][0])
        bad = callee_allow(rs, PLUMBING + BUILDER_NEW)
        ctx.check(R, "for_object:status-on-fresh-builder", not bad and not rs.params(), "builder given to status() derives from %s" % ([b[0] for b in bad] or "a fresh Response::builder()"), (fo, bb))
    tr = [(bb, t) for bb, t in fo.live_calls() if (t.get("callee") or "").endswith("handler::HttpResponseContent::to_response")]
    ctx.check(R, "for_object:one-to_response-call", len(tr) == 1, "to_response calls in for_object: %d" % len(tr), fo)
    for bb, t in tr:
        on_body = "HttpCodedResponse::Body" in " ".join(t.get("gargs") or []) or "as handler::HttpCodedResponse>::Body" in (t.get("callee_args") or "")
        bs = fo.slice(t["args"][0])
        ctx.check(R, "for_object:body-untouched", on_body and bs.params() == [1] and only_plumbing(bs),
                  "to_response is <Self::Body>::to_response=%s; receiver derives from params %s via %s" % (on_body, bs.params(), [c for c in bs.callee_names()]), (fo, bb))
        b2 = fo.slice(t["args"][1])
        bad = callee_allow(b2, PLUMBING + BUILDER_NEW + [r"http::response::Builder::status$"])
        ctx.check(R, "for_object:builder-carries-status", b2.has_call(r"http::response::Builder::status$") and not bad,
                  "builder passed on: has status()=%s, other callees=%s" % (b2.has_call(r"Builder::status$"), [b[0] for b in bad]), (fo, bb))
        rs = fo.slice({"l": 0, "p": []})
        bad = callee_allow(rs, PLUMBING + BUILDER_NEW + [r"http::response::Builder::status$", r"handler::HttpResponseContent::to_response$"])
        ctx.check(R, "for_object:returns-to_response-result", rs.has_call(r"HttpResponseContent::to_response$") and not bad,
                  "return value derives from to_response=%s, other callees=%s" % (rs.has_call(r"to_response$"), [b[0] for b in bad]), fo)
    impls = coded_impls(ctx.ds)
    froms = from_impls(ctx.ds)
    for im in impls:
        x = im["self"]
        over = [it["name"] for it in im["items"] if it["kind"] == "Fn"]
        ctx.check(R, "no-override:%s" % x, not over, "methods defined by the impl: %s (for_object must stay the trait default)" % over, nontrivial=False)
        f = froms.get(x)
        if f is None:
            ctx.check(R, "from-impl:%s" % x, False, "no `impl From<%s> for HttpHandlerResult` found" % x)
            continue
        cs = _for_object_call(f)
        allc = f.live_calls()
        ok = len(cs) == 1 and len(allc) == 1
        own = ok and self_of_call(cs[0][1]) == x
        rsl = f.slice({"l": 0, "p": []})
        ret = ok and [b for c, b, _ in rsl.callees] == [cs[0][0]]
        arg_ok = False
        kind = None
        if ok:
            t = cs[0][1]
            kind = _body_kind(f, t)
            sl = f.slice(t["args"][0])
            if kind == "empty":
                arg_ok = not sl.params() and not sl.callees
            else:
                pf = sl.param_fields()
                arg_ok = sl.params() == [1] and not sl.callees and all(p[1] and p[1][0].startswith("f0") for p in pf)
        ctx.check(R, "from-impl:%s" % x, ok and own and ret and arg_ok,
                  "calls for_object once and nothing else=%s; on its own type (%s)=%s; returns it=%s; argument is %s=%s" % (
                      ok, self_of_call(cs[0][1]) if cs else None, own, ret, "Empty" if kind == "empty" else "the wrapped value (.0)", arg_ok), f)
    # the only other crate-local callers of for_object are none
    for f, bb, t in callers(ctx.ds, r"^handler::HttpCodedResponse::for_object$"):
        if f not in froms.values():
            ctx.check(R, "for_object-caller:%s" % f.id, False, "for_object called outside the From conversions: the status of that response is not decided by this rule", (f, bb))
    tr = ctx.need_fn(ctx.ds, R, r"^<T as handler::HttpResponse>::to_result$")
    rs = tr.slice({"l": 0, "p": []})
    ctx.check(R, "to_result-is-into", rs.has_call(r"convert::Into::into$") and rs.params() == [1] and only_plumbing(rs),
              "HttpResponse::to_result for coded responses returns self.into(): callees %s" % rs.callee_names(), tr)
    sc = ctx.need_fn(ctx.ds, R, r"^<T as handler::HttpResponse>::status_code$")
    ss = sc.slice({"l": 0, "p": []})
    ctx.check(R, "status_code-is-STATUS_CODE", ss.has_const_path(STATUS_PATH) and not ss.callees, "status_code() returns T::STATUS_CODE", sc)


def _builder_chain(f, op, allowed):
    sl = f.slice(op)
    bad = callee_allow(sl, PLUMBING + allowed)
    return sl, bad


def r3_json_body(ctx):
    R = ctx.rule("C12.R3", "the blanket to_response serialises `self` with serde_json, sets CONTENT_TYPE = application/json on the builder it was given and returns that response", floor=7)
    # normalised view: `to_vec(&self).map_err(..).and_then(|b| builder.header(..).body(b.into()).map_err(..))` is the `?` form
    f = ctx.need_fn(ctx.dsn, R, r"^<T as handler::HttpResponseContent>::to_response$")
    bodies = f.live_calls(r"http::response::Builder::body$")
    ctx.check(R, "one-body-call", len(bodies) == 1, "Builder::body calls: %d" % len(bodies), f)
    SER = r"^serde_json::(to_string|to_vec|to_writer)$"
    for bb, t in bodies:
        bs = f.slice(t["args"][1])
        sers = bs.calls(SER)
        bad = callee_allow(bs, PLUMBING + [SER, r"Result::<T, E>::map_err$", r"body::Body::from$", r"body::Body::with_content$", r"bytes::Bytes::from$"])
        ctx.check(R, "body-is-serde_json-of-self", len(sers) >= 1 and not bad and bs.params() == [1],
                  "body derives from %s of params %s; other callees on the chain: %s" % ([c for c, _, _ in sers], bs.params(), [b[0] for b in bad]), (f, bb))
        for c, sbb, stt in sers:
            ss = f.slice(stt["args"][0])
            ctx.check(R, "serialiser-input-is-self", ss.params() == [1] and not ss.callees, "serde_json input derives from params %s via %s" % (ss.params(), ss.callee_names()), (f, sbb))
        rs, badr = _builder_chain(f, t["args"][0], [r"http::response::Builder::header$"])
        hs = rs.calls(r"http::response::Builder::header$")
        ctx.check(R, "builder-is-the-given-one", 2 in rs.params() and not badr and len(hs) == 1,
                  "builder used for body(): from params %s, header() calls on it %d, other callees %s (a second status() here would override the declared status)" % (
                      rs.params(), len(hs), [b[0] for b in badr]), (f, bb))
        for c, hbb, ht in hs:
            name = op_const_path(f, ht["args"][1])
            vp = op_const_path(f, ht["args"][2])
            val = const_val(ctx.ds, vp) if vp else None
            ctx.check(R, "content-type-is-application/json", name == "http::header::CONTENT_TYPE" and val == "application/json",
                      "header(%s, %s = %r)" % (name, vp, val), (f, hbb))
    # the value returned on success is the result of Builder::body — as `Ok(b.body(x)?)`, `b.body(x).map_err(HttpError::from)`, a match, ..
    oks = ret_ok_sites(f)
    rsl = f.slice({"l": 0, "p": []})
    carried = all(f.slice(stt["rv"]["ops"][0]).has_call(r"http::response::Builder::body$") for b, stt in oks) and rsl.has_call(r"http::response::Builder::body$")
    badr = callee_allow(rsl, PLUMBING + [SER, r"Result::<T, E>::map_err$", r"body::Body::from$", r"body::Body::with_content$", r"bytes::Bytes::from$",
                                         r"http::response::Builder::(header|body)$", r"^error::HttpError::for_", r"string::ToString::to_string$"])
    ctx.check(R, "returns-the-built-response", carried and not badr,
              "the returned value carries the result of Builder::body (%d explicit Ok sites); other callees feeding the return value: %s" % (len(oks), [b[0] for b in badr]), f)
    st = f.live_calls(r"http::response::Builder::status$")
    ctx.check(R, "no-status-override", not st, "Builder::status calls inside to_response: %d" % len(st), f)


def r4_empty_body(ctx):
    R = ctx.rule("C12.R4", "Empty::to_response builds Body::empty() on the given builder and sets no header or status", floor=5)
    f = ctx.need_fn(ctx.ds, R, r"^<handler::Empty as handler::HttpResponseContent>::to_response$")
    bodies = f.live_calls(r"http::response::Builder::body$")
    ctx.check(R, "one-body-call", len(bodies) == 1, "Builder::body calls: %d" % len(bodies), f)
    for bb, t in bodies:
        bs = f.slice(t["args"][1])
        bad = callee_allow(bs, PLUMBING + [r"^body::Body::empty$"])
        ctx.check(R, "body-is-empty", bs.has_call(r"^body::Body::empty$") and not bad and not bs.params(), "body operand derives from %s" % bs.callee_names(), (f, bb))
        rs, badr = _builder_chain(f, t["args"][0], [])
        ctx.check(R, "builder-untouched", rs.params() == [2] and not badr, "builder: params %s, callees %s" % (rs.params(), [b[0] for b in badr]), (f, bb))
    hs = f.live_calls(r"http::response::Builder::(header|status)$|HeaderMap::<T>::(insert|append)$")
    ctx.check(R, "no-header-no-status", not hs, "header/status calls in Empty::to_response: %s" % [t["callee"] for _, t in hs], f)
    be = ctx.need_fn(ctx.ds, R, r"^body::Body::empty$")
    ctx.check(R, "Body::empty-is-http_body_util::Empty", bool(be.live_calls(r"http_body_util::Empty::<D>::new$")) and not be.live_calls(r"Full::<D>::new$"),
              "Body::empty() wraps http_body_util::Empty::new()", be)


def _insert_sites(ds, f):
    """(site_bb_in_f, term, owner_fn) for every HeaderMap insert/append in f or in a closure called from f."""
    out = []
    for bb, t in f.live_calls(r"http::HeaderMap::<T>::(insert|append|try_insert|try_append)$"):
        out.append((bb, t, f))
    for g in ds.descendants(f):
        ins = g.live_calls(r"http::HeaderMap::<T>::(insert|append|try_insert|try_append)$")
        if not ins:
            continue
        site = None
        for cbb, ct in f.live_calls():
            for h, node in closure_args_of_call(f, ct):
                if h is g or g in ds.descendants(h):
                    site = cbb
        for bb, t in ins:
            out.append((site, t, g))
    return out


# conversions of the serialised (String) name / value of a declared header into the typed header name / value
NAME_CONV = [r"convert::TryFrom::try_from$", r"convert::TryInto::try_into$", r"HeaderName::from_bytes$", r"HeaderName::from_str$", r"str::FromStr::from_str$", r"str::<impl str>::parse$",
             r"String::as_bytes$", r"String::as_str$", r"str::<impl str>::as_bytes$"]
VALUE_CONV = [r"convert::TryFrom::try_from$", r"convert::TryInto::try_into$", r"HeaderValue::from_str$", r"HeaderValue::from_bytes$", r"str::FromStr::from_str$", r"str::<impl str>::parse$",
              r"String::as_bytes$", r"String::as_str$", r"str::<impl str>::as_bytes$"]


def _declared_component(ds, g, op, conv, index):
    """Is the operand the typed conversion of the key (index 0) / value (index 1) of an element of the map returned by to_map(..)?
    Decided on the traced value (lib_c12.trace_value): the same answer for a `for` / `while let` loop over the map, an iterator
    adaptor closure, a conversion helper, and a collect-then-insert pipeline.  Returns (ok, [Term])."""
    terms = trace_value(ds, g, op, convert=conv)
    want = ["+", "0", "[elem]", str(index)]
    return bool(terms) and all(t.is_call(r"^to_map::to_map$") and t.path == want for t in terms), terms


def r5_header_order(ctx):
    R = ctx.rule("C12.R5", "in HttpResponseHeaders::to_result the declared headers (to_map(&structured_headers)) are inserted into the response's header map before, and never after, "
                 "extend(other_headers); the inserted name / value are the typed conversions of the key / value of an element of that map; every Ok return has passed the extend; "
                 "the response is the one produced from `body`", floor=9)
    ds = ctx.dsn     # normalised view: `x.map_err(f)?`, `x.map(g)`, match and helper spellings of the conversions are one program
    f = ctx.need_fn(ds, R, r"^<handler::HttpResponseHeaders<T, H> as handler::HttpResponse>::to_result$")
    ext = f.live_calls(r"iter::Extend::extend$|http::HeaderMap::<T>::extend$")
    ctx.check(R, "one-extend", len(ext) == 1, "extend calls: %d" % len(ext), f)
    ins = _insert_sites(ds, f)
    ctx.check(R, "declared-headers-inserted", len(ins) >= 1, "HeaderMap insert sites: %d" % len(ins), f)
    if len(ext) != 1 or not ins:
        return
    ebb, et = ext[0]
    es = f.slice(et["args"][1])
    pf = es.param_fields()
    ctx.check(R, "extend-source-is-other_headers", es.params() == [1] and only_plumbing(es) and all(any("other_headers" in e for e in p[1]) for p in pf),
              "extend argument derives from %s" % pf, (f, ebb))
    er = f.slice(et["args"][0])
    ehm = er.calls(r"http::Response::<T>::headers_mut$")
    after = f.reachable(f.succ(ebb)) if f.succ(ebb) else set()
    for n, (sbb, t, g) in enumerate(ins):
        if sbb is None:
            ctx.lost(R, "call site of the closure holding a HeaderMap insert")
            continue
        before = ebb in f.reachable(sbb) and sbb not in after
        ctx.check(R, "insert-before-extend:%d" % n, before,
                  "insert of a declared header: extend reachable afterwards=%s, insert reachable after extend=%s (a later insert would override the explicit header)" % (
                      ebb in f.reachable(sbb), sbb in after), (f, sbb))
        from_k, tk = _declared_component(ds, g, t["args"][1], NAME_CONV, 0)
        from_v, tv = _declared_component(ds, g, t["args"][2], VALUE_CONV, 1)
        ctx.check(R, "declared-name-and-value-from-to_map:%d" % n, from_k and from_v,
                  "inserted name is the converted key of an element of to_map(..)'s Ok map: %s (comes from %s); inserted value is that element's converted value: %s (comes from %s)" % (
                      from_k, tk, from_v, tv), (f, sbb))
        # insert and extend write to the header map of the same response (the same or another headers_mut() borrow of it)
        ro = Origin(ds, g, t["args"][0])
        iroots = set(borrow_root(h_, ht["args"][0]) for h_, c, hbb, ht in ro.callees() if re.search(r"http::Response::<T>::headers_mut$", c) and h_ is f)
        eroots = set(borrow_root(f, ht["args"][0]) for c, hbb, ht in ehm)
        same = bool(iroots) and iroots == eroots and None not in iroots and not ro.bad_callees([r"http::Response::<T>::headers_mut$"]) and not ro.unresolved
        ctx.check(R, "same-header-map:%d" % n, same, "insert and extend act on headers_mut() of the same response (locals %s / %s): %s" % (sorted(map(str, iroots)), sorted(map(str, eroots)), same), (f, sbb))
    tm = f.live_calls(r"^to_map::to_map$")
    for bb, t in tm:
        ts = f.slice(t["args"][0])
        pf = ts.param_fields()
        ctx.check(R, "to_map-input-is-structured_headers", ts.params() == [1] and only_plumbing(ts) and all(any("structured_headers" in e for e in p[1]) for p in pf),
                  "to_map argument derives from %s" % pf, (f, bb))
    if not tm:
        ctx.lost(R, "to_map call in to_result")
    oks = ret_ok_sites(f)
    for b, stt in oks:
        ctx.check(R, "ok-after-extend", f.dominates(ebb, b), "Ok(result) dominated by extend(other_headers): %s" % f.dominates(ebb, b), (f, b))
        sl = f.slice(stt["rv"]["ops"][0])
        into = sl.calls(r"convert::Into::into$")
        ok = False
        for c, ibb, it in into:
            isl = f.slice(it["args"][0])
            if isl.params() == [1] and all(any(e.endswith(":body") for e in p[1]) for p in isl.param_fields()):
                ok = True
        bad = callee_allow(sl, PLUMBING)
        same = bool(ehm) and all(operand_local(ht["args"][0]) is not None or True for _, _, ht in ehm)
        # headers_mut receiver is the returned response
        hm_ok = False
        for c, hbb, ht in ehm:
            hs = f.slice(ht["args"][0])
            if hs.locals() & sl.locals():
                hm_ok = True
        ctx.check(R, "result-is-body.into()", ok and not bad and hm_ok,
                  "returned response derives from self.body.into()=%s (other callees %s); headers_mut() borrows that response=%s" % (ok, [b[0] for b in bad], hm_ok), (f, b))
    if not oks:
        ctx.lost(R, "Ok(result) in to_result")


VALID = r"HeaderValue::from_str$|HeaderValue as .*::(from_str|try_from)$"
HEADERS_NEW = r"^handler::HttpResponseHeaders::<T, H>::new$"
EMPTY_MAP = r"^http::HeaderMap::new$|^http::HeaderMap::<T>::new$|^<http::HeaderMap(<.*>)? as std::default::Default>::default$|^std::default::Default::default$"


def _validation_calls(f):
    """Calls that parse a string as an http::HeaderValue: HeaderValue::from_str / FromStr / TryFrom, or str::parse::<HeaderValue>()."""
    return [(bb, t) for bb, t in f.live_calls() if re.search(VALID, t.get("callee") or "") or
            (re.search(r"str::<impl str>::parse$", t.get("callee") or "") and any(norm_ty(g).endswith("HeaderValue") for g in (t.get("gargs") or [])))]


def _empty_header_map(f, op):
    """The operand is a fresh, empty HeaderMap (HeaderMap::new() / ::default(), possibly let-bound)."""
    ps = sources(f, op)
    return bool(ps) and all(p.kind() == "call" and not p.path and re.search(EMPTY_MAP, p.root[2]) and not p.root[4]["args"] and
                            f.local_ty(p.root[1]).startswith("http::HeaderMap") for p in ps)


def _headers_construction(f, p):
    """An Ok payload source p that is an HttpResponseHeaders value constructed here: {bb, headers (place of the structured
    headers handed in), extra_ok (no other header goes in)} — by HttpResponseHeaders::new(status, headers) or a struct literal."""
    if p.path:
        return None
    if p.is_call(HEADERS_NEW):
        t = p.root[4]
        a = t["args"][1] if len(t["args"]) == 2 else None
        if a is None or a.get("k") not in ("copy", "move"):
            return None
        return {"bb": p.root[3], "headers": a["pl"], "extra_ok": True, "how": "HttpResponseHeaders::new(..)"}
    if p.kind() == "agg" and p.root[2].get("adt") == "handler::HttpResponseHeaders":
        rv = p.root[2]
        sh, oh = agg_field_op({"rv": rv}, "structured_headers"), agg_field_op({"rv": rv}, "other_headers")
        bb = def_site(f, p.root[1], rv)
        if sh is None or oh is None or bb is None or sh.get("k") not in ("copy", "move"):
            return None
        return {"bb": bb, "headers": sh["pl"], "extra_ok": _empty_header_map(f, oh), "how": "HttpResponseHeaders { .. }"}
    return None


def _is_http_error_ctor(ds, callee, depth=0):
    """error::HttpError::for_*(..), or a crate-local helper every return value of which is such a constructor's result."""
    if re.search(r"^error::HttpError::for_", callee or ""):
        return True
    g = ds.F.get(callee)
    if g is None or depth > 2 or g.local_ty(0) != "error::HttpError":
        return False
    ps = sources(g, {"l": 0, "p": []})
    return bool(ps) and all(p.kind() == "call" and not p.path and _is_http_error_ctor(ds, p.root[2], depth + 1) for p in ps)


def r6_redirects(ctx):
    R = ctx.rule("C12.R6", "each redirect constructor returns either Ok(HttpResponseHeaders<status type with the right code, RedirectHeaders>) whose `location` is the argument, unmodified, "
                 "built only where HeaderValue::from_str(&location) is known to have succeeded, or Err(an HttpError built from that validation's error, only where it is known to have failed) "
                 "— decided from the sources of the Ok / Err payloads of the return value on the normalised view; HttpResponseHeaders::new stores the given headers and no others", floor=21)
    ds = ctx.dsn
    codes = {im["self"]: im["status"] for im in coded_impls(ctx.ds)}
    statuses = []
    for name, want in sorted(REDIRECTS.items()):
        f = ds.one(r"^handler::%s$" % name)
        if f is None:
            ctx.lost(R, "function handler::%s" % name)
            continue
        # the validation: a HeaderValue parse of the unmodified argument
        allv = _validation_calls(f)
        checks = []
        for bb, t in allv:
            sl = f.slice(t["args"][0])
            if sl.params() == [1] and only_plumbing(sl, [r"String::as_str$", r"String::as_bytes$"]):
                checks.append(bb)
        ctx.check(R, "%s:validates-location" % name, len(checks) >= 1, "HeaderValue validation calls: %d, on the unmodified location argument: %d" % (len(allv), len(checks)), f)
        oc = CheckOutcome(f, checks)
        # the status is a type-level fact: T of the HttpResponseHeaders<T, RedirectHeaders> the constructor returns (to_result sends T::STATUS_CODE, C12.R2/R5)
        m = re.match(r"^std::result::Result<handler::HttpResponseHeaders<(.+), handler::RedirectHeaders>, error::HttpError>$", f.local_ty(0) or "")
        st_ty = norm_ty(m.group(1)) if m else None
        code = codes.get(st_ty)
        statuses.append(st_ty)
        # success: every source of the Ok payload is a response constructed here, where the validation has passed, around the argument
        oks = result_payload_sources(f, 0, "Ok")
        if not oks:
            ctx.lost(R, "a source of the Ok payload returned by %s" % name)
            continue
        foreign = []
        for p in oks:
            c = _headers_construction(f, p)
            if c is None:
                foreign.append(repr(p))
                continue
            bb = c["bb"]
            passed = oc.passed(bb)
            ctx.check(R, "%s:ok-dominated-by-valid-location" % name, passed,
                      "the response (%s) %s built only where the validation of the location is known to have returned Ok (%d Ok edges, %d is_ok/is_err tests)" % (
                          c["how"], "is" if passed else "is NOT", len(oc.ok), len(oc.ok_atoms) + len(oc.err_atoms)), (f, bb))
            leak = oc.failure_reaches(bb)
            ctx.check(R, "%s:invalid-location-is-refused" % name, passed and not leak, "the failure side of the validation does not reach the construction: %s" % (passed and not leak), (f, bb))
            lp = field_place(f, c["headers"], "handler::RedirectHeaders", "location")
            locs = sources(f, lp, transparent=VALUE_PRESERVING) if lp is not None else []
            loc_ok = bool(locs) and all(q.kind() == "param" and q.root[1] == 1 and not q.path for q in locs)
            ctx.check(R, "%s:status-and-location" % name, code == want and loc_ok and c["extra_ok"],
                      "status type %s has STATUS_CODE %s (want %d); RedirectHeaders.location comes from %s (want the argument, unmodified); no other header: %s" % (
                          st_ty, code, want, locs, c["extra_ok"]), (f, bb))
        # failure: every source of the Err payload is an HttpError constructor called where the validation is known to have failed, with that validation's error
        errs = result_payload_sources(f, 0, "Err")
        bad_err = []
        for p in errs:
            if p.kind() != "call" or p.path or not _is_http_error_ctor(ds, p.root[2]):
                bad_err.append("%r is not an HttpError constructor" % p)
                continue
            bb, t = p.root[3], p.root[4]
            if not oc.failed(bb):
                bad_err.append("%s is called where the validation is not known to have failed" % p.root[2])
            if not any(cbb in checks for a in t["args"] for c_, cbb, ct in f.slice(a).callees):
                bad_err.append("%s is not given the validation's error" % p.root[2])
        ctx.check(R, "%s:error-from-the-failed-validation" % name, bool(errs) and not bad_err,
                  "sources of the Err payload: %s%s" % (errs, "; " + "; ".join(bad_err) if bad_err else " — HttpError constructors on the failure side of the validation, given its error"), f)
        ctx.check(R, "%s:returns-only-validated-or-error" % name, not foreign and bool(errs),
                  "sources of the Ok payload: %s%s" % (oks, "; not a response constructed here: %s" % foreign if foreign else ""), f)
    ctx.check(R, "three-distinct-status-types", len(set(statuses)) == 3, "status types used by the three constructors: %s" % sorted(set(s or "?" for s in statuses)), nontrivial=False)
    # HttpResponseHeaders::new(body, headers) keeps the given headers as the declared ones and starts with no explicit header
    nf = ds.one(HEADERS_NEW.replace("<T, H>", "<T, H>"))
    if nf is None:
        ctx.lost(R, "function handler::HttpResponseHeaders::new")
    else:
        vals = sources(nf, {"l": 0, "p": []})
        good = bool(vals)
        for p in vals:
            rv = p.root[2] if p.kind() == "agg" and not p.path else None
            sh = agg_field_op({"rv": rv}, "structured_headers") if rv and rv.get("adt") == "handler::HttpResponseHeaders" else None
            oh = agg_field_op({"rv": rv}, "other_headers") if sh is not None else None
            shs = sources(nf, sh, transparent=[]) if sh is not None else []
            good = good and sh is not None and oh is not None and bool(shs) and all(q.kind() == "param" and q.root[1] == 2 and not q.path for q in shs) and _empty_header_map(nf, oh)
        ctx.check(R, "new-stores-the-given-headers-only", good, "HttpResponseHeaders::new returns Self { structured_headers: the `headers` argument, other_headers: an empty HeaderMap, .. }: %s" % good, nf)
    # the header is named `location`: RedirectHeaders has exactly that one field and its Serialize impl writes that key
    a = ctx.ds.adts.get("handler::RedirectHeaders")
    if not a:
        ctx.lost(R, "ADT handler::RedirectHeaders")
        return
    fields = [(x["name"], x["ty"]) for x in a["variants"][0]["fields"]]
    ser = [g for g in ctx.ds.fns(r"Serialize for handler::RedirectHeaders>::serialize$")]
    keys = set()
    for g in ser:
        for bb, t in g.live_calls(r"SerializeStruct::serialize_field$"):
            v = t["args"][1].get("val") or {}
            if "str" in v:
                keys.add(v["str"])
    ctx.check(R, "location-header-name", fields == [("location", "std::string::String")] and keys == {"location"},
              "RedirectHeaders fields %s; keys written by its Serialize impl %s" % (fields, sorted(keys)), ser[0] if ser else None)


def r7_to_map(ctx):
    R = ctx.rule("C12.R7", "to_map stores each declared header under its field name with the string value unmodified", floor=7)
    ds = ctx.dsn     # normalised view: `let v = x?; insert(k, v); Ok(())` and `x.map(|v| { insert(k, v); })` are one program
    sf = ctx.need_fn(ds, R, r"^<to_map::MapSerializeStruct as .*SerializeStruct>::serialize_field$")
    ins = sf.live_calls(r"BTreeMap::<K, V, A>::insert$")
    ctx.check(R, "one-insert", len(ins) == 1, "BTreeMap::insert calls in serialize_field: %d" % len(ins), sf)
    for bb, t in ins:
        ks = sf.slice(t["args"][1])
        ctx.check(R, "key-is-field-name", ks.params() == [2] and only_plumbing(ks, TO_STRING), "map key derives from params %s via %s" % (ks.params(), ks.callee_names()), (sf, bb))
        vs = sf.slice(t["args"][2])
        sers = vs.calls(r"Serialize::serialize$")
        okv = False
        for c, sbb, stt in sers:
            a0 = sf.slice(stt["args"][0])
            a1 = sf.slice(stt["args"][1])
            okv = a0.params() == [3] and not a0.callees and any(a[0] == "agg" and a[1] == "to_map::StringSerializer" for a in a1.atoms)
        ctx.check(R, "value-is-string-serialisation-of-field", okv and only_plumbing(vs, [r"Serialize::serialize$"]),
                  "map value = value.serialize(StringSerializer)=%s; callees %s" % (okv, vs.callee_names()), (sf, bb))
        rs = sf.slice(t["args"][0])
        ctx.check(R, "insert-into-output", rs.params() == [1] and rs.reads_field("output") and not rs.callees, "receiver is self.output", (sf, bb))
    # Added after adversary change C12-I (`if !value.is_empty() { insert }`: a declared header whose value is the empty string -- a
    # legal header value, and a legal Location -- was silently left out): a field that serialised successfully is always stored
    if len(ins) == 1:
        okr = ret_ok_sites(sf)
        ctx.check(R, "every-serialised-field-is-stored", bool(okr) and all(sf.dominates(ins[0][0], b) for b, _ in okr),
                  "Ok(..) returns of serialize_field: %d, each reached only through the insert into self.output: %s" % (len(okr), [sf.dominates(ins[0][0], b) for b, _ in okr]), (sf, ins[0][0]))
    ss = ctx.need_fn(ds, R, r"^<&mut to_map::StringSerializer as .*Serializer>::serialize_str$")
    oks = ret_ok_sites(ss)
    for b, stt in oks:
        sl = ss.slice(stt["rv"]["ops"][0])
        ctx.check(R, "string-value-unmodified", sl.params() == [2] and only_plumbing(sl, TO_STRING), "serialize_str returns Ok(v.to_string()): params %s via %s" % (sl.params(), sl.callee_names()), (ss, b))
    if not oks:
        ctx.lost(R, "Ok(..) in StringSerializer::serialize_str")
    en = ctx.need_fn(ds, R, r"^<to_map::MapSerializeStruct as .*SerializeStruct>::end$")
    for b, stt in ret_ok_sites(en):
        sl = en.slice(stt["rv"]["ops"][0])
        ctx.check(R, "end-returns-output", sl.params() == [1] and sl.reads_field("output") and not sl.callees, "end() returns Ok(self.output)", (en, b))
    st = ctx.need_fn(ds, R, r"^<&mut to_map::MapSerializer<Input> as .*Serializer>::serialize_struct$")
    tm = ctx.need_fn(ds, R, r"^to_map::to_map$")
    rs = tm.slice({"l": 0, "p": []})
    sc = rs.calls(r"Serialize::serialize$")
    ok = False
    for c, bb, t in sc:
        a0 = tm.slice(t["args"][0])
        ok = a0.params() == [1] and not a0.callees
    ctx.check(R, "to_map-serialises-its-input", ok and only_plumbing(rs, [r"Serialize::serialize$"]), "to_map returns input.serialize(MapSerializer): %s" % ok, tm)


RULES = [("C12.R1", r1_status_table), ("C12.R2", r2_for_object), ("C12.R3", r3_json_body), ("C12.R4", r4_empty_body),
         ("C12.R5", r5_header_order), ("C12.R6", r6_redirects), ("C12.R7", r7_to_map)]

H = "dropshot/src/handler.rs"
SELFTEST = [
    {"name": "extend-before-declared", "kind": "mutant", "expect": ["C12.R5"],
     "edits": [(H, "        headers.extend(other_headers);\n\n        Ok(result)", "        Ok(result)"),
               (H, "        for (key, value) in header_map {", "        headers.extend(other_headers);\n        for (key, value) in header_map {")],
     "why": "declared headers are inserted after the explicit ones, so a declared header overrides an explicit header of the same name"},
    {"name": "found-without-validation", "kind": "mutant", "expect": ["C12.R6"],
     "edits": [(H, ") -> Result<HttpResponseFound, HttpError> {\n    let _ = http::HeaderValue::from_str(&location)\n        .map_err(|e| http_redirect_error(e, &location))?;\n",
                ") -> Result<HttpResponseFound, HttpError> {\n")],
     "why": "an illegal Location value is no longer refused by http_response_found"},
    {"name": "see-other-builds-found", "kind": "mutant", "expect": ["C12.R6"],
     "edits": [(H, "    HttpResponseHeaders<HttpResponseSeeOtherStatus, RedirectHeaders>;", "    HttpResponseHeaders<HttpResponseFoundStatus, RedirectHeaders>;"),
               (H, "    Ok(HttpResponseHeaders::new(\n        HttpResponseSeeOtherStatus,", "    Ok(HttpResponseHeaders::new(\n        HttpResponseFoundStatus,")],
     "why": "http_response_see_other answers 302 instead of 303"},
    {"name": "created-status-200", "kind": "mutant", "expect": ["C12.R1"],
     "edits": [(H, "const STATUS_CODE: StatusCode = StatusCode::CREATED;", "const STATUS_CODE: StatusCode = StatusCode::OK;")],
     "why": "HttpResponseCreated is sent with 200 instead of its declared 201"},
    {"name": "json-octet-stream", "kind": "mutant", "expect": ["C12.R3"],
     "edits": [(H, ".header(http::header::CONTENT_TYPE, CONTENT_TYPE_JSON)", ".header(http::header::CONTENT_TYPE, CONTENT_TYPE_OCTET_STREAM)")],
     "why": "JSON bodies are labelled application/octet-stream"},
    {"name": "created-uses-ok-for_object", "kind": "mutant", "expect": ["C12.R2"],
     "edits": [(H, "        HttpResponseCreated::for_object(response.0)", "        HttpResponseOk::for_object(response.0)")],
     "why": "HttpResponseCreated is converted with HttpResponseOk's status"},
    {"name": "empty-sets-content-type", "kind": "mutant", "expect": ["C12.R4"],
     "edits": [(H, "        Ok(builder.body(Body::empty())?)", "        Ok(builder.header(http::header::CONTENT_TYPE, CONTENT_TYPE_JSON).body(Body::empty())?)")],
     "why": "no-content and redirect responses carry a content type"},
    {"name": "to_map-trims-value", "kind": "mutant", "expect": ["C12.R7"],
     "edits": [("dropshot/src/to_map.rs", "        Ok(v.to_string())", "        Ok(v.trim().to_string())")],
     "why": "declared header values are not sent as given"},
    {"name": "for_object-literal-status", "kind": "mutant", "expect": ["C12.R2"],
     "edits": [(H, "Response::builder().status(Self::STATUS_CODE)", "Response::builder().status(StatusCode::OK)")],
     "why": "every typed response is sent with 200"},
    {"name": "json-overrides-status", "kind": "mutant", "expect": ["C12.R3"],
     "edits": [(H, "        Ok(builder\n            .header(http::header::CONTENT_TYPE, CONTENT_TYPE_JSON)", "        Ok(builder\n            .status(StatusCode::OK)\n            .header(http::header::CONTENT_TYPE, CONTENT_TYPE_JSON)")],
     "why": "the JSON serialiser overrides the declared status with 200"},
    {"name": "redirect-rewrites-location", "kind": "mutant", "expect": ["C12.R6"],
     "edits": [(H, "        HttpResponseTemporaryRedirectStatus,\n        RedirectHeaders { location },", "        HttpResponseTemporaryRedirectStatus,\n        RedirectHeaders { location: location.to_lowercase() },")],
     "why": "the redirect does not carry the given Location"},
    {"name": "declared-insert-after-extend-second", "kind": "mutant", "expect": ["C12.R5"],
     "edits": [(H, "        headers.extend(other_headers);\n\n        Ok(result)", "        headers.extend(other_headers);\n        if let Some(v) = result.headers().get(\"x-declared\").cloned() { result.headers_mut().insert(\"x-declared\", v); }\n\n        Ok(result)")],
     "why": "a header insert after extend(other_headers) can override an explicit header"},

    {"name": "rename-serialized", "kind": "benign",
     "edits": [(H, "        let serialized = serde_json::to_string(&self)", "        let json_text = serde_json::to_string(&self)"),
               (H, "            .body(serialized.into())?)", "            .body(json_text.into())?)")],
     "why": "behaviour-preserving: local renamed"},
    {"name": "found-if-let-validation", "kind": "benign",
     "edits": [(H, ") -> Result<HttpResponseFound, HttpError> {\n    let _ = http::HeaderValue::from_str(&location)\n        .map_err(|e| http_redirect_error(e, &location))?;\n",
                ") -> Result<HttpResponseFound, HttpError> {\n    if let Err(e) = http::HeaderValue::from_str(&location) {\n        return Err(http_redirect_error(e, &location));\n    }\n")],
     "why": "behaviour-preserving: `?` on map_err rewritten as if-let/return"},
    {"name": "for_object-named-builder", "kind": "benign",
     "edits": [(H, "        body.to_response(Response::builder().status(Self::STATUS_CODE))", "        let builder = Response::builder();\n        let with_status = builder.status(Self::STATUS_CODE);\n        body.to_response(with_status)")],
     "why": "behaviour-preserving: temporaries named"},
    {"name": "from-ok-destructure", "kind": "benign",
     "edits": [(H, "        HttpResponseOk::for_object(response.0)", "        let HttpResponseOk(inner) = response;\n        HttpResponseOk::for_object(inner)")],
     "why": "behaviour-preserving: tuple field taken by pattern"},
    {"name": "to_result-reordered", "kind": "benign",
     "edits": [(H, "        let mut result = body.into()?;\n        // Add in both the structured and other headers.\n        let headers = result.headers_mut();\n        let header_map = to_map(&structured_headers).map_err(|e| {\n            HttpError::for_internal_error(format!(\n                \"error processing headers: {}\",\n                e.0\n            ))\n        })?;\n",
                "        let mut result = body.into()?;\n        let header_map = to_map(&structured_headers).map_err(|e| {\n            HttpError::for_internal_error(format!(\n                \"error processing headers: {}\",\n                e.0\n            ))\n        })?;\n        let headers = result.headers_mut();\n")],
     "why": "behaviour-preserving: independent statements reordered"},
    {"name": "to_result-while-let", "kind": "benign",
     "edits": [(H, "        for (key, value) in header_map {", "        let mut declared = header_map.into_iter();\n        while let Some((key, value)) = declared.next() {")],
     "why": "behaviour-preserving: for loop written as while-let"},
    {"name": "found-map-closure", "kind": "benign",
     "edits": [(H, ") -> Result<HttpResponseFound, HttpError> {\n    let _ = http::HeaderValue::from_str(&location)\n        .map_err(|e| http_redirect_error(e, &location))?;\n    Ok(HttpResponseHeaders::new(\n        HttpResponseFoundStatus,\n        RedirectHeaders { location },\n    ))",
                ") -> Result<HttpResponseFound, HttpError> {\n    http::HeaderValue::from_str(&location)\n        .map_err(|e| http_redirect_error(e, &location))\n        .map(|_| ())\n        .map(|()| {\n            HttpResponseHeaders::new(\n                HttpResponseFoundStatus,\n                RedirectHeaders { location: location.clone() },\n            )\n        })")],
     "why": "behaviour-preserving: `check?; Ok(new(..))` written as check.map(|()| new(..)): the response is built inside a closure that Result::map runs only for a valid location"},
    {"name": "found-map-closure-unvalidated", "kind": "mutant", "expect": ["C12.R6"],
     "edits": [(H, ") -> Result<HttpResponseFound, HttpError> {\n    let _ = http::HeaderValue::from_str(&location)\n        .map_err(|e| http_redirect_error(e, &location))?;\n    Ok(HttpResponseHeaders::new(\n        HttpResponseFoundStatus,\n        RedirectHeaders { location },\n    ))",
                ") -> Result<HttpResponseFound, HttpError> {\n    let unchecked: Result<(), HttpError> = Ok(());\n    unchecked.map(|()| {\n        HttpResponseHeaders::new(\n            HttpResponseFoundStatus,\n            RedirectHeaders { location },\n        )\n    })")],
     "why": "the map-closure idiom without any validation of the location"},
    {"name": "to_result-try_for_each", "kind": "benign",
     "edits": [(H, "        for (key, value) in header_map {\n            let key = http::header::HeaderName::try_from(key)\n                .map_err(|e| HttpError::for_internal_error(e.to_string()))?;\n            let value = http::header::HeaderValue::try_from(value)\n                .map_err(|e| HttpError::for_internal_error(e.to_string()))?;\n            headers.insert(key, value);\n        }\n", "        header_map.into_iter().try_for_each(|(key, value)| {\n            let key = http::header::HeaderName::try_from(key)\n                .map_err(|e| HttpError::for_internal_error(e.to_string()))?;\n            let value = http::header::HeaderValue::try_from(value)\n                .map_err(|e| HttpError::for_internal_error(e.to_string()))?;\n            headers.insert(key, value);\n            Ok::<(), HttpError>(())\n        })?;\n")],
     "why": "behaviour-preserving: for loop over the declared headers written as into_iter().try_for_each(closure)?; the insert sits in a closure, name / value are the closure's items, the header map is a captured borrow"},
    {"name": "to_result-try_for_each-after-extend", "kind": "mutant", "expect": ["C12.R5"],
     "edits": [(H, "        for (key, value) in header_map {\n            let key = http::header::HeaderName::try_from(key)\n                .map_err(|e| HttpError::for_internal_error(e.to_string()))?;\n            let value = http::header::HeaderValue::try_from(value)\n                .map_err(|e| HttpError::for_internal_error(e.to_string()))?;\n            headers.insert(key, value);\n        }\n\n        headers.extend(other_headers);\n", "        headers.extend(other_headers);\n        header_map.into_iter().try_for_each(|(key, value)| {\n            let key = http::header::HeaderName::try_from(key)\n                .map_err(|e| HttpError::for_internal_error(e.to_string()))?;\n            let value = http::header::HeaderValue::try_from(value)\n                .map_err(|e| HttpError::for_internal_error(e.to_string()))?;\n            headers.insert(key, value);\n            Ok::<(), HttpError>(())\n        })?;\n")],
     "why": "declared headers inserted (in the closure idiom) after the explicit ones"},
    {"name": "json-returns-map_err", "kind": "benign",
     "edits": [(H, "        Ok(builder\n            .header(http::header::CONTENT_TYPE, CONTENT_TYPE_JSON)\n            .body(serialized.into())?)",
                "        builder\n            .header(http::header::CONTENT_TYPE, CONTENT_TYPE_JSON)\n            .body(serialized.into())\n            .map_err(HttpError::from)")],
     "why": "behaviour-preserving: Ok(x?) written as x.map_err(HttpError::from): no explicit Ok(..) site any more"},
    {"name": "from-ok-let-result", "kind": "benign",
     "edits": [(H, "        HttpResponseOk::for_object(response.0)", "        let result = HttpResponseOk::for_object(response.0);\n        result")],
     "why": "behaviour-preserving: tail expression bound to a local first"},
    {"name": "json-to_vec", "kind": "benign",
     "edits": [(H, "        let serialized = serde_json::to_string(&self)", "        let serialized = serde_json::to_vec(&self)")],
     "why": "behaviour-preserving: same JSON bytes via to_vec"},
    {"name": "found-validation-helper-match", "kind": "benign",
     "edits": [(H, ") -> Result<HttpResponseFound, HttpError> {\n    let _ = http::HeaderValue::from_str(&location)\n        .map_err(|e| http_redirect_error(e, &location))?;\n    Ok(HttpResponseHeaders::new(\n        HttpResponseFoundStatus,\n        RedirectHeaders { location },\n    ))",
                ") -> Result<HttpResponseFound, HttpError> {\n    let headers = checked_redirect_headers(location)?;\n    Ok(HttpResponseHeaders::new(HttpResponseFoundStatus, headers))\n}\n\nfn checked_redirect_headers(location: String) -> Result<RedirectHeaders, HttpError> {\n    match http::HeaderValue::from_str(&location) {\n        Ok(_) => Ok(RedirectHeaders { location }),\n        Err(error) => Err(HttpError::for_internal_error(format!(\n            \"error encoding redirect URL {:?}: {:#}\",\n            location, error\n        ))),\n    }")],
     "why": "behaviour-preserving: validation + error construction + RedirectHeaders moved into a helper with an explicit match; the constructor's Ok payload still has the argument as "
            "Location and is built only on the Ok side of the check, its Err payload is the HttpError built from the check's error (format! now inlined into the constructor)"},
    {"name": "found-is-err-guard", "kind": "benign",
     "edits": [(H, ") -> Result<HttpResponseFound, HttpError> {\n    let _ = http::HeaderValue::from_str(&location)\n        .map_err(|e| http_redirect_error(e, &location))?;\n",
                ") -> Result<HttpResponseFound, HttpError> {\n    let checked = http::HeaderValue::from_str(&location);\n    if checked.is_err() {\n        return Err(http_redirect_error(checked.unwrap_err(), &location));\n    }\n")],
     "why": "behaviour-preserving: the outcome of the validation tested with is_err() (path-sensitive bool fact) instead of a match on the Result"},
    {"name": "found-guard-inverted", "kind": "mutant", "expect": ["C12.R6"],
     "edits": [(H, ") -> Result<HttpResponseFound, HttpError> {\n    let _ = http::HeaderValue::from_str(&location)\n        .map_err(|e| http_redirect_error(e, &location))?;\n",
                ") -> Result<HttpResponseFound, HttpError> {\n    if let Ok(_) = http::HeaderValue::from_str(&location) {\n        return Err(HttpError::for_internal_error(location));\n    }\n")],
     "why": "the redirect is built exactly when the Location is NOT a legal header value, and legal ones are refused"},
    {"name": "found-error-on-valid-path", "kind": "mutant", "expect": ["C12.R6"],
     "edits": [(H, "    Ok(HttpResponseHeaders::new(\n        HttpResponseFoundStatus,\n        RedirectHeaders { location },\n    ))",
                "    if location.len() > 2048 {\n        return Ok(HttpResponseHeaders::new(HttpResponseFoundStatus, RedirectHeaders { location: String::from(\"/\") }));\n    }\n    Ok(HttpResponseHeaders::new(\n        HttpResponseFoundStatus,\n        RedirectHeaders { location },\n    ))")],
     "why": "a second Ok source whose Location is not the argument"},
    {"name": "to_result-collect-then-insert", "kind": "benign",
     "edits": [(H, "        for (key, value) in header_map {\n            let key = http::header::HeaderName::try_from(key)\n                .map_err(|e| HttpError::for_internal_error(e.to_string()))?;\n            let value = http::header::HeaderValue::try_from(value)\n                .map_err(|e| HttpError::for_internal_error(e.to_string()))?;\n            headers.insert(key, value);\n        }\n",
                "        let declared = header_map\n            .into_iter()\n            .map(|(key, value)| {\n                let name = http::header::HeaderName::try_from(key)\n                    .map_err(|e| HttpError::for_internal_error(e.to_string()))?;\n                http::header::HeaderValue::try_from(value)\n                    .map_err(|e| HttpError::for_internal_error(e.to_string()))\n                    .map(|value| (name, value))\n            })\n            .collect::<Result<Vec<_>, HttpError>>()?;\n        declared.into_iter().for_each(|(name, value)| {\n            headers.insert(name, value);\n        });\n")],
     "why": "behaviour-preserving: convert all declared headers first (map + collect into Result<Vec>), then insert them with for_each; name / value are traced through the "
            "pipeline to the key / value of an element of to_map(..)"},
    {"name": "to_result-swaps-name-and-value", "kind": "mutant", "expect": ["C12.R5"],
     "edits": [(H, "            let key = http::header::HeaderName::try_from(key)\n", "            let (key, value) = (value, key);\n            let key = http::header::HeaderName::try_from(key)\n")],
     "why": "the declared header is sent with name and value exchanged"},
    {"name": "serialize_field-map-closure", "kind": "benign",
     "edits": [("dropshot/src/to_map.rs", "        let mut serializer = StringSerializer;\n        let value = value.serialize(&mut serializer)?;\n        self.output.insert(key.to_string(), value);\n        Ok(())",
                "        value.serialize(&mut StringSerializer).map(|text| {\n            self.output.insert(String::from(key), text);\n        })")],
     "why": "behaviour-preserving: `let v = x?; insert(k, v); Ok(())` written as x.map(|v| { insert(k, v); }) — one program on the normalised view"},
]


SELFTEST += [
    {"name": "to_map-insert-result-bound", "kind": "benign", "why": "behaviour-preserving: the previous value returned by insert is bound to an unused local",
     "edits": [("dropshot/src/to_map.rs", "        self.output.insert(key.to_string(), value);\n        Ok(())", "        let _previous = self.output.insert(key.to_string(), value);\n        Ok(())")]},
    {"name": "to_map-empty-values-dropped", "kind": "mutant", "expect": ["C12.R7"], "why": "a declared header whose value is the empty string is silently left out",
     "edits": [("dropshot/src/to_map.rs", "        self.output.insert(key.to_string(), value);\n        Ok(())", "        if !value.is_empty() {\n            self.output.insert(key.to_string(), value);\n        }\n        Ok(())")]},
]
