"""C19 helper: symbolic evaluation of `quote!`-built token streams from MIR.

A `quote!` / `quote_spanned!` expansion is, in MIR, a `TokenStream::new()` local that is
handed (`&mut`) to a sequence of `quote::__private::push_*` calls and
`ToTokens::to_tokens(&x, &mut s)` calls.  `QuoteEval` recovers for any local the *template*
it holds: the emitted token sequence with every interpolation hole replaced by a symbolic
term describing where the interpolated value comes from (a field of a parameter, a call, a
closure result, another template ...).  Values that are chosen by control flow become
alternatives labelled with the branch conditions that select them.

Nothing here looks at block numbers, lines or source text: events are ordered by CFG
dominance, conditions come from the switch edges that dominate a definition.

Terms (nested tuples):
  ("param", i, name) ("upvar", i, name) ("arg", i) ("lit", json) ("const", path, json) ("fn", path)
  ("call", callee, (args..), resolved, site) ("field", base, name)      [site = block of the call, identity only] ("as", base, variant)
  ("agg", adt, variant, (ops..)) ("tuple", (ops..)) ("array", (ops..)) ("closure", def, (caps..))
  ("discr", x) ("binop", op, a, b) ("unop", op, a) ("cast", x)
  ("ts", (tokens..)) ("alt", ((guards, term)..)) ("opt", cond, payload) ("then", cond, payload)
  ("itermap", src, body) ("some", x) ("item", x) ("unknown", why) ("cycle", l, frame) ("undef", l)
  ("call", STRBUF, (init, appended..), None, key)   a String appended to in place (QuoteEval.strbufs[key] has the append sites)
Tokens:
  ("id", s) ("p", s) ("lit", s) ("grp", delim, (tokens..)) ("hole", term, impl) ("rep", (tokens..))
  ("cond", guards, (tokens..)) ("?", callee)
After `expand`: additionally ("alt", ((guards, (tokens..))..)) and ("when", guards, (tokens..)).
Guards: tuple of (term, value) with value a variant name / True / False / "otherwise".
"""
import json
import re

PUNCT = {"colon2": "::", "dot": ".", "comma": ",", "lt": "<", "gt": ">", "eq": "=", "pound": "#", "semi": ";",
         "colon": ":", "and": "&", "star": "*", "bang": "!", "rarrow": "->", "fat_arrow": "=>", "add": "+",
         "sub": "-", "or": "|", "question": "?", "underscore": "_", "at": "@", "not": "!", "div": "/",
         "and_and": "&&", "or_or": "||", "eq_eq": "==", "ne": "!=", "le": "<=", "ge": ">=", "dot2": "..",
         "dot3": "...", "dot_dot_eq": "..=", "rem": "%", "caret": "^", "shl": "<<", "shr": ">>", "dollar": "$",
         "tilde": "~", "larrow": "<-", "add_eq": "+=", "sub_eq": "-=", "mul_eq": "*=", "div_eq": "/="}
DELIM = {"Parenthesis": "(", "Brace": "{", "Bracket": "[", "None": "<none>"}
CLOSE = {"(": ")", "{": "}", "[": "]", "<none>": "</none>"}

RX_PUSH = re.compile(r"^quote::__private::push_(\w+?)(_spanned)?$")
RX_PARSE = re.compile(r"^quote::__private::parse(_spanned)?$")
RX_TOTOKENS = re.compile(r"^quote::ToTokens::to_tokens$")
RX_APPEND = re.compile(r"(iter::Extend::extend|TokenStreamExt::append_all|TokenStreamExt::append)$")
RX_TSNEW = re.compile(r"^proc_macro2::TokenStream::new$")
RX_OPTMAP = re.compile(r"option::Option::<T>::map$")
RX_THEN = re.compile(r"bool::<impl bool>::then$")
RX_THENSOME = re.compile(r"bool::<impl bool>::then_some$")
RX_OPTZIP = re.compile(r"option::Option::<T>::zip$")
RX_MAPOR = re.compile(r"option::Option::<T>::map_or(_else)?$")
RX_ITERMAP = re.compile(r"iter::Iterator::map$")
RX_NEXT = re.compile(r"iter::Iterator::next$")
RX_VECNEW = re.compile(r"vec::Vec::<T>::(new|with_capacity)$")
RX_VECPUSH = re.compile(r"vec::Vec::<T, A>::push$")
RX_QITER = re.compile(r"RepAsIteratorExt::quote_into_iter$")
RX_STRING_TY = re.compile(r"^(std|alloc)::string::String$")
RX_STRPUSH = re.compile(r"string::String::(push_str|push)$")
STRBUF = "#String::append"   # pseudo-callee of the term standing for a String that is appended to in place
# calls that hand on the very same sequence of items / the same value (used only to look through
# iterator plumbing when naming the element of a repetition)
ITER_PLUMB = re.compile(r"(slice::<impl \[T\]>::iter|iter::IntoIterator::into_iter|iter::Iterator::collect|ops::Deref::deref|"
                        r"convert::AsRef::as_ref|Vec::<T, A>::as_slice|Vec::<T>::as_slice|clone::Clone::clone|iter::Iterator::cloned|iter::Iterator::copied)$")


def short(callee):
    c = re.sub(r"<[^<>]*>", "", callee or "?")
    c = re.sub(r"<[^<>]*>", "", c)
    parts = [p for p in c.split("::") if p]
    return "::".join(parts[-2:]) if len(parts) >= 2 else c


def show(t, depth=0):
    if depth > 12:
        return "…"
    k = t[0]
    d = depth + 1
    if k == "param":
        return t[2] or ("arg%d" % t[1])
    if k == "upvar":
        return "^%s" % (t[2] or t[1])
    if k == "arg":
        return "$%d" % t[1]
    if k == "lit":
        try:
            v = json.loads(t[1])
            if isinstance(v, dict) and "str" in v:
                return json.dumps(v["str"])
            if isinstance(v, dict) and "int" in v:
                return str(v["int"])
        except Exception:
            pass
        return t[1]
    if k == "const":
        return t[1].split("::")[-1]
    if k == "fn":
        return "fn " + short(t[1])
    if k == "call":
        return "%s(%s)" % (short(t[1]), ", ".join(show(a, d) for a in t[2]))
    if k == "field":
        return "%s.%s" % (show(t[1], d), t[2])
    if k == "as":
        return "(%s as %s)" % (show(t[1], d), t[2])
    if k == "agg":
        return "%s::%s{%s}" % (t[1].split("::")[-1], t[2], ", ".join(show(a, d) for a in t[3]))
    if k in ("tuple", "array"):
        return "(%s)" % ", ".join(show(a, d) for a in t[1])
    if k == "closure":
        return "closure"
    if k == "ts":
        return "quote{ %s }" % show_toks(t[1], d)
    if k == "alt":
        return "alt[%s]" % " | ".join("%s => %s" % (show_guards(g), show(x, d)) for g, x in t[1])
    if k == "opt":
        return "map(%s => %s)" % (show(t[1], d), show(t[2], d))
    if k == "then":
        return "then(%s => %s)" % (show(t[1], d), show(t[2], d))
    if k == "itermap":
        return "each(%s => %s)" % (show(t[1], d), show(t[2], d))
    if k in ("some", "item", "discr", "cast"):
        return "%s(%s)" % (k, show(t[1], d))
    if k == "unop":
        return "%s(%s)" % (t[1], show(t[2], d))
    if k == "binop":
        return "%s(%s, %s)" % (t[1], show(t[2], d), show(t[3], d))
    return "%s:%s" % (k, t[1] if len(t) > 1 else "")


def show_guards(gs):
    if not gs:
        return "always"
    return " & ".join("%s=%s" % (show(g[0]), g[1]) for g in gs)


def show_toks(toks, depth=0):
    out = []
    for t in toks:
        k = t[0]
        if k in ("id", "p"):
            out.append(t[1])
        elif k == "lit":
            out.append("`%s`" % t[1])
        elif k == "grp":
            out.append("%s %s %s" % (t[1], show_toks(t[2], depth + 1), CLOSE.get(t[1], "?")))
        elif k == "hole":
            out.append("⟨%s⟩" % show(t[1], depth + 1))
        elif k == "rep":
            out.append("#( %s )*" % show_toks(t[1], depth + 1))
        elif k == "cond":
            out.append("[if %s: %s]" % (show_guards(t[1]), show_toks(t[2], depth + 1)))
        elif k == "when":
            out.append("[when %s: %s]" % (show_guards(t[1]), show_toks(t[2], depth + 1)))
        elif k == "alt":
            out.append("{ %s }" % " | ".join("%s: %s" % (show_guards(g), show_toks(x, depth + 1)) for g, x in t[1]))
        else:
            out.append("?%s" % (t[1],))
    return " ".join(out)


# --------------------------------------------------------------------------- term queries
def walk(t, guards=True):
    """All sub-terms (pre-order), descending into tokens too.  With guards=False the branch
    conditions of alternatives are not visited (only the values that can flow)."""
    yield t
    k = t[0]
    if k == "call":
        for a in t[2]:
            yield from walk(a, guards)
    elif k in ("field", "as", "some", "item", "discr", "cast"):
        yield from walk(t[1], guards)
    elif k == "agg":
        for a in t[3]:
            yield from walk(a, guards)
    elif k in ("tuple", "array"):
        for a in t[1]:
            yield from walk(a, guards)
    elif k == "closure":
        for a in t[2]:
            yield from walk(a, guards)
    elif k == "ts":
        yield from walk_toks(t[1], guards)
    elif k == "alt":
        for g, x in t[1]:
            if guards:
                for gt, _ in g:
                    yield from walk(gt, guards)
            yield from walk(x, guards)
    elif k in ("opt", "then", "itermap"):
        yield from walk(t[1], guards)
        yield from walk(t[2], guards)
    elif k == "unop":
        yield from walk(t[2], guards)
    elif k == "binop":
        yield from walk(t[2], guards)
        yield from walk(t[3], guards)


def walk_toks(toks, guards=True):
    for t in toks:
        k = t[0]
        if k == "hole":
            yield from walk(t[1], guards)
        elif k == "grp":
            yield from walk_toks(t[2], guards)
        elif k == "rep":
            yield from walk_toks(t[1], guards)
        elif k in ("cond", "when"):
            if guards:
                for gt, _ in t[1]:
                    yield from walk(gt, guards)
            yield from walk_toks(t[2], guards)
        elif k == "alt":
            for g, x in t[1]:
                if guards:
                    for gt, _ in g:
                        yield from walk(gt, guards)
                yield from walk_toks(x, guards)


def rewrite(t, f):
    """Copy of term t in which every sub-term x with f(x) is not None is replaced by f(x) (outermost first;
    token streams are left as they are)."""
    r = f(t)
    if r is not None:
        return r
    k = t[0]
    rw = lambda x: rewrite(x, f)
    if k == "call":
        return ("call", t[1], tuple(rw(a) for a in t[2])) + tuple(t[3:])
    if k in ("field", "as"):
        return (k, rw(t[1]), t[2])
    if k in ("some", "item", "discr", "cast"):
        return (k, rw(t[1]))
    if k == "agg":
        return ("agg", t[1], t[2], tuple(rw(a) for a in t[3]))
    if k in ("tuple", "array"):
        return (k, tuple(rw(a) for a in t[1]))
    if k == "closure":
        return ("closure", t[1], tuple(rw(a) for a in t[2]))
    if k == "alt":
        return ("alt", tuple((tuple((rw(gt), gv) for gt, gv in g), rw(x)) for g, x in t[1]))
    if k in ("opt", "then", "itermap"):
        return (k, rw(t[1]), rw(t[2]))
    if k == "unop":
        return (k, t[1], rw(t[2]))
    if k == "binop":
        return (k, t[1], rw(t[2]), rw(t[3]))
    return t


def flat_arms(t, pre=()):
    """[(guards, value)] of a value chosen by (possibly nested) alternatives; a plain value is one arm."""
    if t[0] != "alt":
        return [(tuple(pre), t)]
    out = []
    for g, x in t[1]:
        out.extend(flat_arms(x, tuple(pre) + tuple(g)))
    return out


def lift_alts(t, limit=64):
    """`Ok(match x {a => A, b => B})` as `match x {a => Ok(A), b => Ok(B)}`: alternatives inside the fields of an
    aggregate are moved outside it (so that `let v = match ..; Ok(v)` reads like a match whose arms build Ok)."""
    if t[0] == "alt":
        return ("alt", tuple((g, lift_alts(x, limit)) for g, x in t[1]))
    if t[0] != "agg":
        return t
    ops = [lift_alts(o, limit) for o in t[3]]
    combos = [((), ())]
    for o in ops:
        arms = flat_arms(o) if o[0] == "alt" else [((), o)]
        combos = [(g0 + tuple(g), v0 + (v,)) for g0, v0 in combos for g, v in arms]
        if len(combos) > limit:
            return t
    if len(combos) == 1:
        return ("agg", t[1], t[2], tuple(ops))
    return ("alt", tuple((g, ("agg", t[1], t[2], v)) for g, v in combos))


def path_of(t):
    """("param", i, name).a.b  ->  (i, ("a","b")); derefs/casts are transparent.  None if not a pure path."""
    names = []
    while True:
        k = t[0]
        if k == "field":
            names.append(str(t[2]))
            t = t[1]
        elif k == "as":
            names.append("as " + str(t[2]))
            t = t[1]
        elif k == "cast":
            t = t[1]
        elif k in ("param", "upvar", "arg"):
            return (k, t[1], t[2] if len(t) > 2 else None, tuple(reversed(names)))
        else:
            return None


def leaves(t):
    """Maximal pure paths occurring in the term: set of 'name.field.field' strings; plus
    literal / const leaves as ('lit', v)."""
    out = set()

    def rec(x):
        p = path_of(x)
        if p is not None:
            out.add(".".join([str(p[2] or "%s%d" % (p[0], p[1]))] + list(p[3])))
            return
        k = x[0]
        if k == "call":
            for a in x[2]:
                rec(a)
        elif k in ("field", "as", "some", "item", "discr", "cast"):
            rec(x[1])
        elif k == "agg":
            for a in x[3]:
                rec(a)
        elif k in ("tuple", "array"):
            for a in x[1]:
                rec(a)
        elif k == "closure":
            for a in x[2]:
                rec(a)
        elif k == "ts":
            for y in walk_toks(x[1]):
                if path_of(y) is not None:
                    rec(y)
        elif k == "alt":
            for g, y in x[1]:
                rec(y)
        elif k in ("opt", "then", "itermap"):
            rec(x[1])
            rec(x[2])
        elif k == "unop":
            rec(x[2])
        elif k == "binop":
            rec(x[2])
            rec(x[3])
    rec(t)
    return out


def callees(t):
    return set(x[1] for x in walk(t) if x[0] == "call")


def callees_outside(t, allow, guards=True):
    """Callees (and unevaluable pieces) of a term — values and, unless guards=False, the branch
    conditions selecting them — that match no allowed pattern."""
    rxs = [re.compile(p) for p in allow]
    bad = set()
    for x in walk(t, guards):
        if x[0] == "call":
            if not any(r.search(x[1]) or (x[3] and r.search(x[3])) for r in rxs):
                bad.add(x[1])
        elif x[0] in ("unknown", "cycle", "undef"):
            bad.add("%s:%s" % (x[0], x[1]))
    return sorted(bad)


def lits(t):
    out = set()
    for x in walk(t):
        if x[0] in ("lit", "const"):
            try:
                v = json.loads(x[-1])
            except Exception:
                continue
            if isinstance(v, dict) and "str" in v:
                out.add(v["str"])
    return out


def strip_plumb(t, extra=None):
    """Look through single-argument value-preserving calls (deref, as_ref, clone, iter, collect ..)."""
    while True:
        if t[0] == "call" and (ITER_PLUMB.search(t[1]) or (extra and extra.search(t[1]))) and len(t[2]) >= 1:
            t = t[2][0]
        elif t[0] == "cast":
            t = t[1]
        else:
            return t


RX_STRCONV = re.compile(r"(string::ToString::to_string|borrow::ToOwned::to_owned)$")
RX_STRFROM = re.compile(r"^<(std|alloc)::string::String as (std|core)::convert::From<&('\S+ )?(mut )?str>>::from$|^<&('\S+ )?str as (std|core)::convert::Into<(std|alloc)::string::String>>::into$")


def is_str_to_string(t):
    """`s.to_string()`, `s.to_owned()`, `String::from(s)`, `s.into()` for a string slice: the same conversion."""
    if t[0] != "call" or len(t[2]) != 1:
        return False
    if RX_STRCONV.search(t[1]):
        return True
    return bool(re.search(r"convert::(From::from|Into::into)$", t[1]) and t[3] and RX_STRFROM.search(t[3]))


TRY_VARIANT = {("Option", "Continue"): "Some", ("Option", "Break"): "None", ("Result", "Continue"): "Ok", ("Result", "Break"): "Err"}


def try_kind(t):
    """"Option" / "Result" if the term is `Try::branch(x)` of such a value (the scrutinee of `x?`)."""
    if t[0] == "call" and t[1].endswith("ops::Try::branch") and len(t[2]) == 1:
        r = t[3] or ""
        if r.startswith("<std::option::Option<"):
            return "Option"
        if r.startswith("<std::result::Result<"):
            return "Result"
    return None


def mk_item(y):
    y = strip_plumb(y)
    if y[0] == "call" and RX_QITER.search(y[1]):
        return mk_item(y[2][0])
    if y[0] == "tuple" and len(y[1]) == 2 and y[1][1] == ("lit", '"HasIterator"'):
        return mk_item(y[1][0])
    if y[0] == "itermap":
        return y[2]
    if y[0] == "alt":
        return ("alt", tuple((g, mk_item(x)) for g, x in y[1]))
    return ("item", y)


def mk_some(x):
    if x[0] == "call" and RX_NEXT.search(x[1]) and x[2]:
        return mk_item(x[2][0])
    if x[0] == "agg" and x[1].endswith("option::Option") and x[2] == "Some":
        return x[3][0]
    if x[0] == "alt":
        # payload of an Option chosen by control flow: the `None` alternatives have no payload
        br = [(g, mk_some(y)) for g, y in x[1] if not (y[0] == "agg" and y[1].endswith("option::Option") and y[2] == "None")]
        if br:
            return ("alt", tuple(br))
    return ("some", x)


# --------------------------------------------------------------------------- evaluator
class Frame:
    _count = 0

    def __init__(self, fn, args=None, caps=None, depth=0):
        Frame._count += 1
        self.fid = Frame._count     # identity of this evaluation of fn (names its loop-carried locals)
        self.cyc = set()
        self.fn = fn
        self.args = args or {}
        self.caps = caps
        self.depth = depth
        self.memo = {}
        self.busy = set()


class QuoteEval:
    def __init__(self, facts, inline_depth=4):
        self.facts = facts
        self.inline_depth = inline_depth
        self._roots = {}
        self._rpo = {}
        self.inlined = []       # (caller id, callee id)
        self.loops = {}         # (local, frame id) -> term of a loop-carried local (binds the ("cycle", local, frame id) inside it)
        self.strbufs = {}       # (local, frame id) -> record of a String appended to in place (see ev_strbuf)

    # ---- per-function caches
    def rpo(self, fn):
        r = self._rpo.get(fn.id)
        if r is None:
            order = []
            seen = set()
            # iterative DFS post-order
            stack = [(0, iter(fn.succ(0)))]
            seen.add(0)
            while stack:
                b, it = stack[-1]
                adv = False
                for s in it:
                    if s not in seen:
                        seen.add(s)
                        stack.append((s, iter(fn.succ(s))))
                        adv = True
                        break
                if not adv:
                    order.append(b)
                    stack.pop()
            order.reverse()
            r = {b: i for i, b in enumerate(order)}
            self._rpo[fn.id] = r
        return r

    def root_local(self, fn, op):
        """Follow `&mut *(&mut s)` reborrow chains back to the stream local."""
        if op.get("k") not in ("copy", "move"):
            return None
        pl = op["pl"]
        for _ in range(12):
            if any(e != "*" for e in pl["p"]):
                return None
            l = pl["l"]
            ds = [d for d in fn.defs().get(l, []) if not fn.blocks[d[0]]["cleanup"]]
            if len(ds) != 1 or ds[0][1] != "assign" or ds[0][2]["pl"]["p"]:
                return l
            rv = ds[0][2]["rv"]
            if rv["rv"] in ("ref", "copyderef", "rawptr"):
                pl = rv["pl"]
            elif rv["rv"] == "use" and rv["op"].get("k") in ("copy", "move"):
                # `_75 = move _78` is a *transfer* of the built stream, not a reborrow: stop here
                src = rv["op"]["pl"]
                if not src["p"] and "&" not in fn.local_ty(src["l"]):
                    return l
                pl = src
            else:
                return l
        return None

    def stream_events(self, fn):
        """call blocks -> (kind, stream root local, term) for token-emitting calls."""
        ev = self._roots.get(fn.id)
        if ev is not None:
            return ev
        ev = []
        reach = fn.reachable(0)
        for bb, t in fn.calls():
            if bb not in reach:
                continue
            c = t.get("callee") or ""
            m = RX_PUSH.match(c)
            if m:
                ev.append((bb, "push", self.root_local(fn, t["args"][0]), t, m.group(1)))
            elif RX_PARSE.match(c):
                ev.append((bb, "parse", self.root_local(fn, t["args"][0]), t, None))
            elif RX_TOTOKENS.match(c):
                ev.append((bb, "hole", self.root_local(fn, t["args"][1]), t, None))
            elif RX_APPEND.search(c) and t["args"]:
                ev.append((bb, "append", self.root_local(fn, t["args"][0]), t, None))
            else:
                for a in t["args"]:
                    if a.get("k") in ("copy", "move") and not a["pl"]["p"] and "&mut proc_macro2::TokenStream" in fn.local_ty(a["pl"]["l"]).replace("'{erased} ", ""):
                        ev.append((bb, "unknown", self.root_local(fn, a), t, None))
        self._roots[fn.id] = ev
        return ev

    def guards_of(self, frame, b):
        fn = frame.fn
        # guards mention terms that depend on the frame (args), so cache per frame
        ck = frame.memo.get(("g", b))
        if ck is not None:
            return ck
        out = []
        reach = fn.reachable(0)
        loops = fn.loop_blocks()
        for sbb, st in fn.switches():
            if sbb not in reach:
                continue
            succs = fn.succ(sbb)
            if len(succs) < 2 or not fn.dominates(sbb, b):
                continue
            if sbb in loops and sbb not in fn.reachable(b):
                continue  # exit test of a loop that b lies behind: not a condition on b
            hit = [t for t in succs if fn.edge_dominates(sbb, t, b)]
            if len(hit) != 1:
                continue
            t = hit[0]
            info = fn.switch_on(sbb)
            if info["kind"] == "discr":
                scrut = self.ev_place(frame, info["place"])
                vals = [v for v, to in st["targets"] if to == t]
                if vals:
                    val = "|".join(info["variants"].get(v, str(v)) for v in vals)
                else:
                    val = "otherwise"
                # `otherwise` with exactly one variant left over is that variant
                if not vals and info["variants"]:
                    rest = [n for i, n in info["variants"].items() if i not in [v for v, _ in st["targets"]]]
                    if len(rest) == 1:
                        val = rest[0]
            elif info["kind"] == "bool":
                scrut = self.ev_op(frame, st["discr"])
                fb = [to for v, to in st["targets"] if v == 0]
                val = not (fb and fb[0] == t)
                for _ in range(6):
                    if scrut[0] == "unop" and scrut[1] == "Not":
                        scrut = scrut[2]
                        val = not val
                    elif scrut[0] == "binop" and scrut[1] in ("Eq", "Ne") and any(x[0] == "lit" and x[1] in ('{"bytes": 1, "int": 0}', '{"bytes": 1, "int": 1}') for x in scrut[2:4]):
                        # `b == false`, `b != true`, ... are conditions on b
                        lit = [x for x in scrut[2:4] if x[0] == "lit"][0]
                        other = scrut[3] if scrut[2] is lit else scrut[2]
                        truth = '"int": 1' in lit[1]
                        if (scrut[1] == "Eq") != truth:
                            val = not val
                        scrut = other
                    else:
                        break
            else:
                scrut = self.ev_op(frame, st["discr"])
                vals = [v for v, to in st["targets"] if to == t]
                val = "|".join(str(v) for v in vals) if vals else "otherwise"
            if scrut[0] == "lit":
                continue
            tk = try_kind(scrut)
            if tk and val in ("Continue", "Break"):
                # `x?` continues iff x is Some / Ok: a condition on x itself, as `match x` / `if let` would state it
                scrut, val = scrut[2][0], TRY_VARIANT[(tk, val)]
            out.append((self.rpo(fn).get(sbb, 0), (scrut, val)))
        out.sort(key=lambda x: x[0])
        res = []
        for _, g in out:
            if g not in res:     # the same test made twice (`if let A = x {..}` followed by `let B = x else {..}`) is one condition
                res.append(g)
        res = tuple(res)
        frame.memo[("g", b)] = res
        return res

    # ---- evaluation
    def ev_op(self, frame, op):
        k = op.get("k")
        if k in ("copy", "move"):
            return self.ev_place(frame, op["pl"])
        if k == "const":
            if op.get("fn"):
                return ("fn", op["fn"])
            if op.get("path"):
                v = op.get("val")
                # a named constant whose evaluated value is a field-less variant (`const NO_LIMIT: Option<usize> = None`)
                # is that variant
                if isinstance(v, dict) and v.get("variant") and v.get("adt") and v.get("fields") == []:
                    return ("agg", v["adt"], v["variant"], ())
                return ("const", op["path"], json.dumps(v, sort_keys=True))
            if op.get("val") is None and isinstance(op.get("tyconst"), str) and op["tyconst"].startswith('"'):
                try:  # pattern constant of a `match` on a string
                    return ("lit", json.dumps({"str": json.loads(op["tyconst"])}, sort_keys=True))
                except Exception:
                    pass
            return ("lit", json.dumps(op.get("val"), sort_keys=True))
        return ("unknown", "operand")

    def ev_place(self, frame, pl):
        t = self.ev_local(frame, pl["l"])
        for e in pl["p"]:
            if e == "*":
                continue
            if isinstance(e, dict) and "f" in e:
                t = self.proj(frame, t, e["f"], e.get("n"))
            elif isinstance(e, dict) and ("dc" in e or "v" in e):
                t = ("as", t, e.get("dc") or e.get("v"))
            else:
                t = ("field", t, "[]")
        return t

    def proj(self, frame, t, i, name):
        k = t[0]
        if k == "env":
            if frame.caps is not None and i < len(frame.caps):
                return frame.caps[i]
            return ("upvar", i, frame.fn.upvar_name(i))
        if k == "agg" and i < len(t[3]):
            return t[3][i]
        if k in ("tuple", "array") and i < len(t[1]):
            return t[1][i]
        if k == "closure" and i < len(t[2]):
            return t[2][i]      # a capture read off the closure value itself (the body of a spliced closure does that)
        if k == "as":
            inner = t[1]
            tk = try_kind(inner)
            if tk and t[2] == "Continue" and i == 0:
                # the value of `x?`: the payload of x's Some / Ok
                return self.proj(frame, ("as", inner[2][0], TRY_VARIANT[(tk, "Continue")]), 0, name)
            if inner[0] == "agg" and inner[2] == t[2] and i < len(inner[3]):
                return inner[3][i]
            if t[2] == "Some" and i == 0:
                return mk_some(inner)
        if k == "alt":
            return ("alt", tuple((g, self.proj(frame, x, i, name)) for g, x in t[1]))
        if k == "some" and t[1][0] == "call" and RX_OPTZIP.search(t[1][1]) and len(t[1][2]) == 2 and i in (0, 1):
            # the payload of `a.zip(b)` is (payload of a, payload of b): `match (a, b) { (Some(x), Some(y)) => .. }` with another spelling
            return mk_some(t[1][2][i])
        if k == "call" and frame.depth < self.inline_depth:
            # field of a crate-local helper's result (e.g. a returned tuple): evaluate the helper
            target = t[3] if t[3] in self.facts.F else (t[1] if t[1] in self.facts.F else None)
            if target:
                g = self.facts.F[target]
                if g.raw["kind"] != "Closure" and g.argc == len(t[2]) and g is not frame.fn:
                    sub = Frame(g, args={j + 1: a for j, a in enumerate(t[2])}, depth=frame.depth + 1)
                    r = self.ev_local(sub, 0)
                    if r[0] in ("tuple", "agg", "alt"):
                        self.inlined.append((frame.fn.id, g.id))
                        return self.proj(sub, r, i, name)
        nm = name if (name not in (None, "") and not str(name).isdigit()) else i
        return ("field", t, nm)

    def ev_local(self, frame, l):
        if l in frame.memo:
            return frame.memo[l]
        if l in frame.busy:
            frame.cyc.add(l)
            return ("cycle", l, frame.fid)
        frame.busy.add(l)
        try:
            t = self._ev_local(frame, l)
        finally:
            frame.busy.discard(l)
        frame.memo[l] = t
        if l in frame.cyc:
            self.loops[(l, frame.fid)] = t      # a loop-carried local: its value mentions ("cycle", l, fid), i.e. itself
        return t

    def _ev_local(self, frame, l):
        fn = frame.fn
        reach = fn.reachable(0)
        ds = [d for d in fn.defs().get(l, []) if d[0] in reach and not fn.blocks[d[0]]["cleanup"] and not self._through_deref(d)]
        if 1 <= l <= fn.argc and not [d for d in ds if self._whole(d)]:
            if fn.raw["kind"] == "Closure" and l == 1:
                return ("env",)
            if l in frame.args:
                return frame.args[l]
            if fn.raw["kind"] == "Closure":
                return ("arg", l)
            return ("param", l, fn.local_name(l))
        if not ds:
            return ("undef", l)
        whole = [d for d in ds if self._whole(d)]
        if len(whole) == 1 and whole[0][1] == "call" and RX_TSNEW.match(whole[0][2].get("callee") or ""):
            return self.ev_builder(frame, l, whole[0][0])
        if len(ds) == 1 and whole and whole[0][1] == "call" and RX_VECNEW.search(whole[0][2].get("callee") or ""):
            v = self.ev_vec(frame, l, whole[0])
            if v is not None:
                return v
        if len(ds) == 1 and whole and RX_STRING_TY.match(fn.local_ty(l)):
            v = self.ev_strbuf(frame, l, whole[0])
            if v is not None:
                return v
        if len(ds) == 1 and whole:
            return self.ev_def(frame, ds[0])
        alts = []
        for d in ds:
            g = self.guards_of(frame, d[0])
            if self._whole(d):
                alts.append((g, self.ev_def(frame, d)))
            else:
                alts.append((g, ("unknown", "partial write")))
        # conditions shared by every definition also hold at any use of the local: they do not
        # discriminate between the alternatives and are dropped
        if len(alts) > 1:
            common = [a for a in alts[0][0] if all(a in g for g, _ in alts[1:])]
            if common:
                alts = [(tuple(a for a in g if a not in common), x) for g, x in alts]
        return ("alt", tuple(alts))

    def ev_vec(self, frame, l, d):
        """A vector created empty and filled by `push` inside one `for` loop is the collected
        `iter.map(|item| pushed value)` (with `filter` when the push is conditional): returns the same
        ("itermap", source, body) term as the iterator chain.  None: the local is never pushed to (plain
        value); ("unknown", ..): it is mutated in a way that is not modelled."""
        fn = frame.fn
        reach = fn.reachable(0)
        muts = []
        for bb, i, st in fn.stmts():
            rv = st["rv"]
            if bb in reach and not fn.blocks[bb]["cleanup"] and rv["rv"] == "ref" and rv.get("mut") and rv["pl"]["l"] == l and not [e for e in rv["pl"]["p"] if e != "*"]:
                muts.append((bb, st["pl"]["l"]))
        if not muts:
            return None
        pushes = []
        for bb, t in fn.calls():
            if bb not in reach or not t["args"]:
                continue
            hit = [a for a in t["args"] if a.get("k") in ("copy", "move") and re.match(r"&('\S+ )?mut ", fn.local_ty(a["pl"]["l"])) and not a["pl"]["p"] and self.root_local(fn, a) == l]
            if not hit:
                continue
            if RX_VECPUSH.search(t.get("callee") or "") and len(t["args"]) == 2 and self.root_local(fn, t["args"][0]) == l:
                pushes.append((bb, t))
            else:
                return ("unknown", "vector mutated by %s" % short(t.get("callee") or "<indirect>"))
        if not pushes:
            return ("unknown", "vector borrowed mutably")
        loops = fn.loop_blocks()
        if len(pushes) != 1 or pushes[0][0] not in loops:
            return ("unknown", "vector filled by %d pushes outside a single loop" % len(pushes))
        bb, t = pushes[0]
        gs = self.guards_of(frame, bb)
        outer = self.guards_of(frame, d[0])
        drv = [i for i, (gt, gv) in enumerate(gs) if gv == "Some" and gt[0] == "call" and RX_NEXT.search(gt[1]) and gt[2] and len(gt) == 5 and gt[4] in loops]
        if not drv:
            return ("unknown", "vector filled in a loop that is not driven by Iterator::next")
        k = drv[-1]
        if [g for g in gs[:k] if g not in outer]:
            return ("unknown", "vector filled in a conditional loop")
        src = gs[k][0][2][0]
        body = self.ev_op(frame, t["args"][1])
        extra = tuple(gs[k + 1:])
        if extra:
            body = ("alt", ((extra, body), ((), ("agg", "std::option::Option", "None", ()))))
        return ("itermap", src, body)

    def ev_strbuf(self, frame, l, d):
        """A String local that is appended to in place (`s.push_str(x)`, `s.push(c)`) after its one initialisation:
        ("call", STRBUF, (initial value, appended value ...), None, key) with the appended values in control-flow order;
        self.strbufs[key] records the frame and, per append, its block and whether it lies in a loop (the callers decide
        under which conditions / how often each append happens).  None: the local is never borrowed mutably (plain value);
        ("unknown", ..): it is mutated by something that is not an append."""
        fn = frame.fn
        reach = fn.reachable(0)
        if not any(bb in reach and not fn.blocks[bb]["cleanup"] and st["rv"]["rv"] == "ref" and st["rv"].get("mut") and st["rv"]["pl"]["l"] == l and
                   not [e for e in st["rv"]["pl"]["p"] if e != "*"] for bb, i, st in fn.stmts()):
            return None
        pushes = []
        for bb, t in fn.calls():
            if bb not in reach or fn.blocks[bb]["cleanup"] or not t["args"]:
                continue
            hit = [a for a in t["args"] if a.get("k") in ("copy", "move") and not a["pl"]["p"] and re.match(r"&('\S+ )?mut ", fn.local_ty(a["pl"]["l"])) and self.root_local(fn, a) == l]
            if not hit:
                continue
            if RX_STRPUSH.search(t.get("callee") or "") and len(t["args"]) == 2 and self.root_local(fn, t["args"][0]) == l:
                pushes.append((bb, t))
            else:
                return ("unknown", "string mutated by %s" % short(t.get("callee") or "<indirect>"))
        if not pushes:
            return ("unknown", "string borrowed mutably")
        rpo = self.rpo(fn)
        pushes.sort(key=lambda e: rpo.get(e[0], 1 << 30))
        loops = fn.loop_blocks()
        init = self.ev_def(frame, d)
        key = (l, frame.fid)
        rec = {"fn": fn, "frame": frame, "local": l, "init": init, "appends": [(bb, self.ev_op(frame, t["args"][1]), bb in loops) for bb, t in pushes]}
        self.strbufs[key] = rec
        return ("call", STRBUF, (init,) + tuple(v for _, v, _ in rec["appends"]), None, key)

    @staticmethod
    def _through_deref(d):
        """`(*p).x = v` / `*p = v` writes the pointee; the pointer local itself is unchanged."""
        bb, kind, node = d
        pl = node["pl"] if kind == "assign" else (node.get("dest") if kind == "call" else None)
        return bool(pl and pl["p"] and pl["p"][0] == "*")

    @staticmethod
    def _whole(d):
        bb, kind, node = d
        if kind == "assign":
            return not node["pl"]["p"]
        if kind == "call":
            return not node["dest"]["p"]
        return True

    def ev_def(self, frame, d):
        bb, kind, node = d
        if kind == "assign":
            rv = node["rv"]
            k = rv["rv"]
            if k == "use":
                return self.ev_op(frame, rv["op"])
            if k == "cast":
                return self.ev_op(frame, rv["op"])
            if k in ("ref", "copyderef", "rawptr"):
                return self.ev_place(frame, rv["pl"])
            if k == "discr":
                return ("discr", self.ev_place(frame, rv["pl"]))
            if k == "binop":
                return ("binop", rv["op"], self.ev_op(frame, rv["a"]), self.ev_op(frame, rv["b"]))
            if k == "unop":
                return ("unop", rv["op"], self.ev_op(frame, rv["a"]))
            if k == "agg":
                ops = tuple(self.ev_op(frame, o) for o in rv["ops"])
                a = rv.get("agg")
                if a == "adt":
                    if rv["adt"] == "quote::__private::RepInterp" and ops:
                        return ops[0]
                    return ("agg", rv["adt"], rv.get("variant"), ops)
                if a in ("closure", "coroutine", "coroutine_closure"):
                    return ("closure", rv.get("def"), ops)
                if a == "tuple":
                    return ("tuple", ops)
                return ("array", ops)
            return ("unknown", "rvalue " + k)
        if kind == "call":
            return self.ev_call(frame, bb, node)
        return ("unknown", kind)

    def closure_ret(self, frame, cl, payload):
        """Return value of a closure term applied to `payload` (its single argument, if any)."""
        if cl[0] != "closure" or cl[1] not in self.facts.F:
            return None
        g = self.facts.F[cl[1]]
        if frame.depth >= self.inline_depth + 2:
            return ("unknown", "closure depth")
        sub = Frame(g, args=({2: payload} if payload is not None else {}), caps=list(cl[2]), depth=frame.depth + 1)
        return self.ev_local(sub, 0)

    def ev_call(self, frame, bb, t):
        c = t.get("callee") or "<indirect>"
        args = tuple(self.ev_op(frame, a) for a in t["args"])
        if RX_OPTMAP.search(c) and len(args) == 2:
            body = self.closure_ret(frame, args[1], mk_some(args[0]))
            if body is not None:
                return ("opt", args[0], body)
        if RX_THEN.search(c) and len(args) == 2:
            body = self.closure_ret(frame, args[1], None)
            if body is not None:
                return ("then", args[0], body)
        if RX_THENSOME.search(c) and len(args) == 2:
            return ("then", args[0], args[1])
        m = RX_MAPOR.search(c)
        if m and len(args) == 3:
            # x.map_or(d, f) / x.map_or_else(|| d, f)  ==  x.map(f).unwrap_or(d): written in that canonical form
            body = self.closure_ret(frame, args[2], mk_some(args[0]))
            dflt = args[1] if not m.group(1) else self.closure_ret(frame, args[1], None)
            if body is not None and dflt is not None:
                return ("call", "std::option::Option::<T>::unwrap_or", (("opt", args[0], body), dflt), None, bb)
        if RX_ITERMAP.search(c) and len(args) == 2:
            body = self.closure_ret(frame, args[1], mk_item(args[0]))
            if body is not None:
                return ("itermap", args[0], body)
        if RX_QITER.search(c) and args:
            return ("tuple", (args[0], ("lit", '"HasIterator"')))
        if c.endswith("ops::FromResidual::from_residual") and re.match(r"<std::option::Option<", t.get("resolved") or ""):
            return ("agg", "std::option::Option", "None", ())   # what `x?` returns for an absent Option
        # crate-local helper that returns a token stream: evaluate its body with the arguments bound
        target = t.get("resolved") if t.get("resolved") in self.facts.F else (c if c in self.facts.F else None)
        dty = frame.fn.local_ty(t["dest"]["l"]) if not t["dest"]["p"] else ""
        if target and "TokenStream" in dty and frame.depth < self.inline_depth:
            g = self.facts.F[target]
            if g.raw["kind"] != "Closure" and g.argc == len(args) and g is not frame.fn:
                sub = Frame(g, args={i + 1: a for i, a in enumerate(args)}, depth=frame.depth + 1)
                self.inlined.append((frame.fn.id, g.id))
                return self.ev_local(sub, 0)
        return ("call", c, args, t.get("resolved"), bb)

    def ev_builder(self, frame, l, created_bb=None):
        fn = frame.fn
        rpo = self.rpo(fn)
        evs = [e for e in self.stream_events(fn) if e[2] == l]
        evs.sort(key=lambda e: rpo.get(e[0], 1 << 30))
        loops = fn.loop_blocks()
        # consumption sites: where the finished stream is moved out / returned
        cons = set()
        ev_blocks = set(e[0] for e in evs)
        for ubb, ukind, unode in fn.uses_of_local(l):
            if ukind == "assign" and unode["rv"]["rv"] == "use" and unode["rv"]["op"].get("k") == "move":
                cons.add(ubb)
            elif ukind == "call" and ubb not in ev_blocks:
                cons.add(ubb)
        if l == 0 or not cons:
            cons |= set(fn.returns())
        toks = []
        cur_loop = None
        # a stream that is itself created inside a loop (one stream per iteration, e.g. pushed to a vector): only
        # cycles that do not pass through its creation repeat an emission *within* the stream
        cut = [created_bb] if created_bb is not None and created_bb in loops else []
        for bb, kind, _, t, pname in evs:
            tok = self.event_token(frame, kind, t, pname)
            if bb in loops and (not cut or any(bb in fn.reachable(sx, avoid=cut) for sx in fn.succ(bb))):
                if cur_loop is not None and bb in fn.reachable(cur_loop[0], avoid=cut) and cur_loop[0] in fn.reachable(bb, avoid=cut):
                    cur_loop[1].append(tok)
                else:
                    cur_loop = (bb, [tok])
                    toks.append(("rep", cur_loop[1]))
                continue
            cur_loop = None
            if all(fn.dominates(bb, c) for c in cons):
                toks.append(tok)
            else:
                toks.append(("cond", self.guards_of(frame, bb), (tok,)))
        toks = tuple(("rep", tuple(x[1])) if x[0] == "rep" else x for x in toks)
        return ("ts", toks)

    def event_token(self, frame, kind, t, pname):
        fn = frame.fn
        if kind == "push":
            if pname == "ident":
                s = self.ev_op(frame, t["args"][-1])
                v = lits(s)
                return ("id", sorted(v)[0]) if len(v) == 1 else ("hole", s, None)
            if pname == "group":
                d = self.ev_op(frame, t["args"][-2])
                inner = self.ev_op(frame, t["args"][-1])
                delim = DELIM.get(d[2], "?") if d[0] == "agg" else "?"
                if inner[0] == "ts":
                    return ("grp", delim, inner[1])
                return ("grp", delim, (("hole", inner, None),))
            if pname == "lifetime":
                s = self.ev_op(frame, t["args"][-1])
                v = lits(s)
                return ("lit", sorted(v)[0] if v else "?")
            return ("p", PUNCT.get(pname, pname))
        if kind == "parse":
            s = self.ev_op(frame, t["args"][-1])
            v = lits(s)
            return ("lit", sorted(v)[0] if len(v) == 1 else "?")
        if kind == "hole":
            return ("hole", self.ev_op(frame, t["args"][0]), t.get("resolved") or t.get("callee_args"))
        if kind == "append":
            return ("hole", self.ev_op(frame, t["args"][1]) if len(t["args"]) > 1 else ("unknown", "append"), t.get("resolved") or t.get("callee_args"))
        return ("?", t.get("callee") or "<indirect>")

    # ---- public
    def value(self, fn, local=0, args=None):
        fr = Frame(fn, args=args or {})
        return self.ev_local(fr, local), fr

    def template(self, fn, local=0, args=None):
        t, fr = self.value(fn, local, args)
        return expand_term(t)


# --------------------------------------------------------------------------- variant-sensitive reachability
def _variant_index(fn, adt, variant):
    a = fn.facts.adts.get(adt)
    if a and a.get("kind") == "enum":
        for i, v in enumerate(a["variants"]):
            if v["name"] == variant:
                return i
    return {("std::result::Result", "Ok"): 0, ("std::result::Result", "Err"): 1, ("std::option::Option", "None"): 0,
            ("std::option::Option", "Some"): 1}.get((adt, variant))


def variant_reach(fn, start, max_states=50000):
    """Blocks reachable from block `start` when the enum variants built on the way are remembered per path:
    a local assigned `Adt::Variant{..}` keeps that variant through moves, `Try::branch` turns Ok/Some into
    Continue and Err/None into Break, and a switch on the discriminant of such a local follows the matching
    edge only.  (`return Err(..)` inside an inlined helper followed by the caller's `?` thus reaches only the
    caller's error exit.)  Anything not understood forgets the local, so the result over-approximates the
    feasible blocks and under-approximates plain `fn.reachable`.  None: state budget exceeded."""
    seen = set()
    out = set()
    work = [(start, frozenset())]
    while work:
        key = work.pop()
        if key in seen:
            continue
        seen.add(key)
        if len(seen) > max_states:
            return None
        bb, kn = key
        out.add(bb)
        known = dict(kn)
        blk = fn.blocks[bb]
        for st in blk["st"]:
            if st.get("s") != "assign":
                continue
            pl, rv = st["pl"], st["rv"]
            if rv["rv"] == "ref" and rv.get("mut"):
                known.pop(rv["pl"]["l"], None)
            if pl["p"]:
                if pl["p"][0] != "*":
                    known.pop(pl["l"], None)
                continue
            new = None
            k = rv["rv"]
            if k == "agg" and rv.get("agg") == "adt":
                i = _variant_index(fn, rv["adt"], rv.get("variant"))
                if i is not None:
                    new = ("v", rv["adt"], i)
            elif k == "use" and rv["op"].get("k") in ("copy", "move") and not rv["op"]["pl"]["p"]:
                new = known.get(rv["op"]["pl"]["l"])
            elif k == "discr" and not rv["pl"]["p"]:
                v = known.get(rv["pl"]["l"])
                if v is not None and v[0] == "v":
                    new = ("d", v[2])
            if new is not None:
                known[pl["l"]] = new
            else:
                known.pop(pl["l"], None)
        t = blk["term"]
        succs = list(fn.succ(bb))
        if t["t"] == "call":
            d = t["dest"]
            new = None
            if (t.get("callee") or "").endswith("ops::Try::branch") and t["args"] and t["args"][0].get("k") in ("copy", "move") and not t["args"][0]["pl"]["p"]:
                v = known.get(t["args"][0]["pl"]["l"])
                if v is not None and v[0] == "v" and v[1] in ("std::result::Result", "std::option::Option"):
                    brk = (v[1].endswith("Result") and v[2] == 1) or (v[1].endswith("Option") and v[2] == 0)
                    new = ("v", "std::ops::ControlFlow", 1 if brk else 0)
            if not d["p"] and new is not None:
                known[d["l"]] = new
            else:
                known.pop(d["l"], None)
        elif t["t"] == "switch" and len(succs) > 1 and t["discr"].get("k") in ("copy", "move") and not t["discr"]["pl"]["p"]:
            v = known.get(t["discr"]["pl"]["l"])
            if v is not None and v[0] == "d":
                tgt = t["otherwise"]
                for val, to in t["targets"]:
                    if val == v[1]:
                        tgt = to
                succs = [tgt]
        nk = frozenset(known.items())
        for sx in succs:
            work.append((sx, nk))
    return out


# --------------------------------------------------------------------------- expansion
def expand_term(t):
    """Token list that interpolating a value of this term produces."""
    k = t[0]
    if k == "ts":
        return expand(t[1])
    if k == "alt":
        br = [(g, expand_term(x)) for g, x in t[1]]
        full = [b for b in br if b[1]]
        if len(full) == 1 and len(br) > 1:
            # `if c { Some(tokens) } else { None }`: tokens under c, nothing otherwise
            return (("when", full[0][0], full[0][1]),)
        return (("alt", tuple(br)),)
    if k == "opt":
        return (("when", ((t[1], "Some"),), expand_term(t[2])),)
    if k == "then":
        return (("when", ((t[1], True),), expand_term(t[2])),)
    if k == "agg" and t[1].endswith("option::Option"):
        if t[2] == "Some" and t[3]:
            return expand_term(t[3][0])
        return ()
    return (("hole", t, None),)


RX_CHAIN = re.compile(r"iter::Iterator::chain$")


def _chain_parts(x):
    x = strip_plumb(x)
    if x[0] == "call" and RX_CHAIN.search(x[1]) and len(x[2]) == 2:
        return _chain_parts(x[2][0]) + _chain_parts(x[2][1])
    return [x]


def _is_option_term(x):
    return x[0] in ("opt", "then") or (x[0] == "agg" and x[1].endswith("option::Option")) or (x[0] == "alt" and all(_is_option_term(y) for g, y in x[1]))


def _rep_over_chain(body):
    """`#(#x)*` with x = a.into_iter().chain(b).chain(c)..: the items of a, then of b, then of c.  An Option contributes its
    payload when it is Some (as interpolating the Option itself does), a mapped iterator one body per element."""
    if len(body) != 1 or body[0][0] != "hole" or body[0][1][0] != "item":
        return None
    parts = _chain_parts(body[0][1][1])
    if len(parts) < 2:
        return None
    out = []
    for p in parts:
        if _is_option_term(p):
            out.extend(expand_term(p))
        elif p[0] == "itermap":
            out.append(("rep", expand_term(p[2])))
        else:
            out.append(("rep", expand((("hole", mk_item(p), None),))))
    return tuple(out)


def expand(toks):
    out = []
    for t in toks:
        k = t[0]
        if k == "hole":
            x = t[1]
            if x[0] in ("ts", "alt", "opt", "then") or (x[0] == "agg" and x[1].endswith("option::Option")):
                out.extend(expand_term(x))
            else:
                out.append(t)
        elif k == "grp":
            out.append(("grp", t[1], expand(t[2])))
        elif k == "rep":
            seq = _rep_over_chain(t[1])
            if seq is not None:
                out.extend(seq)
            else:
                out.append(("rep", expand(t[1])))
        elif k == "cond":
            out.append(("when", t[1], expand(t[2])))
        else:
            out.append(t)
    return tuple(out)


def sequences(toks):
    """Every maximal straight-line token list contained in a template (the list itself, group
    contents, repetition bodies, each alternative) — for searching adjacent-token patterns."""
    yield toks
    for t in toks:
        k = t[0]
        if k == "grp":
            yield from sequences(t[2])
        elif k == "rep":
            yield from sequences(t[1])
        elif k in ("when", "cond"):
            yield from sequences(t[2])
        elif k == "alt":
            for g, x in t[1]:
                yield from sequences(x)


def nosite(x):
    """The term with call-site identities removed (for comparing terms of different functions)."""
    if isinstance(x, tuple):
        if len(x) == 5 and x[0] == "call":
            x = x[:4]
        return tuple(nosite(y) for y in x)
    if isinstance(x, list):
        return tuple(nosite(y) for y in x)
    return x


def tsig(t):
    k = t[0]
    if k in ("id", "p"):
        return t[1]
    if k == "lit":
        return "`%s`" % t[1]
    if k == "grp":
        return t[1]
    return {"hole": "<>", "rep": "#()*", "when": "[when]", "cond": "[when]", "alt": "{alt}"}.get(k, "?" + str(t[1]))


def sig(toks):
    return [tsig(t) for t in toks]


def split_commas(toks):
    """Top-level comma-separated pieces of a group's tokens (a trailing comma adds nothing)."""
    out, cur = [], []
    for t in toks:
        if t == ("p", ","):
            out.append(tuple(cur))
            cur = []
        else:
            cur.append(t)
    if cur:
        out.append(tuple(cur))
    return out


# --------------------------------------------------------------------------- parse_semver, decided by interpretation
def decide_parse_semver(facts, fn):
    """Interpret `parse_semver(lit)` (rules/absint.py) over every outcome of its leaves: the string does / does not parse as a
    semver::Version, its pre-release part is / is not empty, its build metadata is / is not empty (`x == T::EMPTY`,
    `x != T::EMPTY`, `x.is_empty()` are the same test).  Returns [((parses, pre_empty, build_empty), outcome)] with outcome
    "Ok(parsed)" (the very version that was parsed), "Err(syn::Error)" or a description of anything else; `parses` False has one
    row per emptiness assignment too (they must not matter).  Raises absint.LeavesFragment when the function does anything the
    interpreter does not model — the caller then falls back to path facts."""
    from . import absint as A
    a = facts.adts.get("semver::Version")
    names = [f["name"] for v in a["variants"] for f in v.get("fields", [])] if a else []
    if "pre" not in names or "build" not in names:
        raise A.LeavesFragment("semver::Version's fields are not in the facts")

    class It(A.Interp):
        def operand(self, frame, op):
            if op.get("k") == "const" and not op.get("fn") and str(op.get("path") or "").endswith("::EMPTY") and re.search(r"semver::(Prerelease|BuildMetadata)", str(op.get("path")) + " " + str(op.get("ty"))):
                return A.V_sym("EMPTY")
            return A.Interp.operand(self, frame, op)

    from .lib_c07 import ITER_SUMMARIES
    It = table_interp(It)       # a table of (predicate, message) rows searched by find_map is the same chain of tests
    parsed = lambda: A.V_struct("semver::Version", [A.V_sym(n) if n in ("pre", "build") else A.V_opaque(n) for n in names])
    want_ok = ("enum", "Ok", (A.strip(parsed()),))
    rows = []
    for pre_empty in (True, False):
        for build_empty in (True, False):
            order = {"EMPTY": 0, "pre": 0 if pre_empty else 1, "build": 0 if build_empty else 1}

            def run(ch, order=order):
                def parse(it, argv, t):
                    return [A.V_err(A.V_opaque("semver::Error")), A.V_ok(parsed())][it.choose(2)]

                def is_empty(it, argv, t):
                    return A.V_bool(it.sym_rank(argv[0])[0] == 0)
                summ = dict(ITER_SUMMARIES)
                summ.update({"syn::LitStr::value": lambda it, argv, t: A.V_opaque("text"),
                        "core::str::<impl str>::parse": parse, "std::str::<impl str>::parse": parse, "std::str::FromStr::from_str": parse,
                        "semver::Prerelease::is_empty": is_empty, "semver::BuildMetadata::is_empty": is_empty,
                        "syn::Error::new_spanned": lambda it, argv, t: A.V_opaque("syn::Error"), "syn::Error::new": lambda it, argv, t: A.V_opaque("syn::Error")})
                it = It(facts, order, summaries=summ, choices=ch,
                        opaque_callees=[r"^core::fmt::", r"^std::fmt::", r"^alloc::fmt::", r"^std::string::ToString::to_string$", r"^std::convert::(From::from|Into::into)$",
                                        r"^std::borrow::ToOwned::to_owned$", r"^syn::spanned::Spanned::span$", r"^syn::LitStr::span$", r"^std::string::String::"])
                r = A.strip(it.call_fn(fn, [A.V_ref(A.Cell(A.V_opaque("literal")))]))
                bad = [c for c in it.cmp_log if c[0].lower() not in ("eq", "ne") or "EMPTY" not in c[1:]]
                if bad:
                    raise A.LeavesFragment("pre-release / build metadata compared otherwise than with EMPTY: %s" % (bad[:2],))
                out = "Ok(parsed)" if r == want_ok else ("Err(syn::Error)" if r == ("enum", "Err", (("opaque", "syn::Error"),)) else "other: %s" % (r,))
                return it, (tuple(it.taken), out)
            for taken, out in A.explore(run):
                if len(taken) != 1:
                    raise A.LeavesFragment("%d nondeterministic choices on one path (expected exactly the one parse)" % len(taken))
                rows.append(((bool(taken[0]), pre_empty, build_empty), out))
    return rows


# --------------------------------------------------------------------------- constant tables in the interpreter
class _NoAsserts:
    """View of an engine.Fn in which `assert(cond == expected) -> to` (bounds / overflow checks) is the two-way branch it
    stands for: `to` when the condition has the expected value, a block ending in `unreachable` (= the panic; the interpreter
    leaves its fragment there, so a check that can fail is never silently passed) otherwise."""

    def __init__(self, fn):
        self._fn = fn
        blocks = list(fn.blocks)
        panic = None
        for i, b in enumerate(blocks):
            t = b["term"]
            if t["t"] == "assert":
                if panic is None:
                    panic = len(blocks)
                    blocks.append({"bb": panic, "cleanup": False, "st": [], "term": {"t": "unreachable"}})
                nb = dict(b)
                nb["term"] = {"t": "switch", "discr": t["cond"], "targets": [[0 if t.get("expected", True) else 1, panic]], "otherwise": t["to"]}
                blocks[i] = nb
        self.blocks = blocks

    def __getattr__(self, name):
        return getattr(self._fn, name)


_TABLE_INTERPS = {}


def table_interp(base):
    """Subclass of the absint interpreter class `base` with what a lookup in a `const TABLE: [(A, B); N]` needs: evaluated
    constants (arrays, tuples, field-less enum values, strings, integers, fn pointers) are concrete values, `table[i]` with a
    concrete index selects an element, an integer-to-integer cast keeps the number (`*self as usize`: the discriminant), a bounds
    check is a branch whose failing side is a panic, and a call through a fn pointer taken from a table calls that function.
    (Generic; candidate for rules/absint.py next to lib_c07.ITER_SUMMARIES.)"""
    if base in _TABLE_INTERPS:
        return _TABLE_INTERPS[base]
    from . import absint as A

    class TableInterp(base):
        def const_value(self, val):
            if isinstance(val, dict):
                if "list" in val:
                    return ("tuple", [self.const_value(e) for e in val["list"]], "array")
                if "tuple" in val:
                    return A.V_tuple([self.const_value(e) for e in val["tuple"]])
                if "variant" in val and "adt" in val:
                    return A.V_enum(val["adt"], self.vidx(val["adt"], val["variant"]), val["variant"], [])
                if "str" in val:
                    return self.string(val["str"]) if hasattr(self, "string") else A.V_opaque("str:" + val["str"])
                if "int" in val:
                    return A.V_int(val["int"])
                if "fn" in val:
                    # a closure coerced to `fn` is rendered as the FnOnce::call_once shim together with the closure's identity
                    if val.get("closure"):
                        return ("closure", val["closure"], [])
                    if str(val["fn"]).endswith("FnOnce::call_once"):
                        raise A.LeavesFragment("fn pointer made from a closure whose identity is not rendered")
                    return ("zst", val["fn"])
            raise A.LeavesFragment("constant element that is not rendered (%r)" % (val,))

        def operand(self, frame, op):
            val = op.get("val") if op.get("k") == "const" else None
            if isinstance(val, dict) and ("list" in val or "tuple" in val or "variant" in val):
                return self.const_value(val)
            return base.operand(self, frame, op)

        def place(self, frame, pl):
            if not any(isinstance(e, dict) and "idx" in e for e in pl["p"]):
                return base.place(self, frame, pl)
            # a place with an index step: the other steps are ordinary ones (done by the base class on a one-cell frame)
            cell, path = frame[pl["l"]], ()
            for e in pl["p"]:
                if isinstance(e, dict) and "idx" in e:
                    i = frame[e["idx"]].val
                    arr = A.read_path(cell, path)
                    if i is None or i[0] != "int" or arr is None or arr[0] != "tuple" or not 0 <= i[1] < len(arr[1]):
                        raise A.LeavesFragment("indexing with a non-concrete or out-of-range index")
                    path = path + (i[1],)
                else:
                    here = A.Cell(A.V_ref(cell, path))
                    cell, path = base.place(self, {0: here}, {"l": 0, "p": ["*", e]})
            return cell, path

        def rvalue(self, fn, frame, rv):
            if rv["rv"] == "cast" and rv.get("kind") == "IntToInt":
                v = self.operand(frame, rv["op"])
                if v is not None and v[0] == "int":
                    return v
            if rv["rv"] == "agg" and rv.get("agg") == "array":
                return ("tuple", [self.operand(frame, o) for o in rv["ops"]], "array")
            return base.rvalue(self, fn, frame, rv)

        def call_fn(self, fn, args):
            if any(b["term"]["t"] == "assert" for b in fn.blocks):
                fn = _NoAsserts(fn)
            return base.call_fn(self, fn, args)

        def do_call(self, fn, frame, t, bb):
            if t.get("callee") is None and t.get("callee_op") is not None:
                f = self.deref_all(self.operand(frame, t["callee_op"]))
                if f is not None and (f[0] == "closure" or (f[0] == "zst" and f[1])):
                    return self.call_closure(f, *[self.operand(frame, a) for a in t["args"]])
                raise A.LeavesFragment("call through a fn pointer of unknown target at %s bb%d" % (fn.id, bb))
            return base.do_call(self, fn, frame, t, bb)

    _TABLE_INTERPS[base] = TableInterp
    return TableInterp


def _s_option_zip(interp, argv, t):
    from . import absint as A
    a, b = interp.deref_all(argv[0]), interp.deref_all(argv[1])
    for o in (a, b):
        if o is None or o[0] != "enum" or o[1] != "std::option::Option":
            raise A.LeavesFragment("Option::zip of a non-Option")
    return A.V_some(A.V_tuple([a[4][0], b[4][0]])) if a[3] == "Some" and b[3] == "Some" else A.V_none()


def _table_interp_class():
    from .lib_c07 import StrInterp
    return table_interp(StrInterp)


# --------------------------------------------------------------------------- enum <-> string tables, decided by interpretation
def decide_enum_string_tables(facts, to_fn, from_fn, adt):
    """lib_c07.decide_string_tables with TableInterp: decides `to_fn: &Enum -> &str` and `from_fn: &str -> Result<Enum, _>` /
    Option<Enum> exactly, whether they are matches, if-chains, `find`/`find_map`/`position` over an array literal or lookups in a
    constant table indexed by discriminant.  Same result shape ({"to", "from", "compared"}); raises absint.LeavesFragment when
    either function leaves the fragment (the caller then falls back to reading match arms)."""
    from . import absint as A
    from .lib_c07 import OTHER, _only_equalities
    Interp = _table_interp_class()
    a = facts.adts.get(adt)
    if not a or any(v.get("fields") for v in a["variants"]):
        raise A.LeavesFragment("%s is not a field-less enum" % adt)
    to = {}
    for i, v in enumerate(a["variants"]):
        def run(ch, i=i, v=v):
            it = Interp(facts, ch)
            r = it.call_fn(to_fn, [A.V_ref(A.Cell(A.V_enum(adt, i, v["name"], [])))])
            _only_equalities(it)
            return it, it.string_of(r)
        outs = set(A.explore(run))
        if len(outs) != 1 or None in outs:
            raise A.LeavesFragment("%s of %s is not one constant string" % (to_fn.id, v["name"]))
        to[v["name"]] = outs.pop()
    frm, compared = {}, set()
    todo = sorted(set(to.values())) + [OTHER]
    while todo:
        s = todo.pop(0)
        if s in frm:
            continue

        def run(ch, s=s):
            it = Interp(facts, ch)
            r = it.deref_all(it.call_fn(from_fn, [Interp.string(s)]))
            _only_equalities(it)
            seen = set(n[4:] for op, x, y in it.cmp_log for n in (x, y) if n.startswith("str:"))
            if r is None or r[0] != "enum" or r[1] not in ("std::result::Result", "std::option::Option"):
                raise A.LeavesFragment("%s does not return a Result / Option" % from_fn.id)
            if r[3] in ("Err", "None"):
                return it, ("refused", seen)
            p = it.deref_all(r[4][0])
            if p is None or p[0] != "enum" or p[1] != adt:
                raise A.LeavesFragment("%s returns something else than a %s" % (from_fn.id, adt))
            return it, (p[3], seen)
        outs = A.explore(run)
        frm[s] = set(o for o, seen in outs)
        for o, seen in outs:
            for x in seen - {OTHER}:
                compared.add(x)
                if x not in frm and x not in todo:
                    todo.append(x)
    return {"to": to, "from": frm, "compared": compared}


# --------------------------------------------------------------------------- <VersionRange as Parse>::parse, decided by interpretation
def decide_version_range_parse(facts, fn, range_adt="metadata::VersionRange", spec_adt="metadata::VersionSpecifier"):
    """Interpret the version-range parser (rules/absint.py) on every input of the range language, the token stream being a
    concrete cursor over tokens `..` / string literal / identifier: [..], [.. v], [v ..], [v .. w] with v, w a literal (an ordered
    symbol; `parse::<VersionSpecifier>()` yields Literal(symbol), the literal's own syntax being parse_semver's business) or an
    identifier, the two literals in every weak order.  Splitting the function, `?` / match / combinators, a tuple pattern or
    `a.as_literal().zip(b.as_literal()).filter(..)` for the both-literals test are the same function to it.
    Returns [{"input": text, "tokens": [...], "order": text, "result": stripped value or ("Err",), "consumed": n}].
    Raises absint.LeavesFragment when the function leaves the fragment (the caller falls back to path facts)."""
    from . import absint as A
    sa = facts.adts.get(spec_adt)
    if not sa or sorted(v["name"] for v in sa["variants"]) != ["Identifier", "Literal"]:
        raise A.LeavesFragment("%s is not {Literal, Identifier}" % spec_adt)
    sidx = {v["name"]: i for i, v in enumerate(sa["variants"])}
    PEEK = {"syn::token::DotDot": "DD", "syn::LitStr": "LIT", "syn::Ident": "ID"}

    class Base(A.Interp):
        def call_closure(self, clo, *args):
            v = self.deref_all(clo)
            if v is not None and v[0] == "zst" and v[1] and v[1] not in self.facts.F and "::" in v[1]:
                adt, name = v[1].rsplit("::", 1)     # a tuple-variant constructor used as a function: `.map(VersionRange::Until)`
                a = self.facts.adts.get(adt)
                if a and a.get("kind") == "enum" and any(x["name"] == name for x in a["variants"]):
                    return A.V_enum(adt, self.vidx(adt, name), name, list(args))
            return A.Interp.call_closure(self, clo, *args)
    It = table_interp(Base)

    X = [("LIT", "a"), ("ID", "x")]
    Y = [("LIT", "b"), ("ID", "y")]
    inputs = [[("DD",)]] + [[("DD",), y] for y in Y] + [[x, ("DD",)] for x in X] + [[x, ("DD",), y] for x in X for y in Y]
    rows = []
    for toks in inputs:
        syms = [t[1] for t in toks if t[0] == "LIT"]
        orders = [{"a": 0, "b": 1}, {"a": 0, "b": 0}, {"a": 1, "b": 0}] if len(syms) == 2 else [{"a": 0, "b": 0}]
        for order in orders:
            def run(ch, toks=toks, order=order):
                st = {"pos": 0}
                nxt = lambda: toks[st["pos"]][0] if st["pos"] < len(toks) else None
                err = lambda: A.V_err(A.V_opaque("syn::Error"))

                def s_parse(it, argv, t):
                    g = " ".join(t.get("gargs") or [])
                    k = nxt()
                    if spec_adt in g:
                        if k == "LIT":
                            v = A.V_enum(spec_adt, sidx["Literal"], "Literal", [A.V_sym(toks[st["pos"]][1])])
                        elif k == "ID":
                            v = A.V_enum(spec_adt, sidx["Identifier"], "Identifier", [A.V_opaque("path:" + toks[st["pos"]][1])])
                        else:
                            return err()
                        st["pos"] += 1
                        return A.V_ok(v)
                    if "syn::token::DotDot" in g:
                        if k != "DD":
                            return err()
                        st["pos"] += 1
                        return A.V_ok(A.V_opaque("dotdot"))
                    raise A.LeavesFragment("parse::<%s>() is not modelled" % g)

                def s_peek(it, argv, t):
                    f = it.deref_all(argv[1])
                    if f is None or f[0] != "zst" or f[1] not in PEEK:
                        raise A.LeavesFragment("peek of an unmodelled token kind")
                    return A.V_bool(nxt() == PEEK[f[1]])
                opq = lambda tag: (lambda it, argv, t: A.V_opaque(tag))
                summ = {"syn::parse::ParseBuffer::<'a>::parse": s_parse, "syn::parse::ParseBuffer::<'a>::peek": s_peek, "syn::parse::Lookahead1::<'a>::peek": s_peek,
                        "syn::parse::ParseBuffer::<'a>::lookahead1": opq("lookahead"), "syn::parse::Lookahead1::<'a>::error": opq("syn::Error"),
                        "syn::parse::ParseBuffer::<'a>::is_empty": lambda it, argv, t: A.V_bool(nxt() is None),
                        "syn::parse::ParseBuffer::<'a>::error": opq("syn::Error"), "syn::parse::ParseBuffer::<'a>::span": opq("span"),
                        "syn::Error::new_spanned": opq("syn::Error"), "syn::Error::new": opq("syn::Error"), "quote::ToTokens::to_token_stream": opq("tokens"),
                        "quote::ToTokens::to_tokens": opq("unit"), "std::option::Option::<T>::zip": _s_option_zip}
                it = It(facts, order, summaries=summ, choices=ch,
                        opaque_callees=[r"^core::fmt::", r"^std::fmt::", r"^alloc::fmt::", r"^std::string::ToString::to_string$", r"^std::convert::(From::from|Into::into)$",
                                        r"^std::borrow::ToOwned::to_owned$", r"^syn::spanned::Spanned::span$", r"^std::string::String::", r"^proc_macro2::Span::"])
                r = A.strip(it.call_fn(fn, [A.V_ref(A.Cell(A.V_opaque("ParseBuffer")))]))
                bad = [c for c in it.cmp_log if set(c[1:]) - {"a", "b"}]
                if bad:
                    raise A.LeavesFragment("something else than the two literals is compared: %s" % (bad[:2],))
                if it.taken:
                    raise A.LeavesFragment("the parser branches on something that is not determined by its input")
                if r is None or r[0] != "enum" or r[1] not in ("Ok", "Err"):
                    raise A.LeavesFragment("the parser does not return a Result")
                return it, (("Err",) if r[1] == "Err" else r[2][0], st["pos"])
            outs = A.explore(run)
            res, pos = outs[0]
            text = " ".join(".." if t[0] == "DD" else ('"%s"' % t[1] if t[0] == "LIT" else t[1]) for t in toks)
            rows.append({"input": text, "tokens": toks, "order": A.order_str({s: order[s] for s in syms}) if len(syms) == 2 else "-", "ranks": order,
                         "result": res, "consumed": pos})
    return rows


def expected_version_range(row):
    """What the range language prescribes for one interpreted input: the stripped Ok payload, or ("Err",)."""
    toks, order = row["tokens"], row["ranks"]
    val = lambda t: ("enum", "Literal", (("sym", t[1]),)) if t[0] == "LIT" else ("enum", "Identifier", (("opaque", "path:" + t[1]),))
    kinds = [t[0] for t in toks]
    if kinds == ["DD"]:
        return ("enum", "All", ())
    if len(toks) == 2 and kinds[0] == "DD":
        return ("enum", "Until", (val(toks[1]),))
    if len(toks) == 2 and kinds[1] == "DD":
        return ("enum", "From", (val(toks[0]),))
    if toks[0][0] == "LIT" and toks[2][0] == "LIT" and order[toks[2][1]] < order[toks[0][1]]:
        return ("Err",)
    return ("enum", "FromUntil", (val(toks[0]), val(toks[2])))
