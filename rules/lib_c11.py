"""C11 helpers: one abstract model of the capped request-body stream built by StreamingBody::into_stream.

The C11 rules about the stream (R1, R2, R6, R7) speak about *stream steps*: an item is delivered, an error item
is delivered, the stream ends; a running count of delivered bytes is compared with the cap before an item is
delivered.  Two spellings of such a stream are modelled; both give the rules the same vocabulary:

  (a) `async_stream::try_stream! { .. }` (a generator):  item = `yield v` (`Sender::send(Ok(v))` in the expansion),
      error item = `Err(e)?` (`Sender::send(Err(e))` followed by return), end = the generator returns; the running
      count is a local of the generator that is initialised once and re-assigned.
  (b) `futures::stream::try_unfold(init, |state| async move { .. })` (a step function): every value returned by the
      step coroutine is one step: `Ok(Some((v, next)))` delivers v and continues with state `next`, `Ok(None)` ends
      the stream, `Err(e)` (also `x?`) delivers the error and ends the stream; the running count is a component of the
      state tuple: its initial value is read from `init`, its value in the next step from `next`.

`stream_model(facts)` returns a StreamModel (or raises ModelLost with what could not be recognised: the rules then
fail closed).  Events carry the block in which the step is decided, so that dominance / reachability questions are
asked in the same way for both forms.
"""
import re

from .lib import PLUMBING, callee_allow, closure_args_of_call
from .lib_c01 import access_path, sources

SEND = r"yielder::Sender::<T>::send$"
UNFOLD = r"(^|::)stream::(try_unfold::)?try_unfold$"
INTO_DATA = r"Frame::<T>::into_data$"
FRAME = r"BodyExt::frame$"
LEN = r"bytes::Bytes::len$|bytes::Buf::remaining$"
DUMP = r"http_util::http_dump_body$"
ADDS = ("Add", "AddWithOverflow", "AddUnchecked")


class ModelLost(Exception):
    pass


class Event:
    """One step outcome.  kind: data | err | end | other.  bb: block deciding it.  sl: slice of the delivered value
    (try_stream: of the whole `Ok(v)` / `Err(e)` argument of send; try_unfold: of the item v / of the error e).
    state: (try_unfold data events) operand holding the next state."""
    __slots__ = ("bb", "kind", "sl", "node", "state", "what", "origins")

    def __init__(self, bb, kind, sl, node, state=None, what=""):
        self.bb, self.kind, self.sl, self.node, self.state, self.what = bb, kind, sl, node, state, what
        self.origins = []       # lib_c01 Paths: where the delivered payload / error value comes from (variant-precise)


def _single_def(fn, l):
    ds = fn.defs().get(l, [])
    return ds[0] if len(ds) == 1 else None


def _agg_def(fn, op, hops=8):
    """Follow an operand through single-definition whole moves to the aggregate that built it: (bb, rv) or None."""
    for _ in range(hops):
        if op.get("k") not in ("copy", "move") or op["pl"]["p"]:
            return None
        d = _single_def(fn, op["pl"]["l"])
        if d is None or d[1] != "assign" or d[2]["pl"]["p"]:
            return None
        rv = d[2]["rv"]
        if rv["rv"] == "agg":
            return d[0], rv
        if rv["rv"] == "use":
            op = rv["op"]
            continue
        return None
    return None


def _chain_locals(fn, x, depth=64):
    """Locals that lib_c01.access_path looks through when it resolves x (single-definition copies, borrows and
    projections into aggregates built here): a value read through such a chain is only the root's value if none of
    these locals can be changed behind the chain's back (see StreamModel._mut_borrowed)."""
    pl = x["pl"] if "k" in x else x
    l, proj = pl["l"], list(pl["p"])
    out = []
    for _ in range(depth):
        if 1 <= l <= fn.argc:
            break
        out.append((l, [e["f"] for e in proj if isinstance(e, dict) and "f" in e]))
        d = _single_def(fn, l)
        if d is None or d[1] != "assign" or d[2]["pl"]["p"]:
            break
        rv = d[2]["rv"]
        k = rv["rv"]
        if k in ("use", "cast"):
            if rv["op"].get("k") not in ("copy", "move"):
                break
            proj = list(rv["op"]["pl"]["p"]) + proj
            l = rv["op"]["pl"]["l"]
        elif k in ("ref", "copyderef", "rawptr"):
            proj = list(rv["pl"]["p"]) + proj
            l = rv["pl"]["l"]
        elif k == "agg":
            fields = [e for e in proj if e != "*"]
            if fields and isinstance(fields[0], dict) and "f" in fields[0] and fields[0]["f"] < len(rv["ops"]) and rv["ops"][fields[0]["f"]].get("k") in ("copy", "move"):
                op = rv["ops"][fields[0]["f"]]
                proj = list(op["pl"]["p"]) + fields[1:]
                l = op["pl"]["l"]
            elif len(fields) > 1 and isinstance(fields[0], dict) and "dc" in fields[0] and isinstance(fields[1], dict) and "f" in fields[1] and fields[1]["f"] < len(rv["ops"]) \
                    and rv["ops"][fields[1]["f"]].get("k") in ("copy", "move"):
                op = rv["ops"][fields[1]["f"]]
                proj = list(op["pl"]["p"]) + fields[2:]
                l = op["pl"]["l"]
            else:
                break
        else:
            break
    return out


def _place(op_or_pl, extra=()):
    pl = op_or_pl["pl"] if "k" in op_or_pl else op_or_pl
    return {"l": pl["l"], "p": list(pl["p"]) + [{"f": e[0], "n": e[1]} if isinstance(e, tuple) else {"f": int(e), "n": ""} for e in extra]}


class StreamModel:
    form = None

    def __init__(self, facts, top, g):
        self.facts, self.top, self.g = facts, top, g
        self.events = []
        self.problems = []

    # -- vocabulary shared by the rules
    @property
    def data(self):
        return [e for e in self.events if e.kind == "data"]

    @property
    def errs(self):
        return [e for e in self.events if e.kind == "err"]

    def cap_guards(self, into_bbs):
        """Comparisons in the step body that establish `running count + len(payload) <=|< cap` on one edge:
        [{bb, rel, edge, target, len_ok, lens, ...}]; len_ok: every length in the sum is that of the payload whose
        Frame::into_data blocks are `into_bbs`."""
        raise NotImplementedError


# =============================================================================== precise origins
ERR_CONV = [r"convert::Into::into$", r"convert::From::from$", r"ops::Try::branch$"]
VALUE_KEEPING = [r"clone::Clone::clone$", r"ops::Deref::deref$", r"ops::DerefMut::deref_mut$", r"convert::AsRef::as_ref$", r"borrow::Borrow::borrow$"]


def origins_of(g, x, transparent=ERR_CONV):
    """Every value an operand / place of g may hold (lib_c01.sources: variant-precise through multi-definition locals
    and through enum wrappers built in g, so that the value of `helper().await?` spliced from an async helper is the
    helper's own `Err(ctor(..))` / `Ok(Some(data))` and never the sibling variant), looking through error conversions."""
    return sources(g, x, transparent=transparent)


def _sum_operands(g, x):
    """If operand/place x is `a + b` (overflow-checked or not) or `a.saturating_add(b)`, possibly let-bound: (a, b)."""
    p = access_path(g, x)
    if p.root[0] == "call" and re.search(r"num::<impl usize>::saturating_add$", p.root[2]) and not p.path and not p.calls and len(p.root[4]["args"]) == 2:
        return p.root[4]["args"][0], p.root[4]["args"][1]
    if p.root[0] != "local" or p.path not in ([], ["0"]) or p.calls:
        return None
    d = _single_def(g, p.root[1])
    if d is None or d[1] != "assign" or d[2]["pl"]["p"] or d[2]["rv"]["rv"] != "binop" or d[2]["rv"]["op"] not in ADDS:
        return None
    if (d[2]["rv"]["op"] == "AddWithOverflow") != (p.path == ["0"]):
        return None
    return d[2]["rv"]["a"], d[2]["rv"]["b"]


def failure_splits(g):
    """Where the outcome of reading the body is split into its two cases: switches on the discriminant of a Result (or
    of the ControlFlow `?` makes of it) whose scrutinee is the output of awaiting `BodyExt::frame` (kind "frame": the
    `Result<Frame, E>` inside its `Option`) or `http_dump_body` (kind "drain"), however it is reached — `while let
    Some(r) = body.frame().await` + `r.map_err(..)?`, a nested match `Some(Err(e)) => ..`, a let-else.
    [{switch_bb, ok, err, kind}]"""
    out = []
    for sbb, st in g.switches():
        info = g.switch_on(sbb)
        if info.get("kind") != "discr" or info.get("adt") not in ("std::result::Result", "std::ops::ControlFlow"):
            continue
        p = access_path(g, info["place"], transparent=[r"ops::Try::branch$"])
        if p.root[0] != "call" or not re.search(r"Future::poll$", p.root[2]) or not p.root[4]["args"]:
            continue
        fs = g.slice(p.root[4]["args"][0])
        fr, dr = fs.has_call(FRAME), fs.has_call(DUMP)
        if fr == dr:
            continue
        names = {n: i for i, n in info["variants"].items()}
        okv = names.get("Ok", names.get("Continue"))
        erv = names.get("Err", names.get("Break"))
        if okv is None or erv is None:
            continue
        out.append({"switch_bb": sbb, "ok": g.switch_target(sbb, okv), "err": g.switch_target(sbb, erv), "kind": "frame" if fr else "drain"})
    return out


# =============================================================================== (a) try_stream!
class TryStreamModel(StreamModel):
    form = "try_stream"
    item_word = "send"

    def __init__(self, facts, top, g):
        StreamModel.__init__(self, facts, top, g)
        for bb, t in g.live_calls(SEND):
            sl = g.slice(t["args"][1])
            # what is sent: the variant(s) of the Result literal(s) the argument can be, and where the payload comes from
            lits = origins_of(g, t["args"][1], transparent=())
            variants = set(p.root[2].get("variant") if p.root[0] == "agg" and p.root[2].get("adt") == "std::result::Result" and not p.path else None for p in lits)
            kind = "other"
            orig = []
            if variants == {"Ok"}:
                for p in lits:
                    orig += origins_of(g, p.root[2]["ops"][0], transparent=())
                if orig and all(o.root[0] == "call" and re.search(INTO_DATA, o.root[2]) for o in orig):
                    kind = "data"
            elif variants == {"Err"}:
                kind = "err"
                for p in lits:
                    orig += origins_of(g, p.root[2]["ops"][0])
            ev = Event(bb, kind, sl, t, what="yield")
            ev.origins = orig
            self.events.append(ev)
        # the generator's captured variables: the cap itself (`self.cap` captured by value / by reference), or the whole
        # `self` (when the generator also calls methods on it), whose cap is then read as a field of the capture
        self.cap_fields = set()          # strict: self.cap through plumbing only (R1)
        self.cap_fields_loose = set()    # any value derived from self.cap (R6 census of comparisons with the cap)
        self.self_fields = set()         # the whole `self`, moved in unchanged
        for bb, i, st in top.stmts():
            if st["rv"]["rv"] == "agg" and st["rv"].get("def") == g.raw["id"]:
                for idx, op in enumerate(st["rv"]["ops"]):
                    s = top.slice(op)
                    if any(pf[0] == 1 and any(e.endswith(":cap") for e in pf[1]) for pf in s.param_fields()):
                        self.cap_fields_loose.add(idx)
                        if not callee_allow(s, PLUMBING):
                            self.cap_fields.add(idx)
                    elif op.get("k") in ("copy", "move"):
                        p = access_path(top, op)
                        if p.root == ("param", 1) and not p.path and not p.calls:
                            self.self_fields.add(idx)

    def _cap_writes(self):
        """Statements of the generator that assign to, or mutably borrow, the `cap` field of a captured `self`."""
        g = self.g
        bad = []
        live = g.reachable(0)

        def is_self_cap(pl):
            p = access_path(g, pl)
            return p.root == ("param", 1) and len(p.path) >= 2 and p.path[0].isdigit() and int(p.path[0]) in self.self_fields and p.path[1] == "cap"
        for bb, i, st in g.stmts():
            if bb not in live:
                continue
            if st["pl"]["p"] and is_self_cap(st["pl"]):
                bad.append("bb%d assigns self.cap" % bb)
            rv = st["rv"]
            if rv["rv"] in ("ref", "rawptr") and (rv.get("mut") or rv["rv"] == "rawptr") and rv["pl"]["p"] and is_self_cap(rv["pl"]):
                bad.append("bb%d borrows self.cap mutably" % bb)
        return bad

    def cap_source(self):
        if len(self.cap_fields) == 1 and not self.self_fields:
            return True, "coroutine upvar(s) filled from self.cap: %s" % sorted(self.cap_fields)
        if len(self.self_fields) == 1 and not self.cap_fields:
            wr = self._cap_writes()
            return not wr, "the generator captures the whole `self` (capture %s) and reads its cap; self.cap is never assigned or mutably borrowed inside the generator: %s%s" % (
                sorted(self.self_fields), not wr, "" if not wr else " — " + "; ".join(wr))
        return False, "coroutine upvar(s) filled from self.cap: %s, from the whole self: %s" % (sorted(self.cap_fields), sorted(self.self_fields))

    def is_cap(self, op):
        if op.get("k") == "const":
            return False
        p = access_path(self.g, op, transparent=VALUE_KEEPING)
        if p.root != ("param", 1) or not p.path or not p.path[0].isdigit():
            return False
        k = int(p.path[0])
        return (k in self.cap_fields and len(p.path) == 1) or (k in self.self_fields and p.path[1:] == ["cap"])

    def mentions_cap(self, op):
        s1 = self.g.slice(op)
        for pn, proj in s1.param_fields():
            if pn != 1 or not proj:
                continue
            if any(proj[0].startswith("f%d:" % c) for c in self.cap_fields_loose):
                return True
            if any(proj[0].startswith("f%d:" % c) for c in self.self_fields) and any(e.endswith(":cap") for e in proj[1:]):
                return True
        return False

    def _count_plus_len(self, x, rv=None):
        """x = (running count: a local of the generator that is re-assigned) + Bytes::len(payload): (count local, len call term)."""
        parts = _sum_operands(self.g, x) if rv is None else ((rv["a"], rv["b"]) if rv.get("op") in ("Add", "AddUnchecked") else None)
        if not parts:
            return None
        pa, pb = access_path(self.g, parts[0]), access_path(self.g, parts[1])
        for u, v in ((pa, pb), (pb, pa)):
            if u.root[0] == "local" and not u.path and not u.calls and v.root[0] == "call" and re.search(LEN, v.root[2]) and not v.path and not v.calls:
                return u.root[1], v.root[4]
        return None

    def cap_guards(self, into_bbs):
        from .engine import comparison_of, normalise_le
        g = self.g
        guards = []
        for wbb, wt in g.switches():
            cmp = comparison_of(g, wbb)
            if not cmp:
                continue
            for rel, x, y, edge in normalise_le(cmp):
                if rel not in ("le", "lt") or not self.is_cap(y):
                    continue
                cl = self._count_plus_len(x)
                if cl is None:
                    continue
                acc, lt = cl
                len_ok = bool(into_bbs) and set(o.root[3] for o in origins_of(g, lt["args"][0], transparent=VALUE_KEEPING) if o.root[0] == "call" and re.search(INTO_DATA, o.root[2])) == set(into_bbs) \
                    and all(o.root[0] == "call" and re.search(INTO_DATA, o.root[2]) for o in origins_of(g, lt["args"][0], transparent=VALUE_KEEPING))
                guards.append({"bb": wbb, "rel": rel, "edge": edge, "target": cmp[edge], "other": cmp["false" if edge == "true" else "true"], "len_ok": len_ok,
                               "sum": g.slice(x), "lens": [(lt["callee"], wbb, lt)], "acc": acc})
        return guards

    def accumulates(self, gd, ev):
        """The running count (the non-len operand of the compared sum) is a local initialised to 0 outside the loop and
        advanced by the same len on every accepted iteration before the next frame is requested."""
        g = self.g
        acc = gd["acc"]
        len_dests = set(lt["dest"]["l"] for _, _, lt in gd["lens"])
        ds = g.defs().get(acc, [])
        inits = [(b, n) for b, k, n in ds if k == "assign" and n["rv"]["rv"] == "use" and n["rv"]["op"].get("k") == "const"]
        upds = [(b, n) for b, k, n in ds if not (k == "assign" and n["rv"]["rv"] == "use" and n["rv"]["op"].get("k") == "const")]
        init_zero = len(inits) == 1 and inits[0][1]["rv"]["op"].get("val", {}).get("int") == 0 and inits[0][0] not in g.loop_blocks()
        upd_ok = True
        upd_blocks = []
        for b, n in upds:
            if "rv" not in n or n["pl"]["p"]:
                upd_ok = False
                continue
            cl = self._count_plus_len(n["rv"]["op"]) if n["rv"]["rv"] == "use" else self._count_plus_len(None, n["rv"]) if n["rv"]["rv"] == "binop" else None
            if cl is None or cl[0] != acc or cl[1]["dest"]["l"] not in len_dests:
                upd_ok = False
            upd_blocks.append(b)
        # every accepted iteration passes an update before the next frame is requested
        frame_bbs = [b for b, _ in g.live_calls(FRAME)]
        passes = bool(upd_blocks) and not any(fb in g.reachable(gd["target"], avoid=upd_blocks) for fb in frame_bbs)
        detail = "accumulator _%d: initialised to 0 outside the loop=%s, %d update(s) all `+= len` of this payload=%s, every accepted iteration passes an update before the next frame=%s" % (
            acc, init_zero, len(upds), upd_ok, passes)
        return bool(init_zero and upd_ok and passes and upds), detail


# =============================================================================== (b) try_unfold
class TryUnfoldModel(StreamModel):
    form = "try_unfold"
    item_word = "step result Ok(Some(..))"

    def __init__(self, facts, top, call_bb, call, F, F_site, g, g_site):
        StreamModel.__init__(self, facts, top, g)
        self.call_bb, self.call, self.F, self.F_site, self.g_site = call_bb, call, F, F_site, g_site
        self.init = call["args"][0]
        # where each captured variable of the step coroutine comes from: ("state", path) | ("self", path) | None
        self.upvar_src = []
        for op in g_site["rv"]["ops"]:
            self.upvar_src.append(self._origin_in_F(op))
        # steps = the values returned by the step coroutine
        live = g.reachable(0)
        for bb, kind, node in g.defs().get(0, []):
            if bb not in live:
                continue
            self.events.append(self._classify(bb, kind, node))
        evb = set(e.bb for e in self.events)
        for e in self.events:
            after = set()
            for s in g.succ(e.bb):
                after |= g.reachable(s)
            if after & evb:
                self.problems.append("the step result written in bb%d can be overwritten before the step returns" % e.bb)

    # ---- provenance
    def _origin_in_F(self, op):
        F = self.F
        if op.get("k") not in ("copy", "move"):
            return None
        p = access_path(F, op)
        if p.calls:
            return None
        if p.root == ("param", 2):
            if all(e.isdigit() for e in p.path):
                return ("state", tuple(p.path))
            return None
        if p.root == ("param", 1) and p.path and p.path[0].isdigit():
            k = int(p.path[0])
            ops = self.F_site["rv"]["ops"]
            if k < len(ops) and ops[k].get("k") in ("copy", "move"):
                pt = access_path(self.top, ops[k])
                if pt.root == ("param", 1) and not pt.calls:
                    return ("self", tuple(pt.path) + tuple(p.path[1:]))
        return None

    def resolve(self, x):
        """What an operand / place of the step coroutine denotes: ("state", path) a component of the CURRENT state,
        ("self", path) a field of into_stream's self captured by the step closure, ("len", bb, term) the result of
        Bytes::len, ("const", value), or ("other", Path)."""
        if "k" in x and x["k"] == "const":
            return ("const", (x.get("val") or {}).get("int"))
        p = access_path(self.g, x)
        mb = self._mut_borrowed()
        for l, fields in _chain_locals(self.g, x):
            # a local on the way is mutably borrowed (at an overlapping field path): its value may differ from the root's
            if any(bf[:len(fields)] == fields[:len(bf)] for bf in mb.get(l, [])):
                return ("other", p)
        if p.root == ("param", 1) and p.path and p.path[0].isdigit() and not p.calls:
            i = int(p.path[0])
            src = self.upvar_src[i] if i < len(self.upvar_src) else None
            if src is not None:
                return (src[0], src[1] + tuple(p.path[1:]))
        if p.root[0] == "call" and re.search(LEN, p.root[2]) and not p.path:
            return ("len", p.root[3], p.root[4])
        if p.root[0] == "const":
            return ("const", (p.root[2].get("val") or {}).get("int"))
        return ("other", p)

    def _mut_borrowed(self):
        """Locals of the step coroutine (other than its own state `_1`) that are borrowed mutably / by raw pointer."""
        if getattr(self, "_mb", None) is None:
            g = self.g
            mb = {}
            for bb, i, st in g.stmts():
                rv = st["rv"]
                if rv["rv"] in ("ref", "rawptr") and (rv.get("mut") or rv["rv"] == "rawptr") and rv["pl"]["l"] > g.argc and (not rv["pl"]["p"] or rv["pl"]["p"][0] != "*"):
                    fs = []
                    for e in rv["pl"]["p"]:
                        if isinstance(e, dict) and "f" in e:
                            fs.append(e["f"])
                        else:
                            break       # a deref / index / downcast: everything below the fields seen so far
                    mb.setdefault(rv["pl"]["l"], []).append(fs)
            self._mb = mb
        return self._mb

    def init_of(self, path):
        """Initial value of a state component: access path in into_stream."""
        if not all(e.isdigit() for e in path):
            return None
        if self.init.get("k") not in ("copy", "move"):
            return None
        return access_path(self.top, _place(self.init, path))

    def next_of(self, ev, path, field=None):
        """Place of a state component (or of a named field of it) in the state carried to the next step by a data event."""
        if ev.state is None or ev.state.get("k") not in ("copy", "move") or not all(e.isdigit() for e in path):
            return None
        return _place(ev.state, tuple(path) + ((field,) if field else ()))

    def sum_parts(self, x):
        """If operand/place x is `a + b` (checked or not): (a, b) operands, else None."""
        g = self.g
        p = access_path(g, x)
        if p.root[0] != "local" or p.path not in ([], ["0"]):
            return None
        d = _single_def(g, p.root[1])
        if d is None or d[1] != "assign" or d[2]["pl"]["p"] or d[2]["rv"]["rv"] != "binop" or d[2]["rv"]["op"] not in ADDS:
            return None
        if (d[2]["rv"]["op"] == "AddWithOverflow") != (p.path == ["0"]):
            return None
        return d[2]["rv"]["a"], d[2]["rv"]["b"]

    def count_plus_len(self, x):
        """x = (state component P) + Bytes::len(..): (P, len term) else None."""
        parts = self.sum_parts(x)
        if not parts:
            return None
        ra, rb = self.resolve(parts[0]), self.resolve(parts[1])
        for u, v in ((ra, rb), (rb, ra)):
            if u[0] == "state" and v[0] == "len":
                return u[1], v
        return None

    def _writes_or_mut_borrows(self, paths):
        """Statements of the step coroutine that assign to, or mutably borrow, a place overlapping one of the state paths."""
        g = self.g
        bad = []

        def overlaps(q):
            return any(q[:len(p)] == p or p[:len(q)] == q for p in paths)
        live = g.reachable(0)
        for bb, kind, node in g.defs().get(1, []):
            if bb not in live:
                continue
            pl = node["pl"] if kind == "assign" else node.get("dest") or node.get("resume_pl") or {"l": 1, "p": []}
            r = self.resolve(pl) if pl["p"] else ("other", "the coroutine state itself")
            if r[0] != "state" or overlaps(r[1]):
                bad.append("bb%d writes %s" % (bb, ".".join(r[1]) if r[0] == "state" else r[1]))
        for bb, i, st in g.stmts():
            if bb not in live:
                continue
            rv = st["rv"]
            if rv["rv"] in ("ref", "rawptr") and (rv.get("mut") or rv["rv"] == "rawptr"):
                r = self.resolve(rv["pl"])
                if r[0] == "state" and overlaps(r[1]):
                    bad.append("bb%d borrows %s mutably" % (bb, ".".join(r[1])))
        return bad

    # ---- events
    def _classify(self, bb, kind, node):
        g = self.g
        if kind == "call":
            if re.search(r"FromResidual::from_residual$", node.get("callee") or "") and not node["dest"]["p"]:
                ev = Event(bb, "err", g.slice(node["args"][0]), node, what="`?`")
                # (the operand of from_residual is the residual `Result<Infallible, E>`: the error is its Err payload)
                a = node["args"][0]
                ev.origins = origins_of(g, {"l": a["pl"]["l"], "p": list(a["pl"]["p"]) + [{"dc": "Err", "v": 1}, {"f": 0, "n": ""}]}) if a.get("k") in ("copy", "move") else []
                return ev
            return Event(bb, "other", g.slice({"l": 0, "p": []}), node, what="call %s" % node.get("callee"))
        if node["pl"]["p"]:
            return Event(bb, "other", None, node, what="partial write of the step result")
        rv = node["rv"]
        if rv["rv"] == "use":
            a = _agg_def(g, rv["op"])
            if a is None:
                return Event(bb, "other", None, node, what="step result copied from a value not built here")
            rv = a[1]
        if rv["rv"] != "agg" or rv.get("adt") != "std::result::Result":
            return Event(bb, "other", None, node, what="step result is not a Result literal")
        if rv["variant"] == "Err":
            ev = Event(bb, "err", g.slice(rv["ops"][0]), node, what="Err(..)")
            ev.origins = origins_of(g, rv["ops"][0])
            return ev
        inner = _agg_def(g, rv["ops"][0])
        if inner is None or inner[1].get("adt") != "std::option::Option":
            return Event(bb, "other", None, node, what="Ok(<option not built here>)")
        if inner[1]["variant"] == "None":
            return Event(bb, "end", None, node, what="Ok(None)")
        pair = _agg_def(g, inner[1]["ops"][0])
        if pair is None or pair[1].get("agg") != "tuple" or len(pair[1]["ops"]) != 2:
            return Event(bb, "other", None, node, what="Ok(Some(<pair not built here>))")
        item, state = pair[1]["ops"]
        ev = Event(bb, "data", g.slice(item), node, state=state, what="Ok(Some((item, next)))")
        ev.origins = origins_of(g, item, transparent=())
        return ev

    # ---- the cap
    def _carriers(self):
        """State paths whose initial value is into_stream's `self` itself."""
        out = []
        a = _agg_def(self.top, self.init)
        cands = [()]
        if a is not None and a[1].get("agg") == "tuple":
            cands += [(str(i),) for i in range(len(a[1]["ops"]))]
        for P in cands:
            ip = self.init_of(P)
            if ip is not None and ip.root == ("param", 1) and not ip.path and not ip.calls:
                out.append(P)
        return out

    def _carrier_ok(self, P):
        why = []
        fields = [x["name"] for x in self.facts.adts["extractor::body::StreamingBody"]["variants"][0]["fields"]]
        for ev in self.data:
            # the StreamingBody carried on is the current one (its `body` is of course borrowed mutably to read frames:
            # what matters here is that its cap is the current state's cap)
            nc = self.next_of(ev, P, (fields.index("cap"), "cap")) if "cap" in fields else None
            r = self.resolve(nc) if nc is not None else None
            if r != ("state", P + ("cap",)):
                why.append("the state carried on by the step result in bb%d does not keep `self` (its cap)" % ev.bb)
        why += self._writes_or_mut_borrows([P + ("cap",)])
        return not why, why

    def cap_source(self):
        cs = self._carriers()
        env = [i for i, s in enumerate(self.upvar_src) if s == ("self", ("cap",))]
        if len(cs) == 1 and not env:
            ok, why = self._carrier_ok(cs[0])
            return ok, "state component %s is into_stream's self at the first step, is carried unchanged by every step and its cap is never written: %s%s" % (
                ".".join(cs[0]) or "(whole)", ok, "" if ok else " — " + "; ".join(why))
        if env and not cs:
            return len(env) == 1, "step closure captures self.cap by value (capture %s)" % env
        return False, "state components holding self: %s, captures of self.cap: %s" % (cs, env)

    def is_cap(self, op):
        r = self.resolve(op)
        if r == ("self", ("cap",)):
            return True
        if r[0] == "state" and r[1] and r[1][-1] == "cap":
            P = r[1][:-1]
            return P in self._carriers() and self._carrier_ok(P)[0]
        return False

    def mentions_cap(self, op):
        if self.is_cap(op):
            return True
        # any value computed from the cap (R6 classifies every comparison that involves it)
        g = self.g
        s = g.slice(op)
        for pj in s.places:
            import json
            pl = json.loads(pj)
            if any(isinstance(e, dict) and e.get("n") == "cap" for e in pl["p"]):
                return True
        return False

    def cap_guards(self, into_bbs):
        from .engine import comparison_of, normalise_le
        g = self.g
        guards = []
        for wbb, wt in g.switches():
            cmp = comparison_of(g, wbb)
            if not cmp:
                continue
            for rel, x, y, edge in normalise_le(cmp):
                if rel not in ("le", "lt") or not self.is_cap(y):
                    continue
                cl = self.count_plus_len(x)
                if cl is None:
                    continue
                P, ln = cl
                lt = ln[2]
                len_ok = set(b for _, b, _ in g.slice(lt["args"][0]).calls(INTO_DATA)) == into_bbs and bool(into_bbs)
                guards.append({"bb": wbb, "rel": rel, "edge": edge, "target": cmp[edge], "other": cmp["false" if edge == "true" else "true"], "len_ok": len_ok, "sum": g.slice(x),
                               "lens": [(lt["callee"], ln[1], lt)], "count": P})
        return guards

    def accumulates(self, gd, ev):
        """The running count is state component P: 0 in the initial state, never written inside a step, and every
        delivering step carries on P + len(delivered payload); an accepted payload is delivered before the next frame."""
        g = self.g
        P = gd["count"]
        ip = self.init_of(P)
        init_zero = ip is not None and ip.root[0] == "const" and not ip.path and (ip.root[2].get("val") or {}).get("int") == 0
        wr = self._writes_or_mut_borrows([P])
        upd_ok = bool(self.data)
        for e in self.data:
            nx = self.next_of(e, P)
            cl = self.count_plus_len(nx) if nx is not None else None
            if cl is None or cl[0] != P:
                upd_ok = False
                continue
            lt = cl[1][2]
            if set(b for _, b, _ in g.slice(lt["args"][0]).calls(INTO_DATA)) != set(b for _, b, _ in e.sl.calls(INTO_DATA)) or not e.sl.calls(INTO_DATA):
                upd_ok = False
        frame_bbs = [b for b, _ in g.live_calls(FRAME)]
        passes = not any(fb in g.reachable(gd["target"], avoid=[e.bb for e in self.data]) for fb in frame_bbs)
        detail = "running count = state component %s: 0 in the initial state=%s, not written inside a step=%s, every delivering step carries on count + len of the payload it delivers=%s, an accepted payload is delivered before the next frame is requested=%s" % (
            ".".join(P), init_zero, not wr, upd_ok, passes)
        return init_zero and not wr and upd_ok and passes, detail


# =============================================================================== recognition
def stream_model(facts):
    top = facts.one(r"^extractor::body::StreamingBody::into_stream$")
    if top is None:
        raise ModelLost("StreamingBody::into_stream")
    cands = [g for g in facts.descendants(top) if g.raw.get("coroutine") and list(g.calls(FRAME))]
    if len(cands) != 1:
        raise ModelLost("the coroutine inside StreamingBody::into_stream that calls BodyExt::frame (%d found)" % len(cands))
    g = cands[0]
    unfolds = [(bb, t) for bb, t in top.live_calls(UNFOLD)]
    if g.live_calls(SEND) and not unfolds:
        return TryStreamModel(facts, top, g)
    if len(unfolds) == 1 and not g.live_calls(SEND):
        bb, t = unfolds[0]
        if len(t["args"]) != 2:
            raise ModelLost("try_unfold(init, step) with two arguments")
        cl = closure_args_of_call(top, t)
        if len(cl) != 1:
            raise ModelLost("the step closure passed to try_unfold")
        F, F_site = cl[0]
        sites = [st for b, i, st in F.stmts() if st["rv"]["rv"] == "agg" and st["rv"].get("def") == g.raw["id"] and st["pl"] == {"l": 0, "p": []}]
        if F.argc != 2 or len(sites) != 1:
            raise ModelLost("the step closure of try_unfold returning the coroutine that reads the body frames")
        if ("call", t["callee"], bb) not in top.slice({"l": 0, "p": []}).atoms:
            raise ModelLost("the stream returned by into_stream being the one built by try_unfold")
        m = TryUnfoldModel(facts, top, bb, t, F, F_site, g, sites[0])
        if any(e.kind == "other" for e in m.events):
            raise ModelLost("classification of every value returned by the try_unfold step (%s)" % "; ".join(e.what for e in m.events if e.kind == "other"))
        if m.problems:
            raise ModelLost("a single step result per return of the try_unfold step (%s)" % "; ".join(m.problems))
        return m
    raise ModelLost("the stream mechanism of StreamingBody::into_stream: neither a try_stream! generator (Sender::send) nor a single futures::stream::try_unfold step function")
