"""E1 front end: run the mirfacts driver over /repo's *current* working tree.

The fact files are cached by a content hash of the workspace sources, so every
check decides the tree as it is now; twenty checks in a row extract once.
"""
import fcntl
import glob
import hashlib
import json
import os
import shutil
import subprocess
import sys
import time

VERIF = os.path.dirname(os.path.dirname(os.path.abspath(__file__)))
CACHE = os.path.join(VERIF, ".cache")
DRIVER_DIR = os.path.join(VERIF, "driver")
DRIVER_BIN = os.path.join(DRIVER_DIR, "target", "debug", "mirfacts")
CRATES = ("dropshot", "dropshot_endpoint")
POOL = 4


def repo_root():
    return os.environ.get("VERIF_REPO", "/repo")


def source_files(repo):
    out = []
    for top in ("dropshot", "dropshot_endpoint"):
        for dirpath, dirnames, filenames in os.walk(os.path.join(repo, top)):
            dirnames[:] = [d for d in dirnames if d not in ("target", ".git")]
            for fn in filenames:
                if fn.endswith(".rs") or fn in ("Cargo.toml", "build.rs"):
                    out.append(os.path.join(dirpath, fn))
    for fn in ("Cargo.toml", "Cargo.lock"):
        p = os.path.join(repo, fn)
        if os.path.exists(p):
            out.append(p)
    return sorted(out)


def tree_hash(repo):
    h = hashlib.sha256()
    files = source_files(repo)
    for p in files:
        h.update(os.path.relpath(p, repo).encode())
        h.update(b"\0")
        with open(p, "rb") as f:
            h.update(f.read())
        h.update(b"\0")
    # the driver is part of what produces the facts
    for p in sorted(glob.glob(os.path.join(DRIVER_DIR, "src", "*.rs"))):
        with open(p, "rb") as f:
            h.update(f.read())
    return h.hexdigest()[:20], len(files)


def nightly_sysroot():
    return subprocess.check_output(["rustc", "+nightly", "--print", "sysroot"], text=True).strip()


def build_driver():
    env = dict(os.environ, CARGO_NET_OFFLINE="true")
    r = subprocess.run(["cargo", "+nightly", "build", "--offline", "-q"], cwd=DRIVER_DIR, env=env,
                       stdout=subprocess.PIPE, stderr=subprocess.STDOUT, text=True)
    if r.returncode != 0 or not os.path.exists(DRIVER_BIN):
        sys.stderr.write(r.stdout)
        raise SystemExit("mirfacts driver failed to build")


def driver_fresh():
    if not os.path.exists(DRIVER_BIN):
        return False
    mt = os.path.getmtime(DRIVER_BIN)
    return all(os.path.getmtime(p) <= mt for p in glob.glob(os.path.join(DRIVER_DIR, "src", "*.rs")))


class ExtractionError(Exception):
    pass


def ensure_facts(features=""):
    """Return (dir_with_fact_files, info).  Extracts if the cache has no entry
    for the current content hash.  `features` is a cargo feature list applied
    to the dropshot package ("" or "usdt-probes")."""
    repo = repo_root()
    os.makedirs(CACHE, exist_ok=True)
    key, nfiles = tree_hash(repo)
    tag = key + ("-" + features.replace(",", "+") if features else "")
    out = os.path.join(CACHE, "facts", tag)
    info = {"repo": repo, "tree_hash": key, "source_files": nfiles, "features": features, "extracted": False}
    want = [os.path.join(out, c + ".json") for c in CRATES]
    if all(os.path.exists(p) for p in want):
        return out, info
    # a small pool of cargo target directories so that concurrent callers (self-test workers,
    # several checks at once) do not serialise on one build lock; each has its own flock
    lock = None
    slot = 0
    for slot in range(POOL):
        cand = open(os.path.join(CACHE, "lock%d" % slot), "w")
        try:
            fcntl.flock(cand, fcntl.LOCK_EX | fcntl.LOCK_NB)
            lock = cand
            break
        except OSError:
            cand.close()
    if lock is None:
        slot = os.getpid() % POOL
        lock = open(os.path.join(CACHE, "lock%d" % slot), "w")
        fcntl.flock(lock, fcntl.LOCK_EX)
    try:
        if all(os.path.exists(p) for p in want):
            return out, info
        dl = open(os.path.join(CACHE, "driver.lock"), "w")
        fcntl.flock(dl, fcntl.LOCK_EX)
        try:
            if not driver_fresh():
                build_driver()
        finally:
            fcntl.flock(dl, fcntl.LOCK_UN)
            dl.close()
        t0 = time.time()
        target = os.path.join(CACHE, "target" + ("" if slot == 0 else "-w%d" % slot) + ("-" + features if features else ""))
        tmp = os.path.join(CACHE, "facts", tag + ".tmp%d" % os.getpid())
        last_err = None
        for attempt in range(2):
            # cargo's freshness cache would silently skip the wrapper: forget the members
            for d in glob.glob(os.path.join(target, "debug", ".fingerprint", "dropshot-*")) + \
                    glob.glob(os.path.join(target, "debug", ".fingerprint", "dropshot_endpoint-*")):
                shutil.rmtree(d, ignore_errors=True)
            shutil.rmtree(tmp, ignore_errors=True)
            os.makedirs(tmp)
            env = dict(os.environ)
            env.update({
                "CARGO_NET_OFFLINE": "true",
                "LD_LIBRARY_PATH": nightly_sysroot() + "/lib:" + env.get("LD_LIBRARY_PATH", ""),
                "RUSTFLAGS": "-Awarnings",
                "RUSTC_WORKSPACE_WRAPPER": DRIVER_BIN,
                "CARGO_TARGET_DIR": target,
                "MIRFACTS_OUT": tmp,
                "MIRFACTS_CRATES": ",".join(CRATES),
            })
            env.pop("RUSTC_WRAPPER", None)
            cmd = ["cargo", "+nightly", "check", "--offline", "-q", "-p", "dropshot", "-p", "dropshot_endpoint"]
            if features:
                cmd += ["--features", ",".join("dropshot/" + f for f in features.split(","))]
            t1 = time.time()
            r = subprocess.run(cmd, cwd=repo, env=env, stdout=subprocess.PIPE, stderr=subprocess.STDOUT, text=True)
            if r.returncode != 0:
                shutil.rmtree(tmp, ignore_errors=True)
                raise ExtractionError("cargo check failed on the current tree:\n" + r.stdout[-4000:])
            missing = [c for c in CRATES if not os.path.exists(os.path.join(tmp, c + ".json")) or os.path.getmtime(os.path.join(tmp, c + ".json")) < t1 - 1]
            if not missing:
                last_err = None
                break
            last_err = "fact file for crate %s was not written by this run" % missing[0]
        # a body whose MIR was taken by an earlier query of the same compiler session (an async helper type-checked
        # through its caller first) is captured by running once more with that body first in line
        first = []
        for extra in range(3):
            if last_err:
                break
            skipped = []
            for c in CRATES:
                try:
                    with open(os.path.join(tmp, c + ".json")) as fh:
                        tail = fh.read()[-20000:]
                    i = tail.rfind('"stolen":[')
                    if i >= 0:
                        for ent in json.loads(tail[i + 9:tail.index("]", i) + 1]):
                            if ent.endswith(" (SKIPPED)"):
                                skipped.append(ent[:-len(" (SKIPPED)")])
                except Exception:
                    pass
            if not skipped or set(skipped) <= set(first):
                break
            first = sorted(set(first) | set(skipped))
            for d in glob.glob(os.path.join(target, "debug", ".fingerprint", "dropshot-*")) + \
                    glob.glob(os.path.join(target, "debug", ".fingerprint", "dropshot_endpoint-*")):
                shutil.rmtree(d, ignore_errors=True)
            env["MIRFACTS_FIRST"] = ";".join(first)
            t1 = time.time()
            r = subprocess.run(cmd, cwd=repo, env=env, stdout=subprocess.PIPE, stderr=subprocess.STDOUT, text=True)
            if r.returncode != 0:
                shutil.rmtree(tmp, ignore_errors=True)
                raise ExtractionError("cargo check failed on the current tree:\n" + r.stdout[-4000:])
            info["reextracted_for_stolen_bodies"] = first
        if last_err:
            shutil.rmtree(tmp, ignore_errors=True)
            raise ExtractionError(last_err)
        shutil.rmtree(out, ignore_errors=True)
        os.rename(tmp, out)
        info["extracted"] = True
        info["extract_s"] = round(time.time() - t0, 2)
        # keep the cache bounded: drop all but the 12 most recent fact sets
        def _mt(pth):
            try:
                return os.path.getmtime(pth)
            except OSError:
                return 0.0      # removed by a concurrent run between the listing and the stat
        sets = sorted(glob.glob(os.path.join(CACHE, "facts", "*")), key=_mt)
        now = time.time()
        for old in sets[:-150]:
            # never evict a set another process may be about to load
            if now - _mt(old) > 1800:
                shutil.rmtree(old, ignore_errors=True)
        return out, info
    finally:
        fcntl.flock(lock, fcntl.LOCK_UN)
        lock.close()


if __name__ == "__main__":
    feats = sys.argv[1] if len(sys.argv) > 1 else ""
    d, info = ensure_facts(feats)
    print(d, json.dumps(info))
